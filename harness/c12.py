"""
C12 — every evaluated rule yields exactly one well-formed, accounted outcome.

Tie: generated sets of REAL @rule functions (fresh function objects in shared fake modules, shared
keys, every return kind, missing / at-least-one / ignored dependencies, disabled rules, payload sizes
around a small `settings.defaults["max_detail_length"]`, all key types, reserved keyword names) are
evaluated in-process by SingleEvaluator, InsightsEvaluator and, through the real
Json/YamlFormatterAdapter objects built from argparse options, by JsonFormat and YamlFormat; what ends
up in results / skips / metadata / metadata keys / broker.exceptions and what the formatters print
is compared with IV.Rules (Drivers/C12.lean).  The response constructors are additionally compared
one by one (`mk` stream), `str(dict)` against the model's rendering (`repr` stream), the option glue
of EvaluatorFormatterAdapter exhaustively (`adapter` stream).

Oracle (independent of the model and of the implementation's helpers): the property text, see `oracle_*`.
"""
import argparse
import inspect
import io
import json
import logging
import os
import sys
import types

logging.disable(logging.CRITICAL)

import yaml

from harness.common import REPO, enc, dec, run_driver

import insights
from insights import settings
from insights.core import dr, plugins
from insights.core.evaluators import InsightsEvaluator, SingleEvaluator
from insights.core.exceptions import (BlacklistedSpec, CalledProcessError, ContentException, SkipComponent,
                                      TimeoutException, ValidationException)
from insights.core.plugins import Response
from insights.parsers.client_metadata import BranchInfo
from insights.specs import Specs
from insights.formats import render as render_rule_content
from insights.formats._json import JsonFormat, JsonFormatterAdapter
from insights.formats._yaml import YamlFormat, YamlFormatterAdapter
import contextlib
import re
import zlib

# the text formatter binds sys.stdout as its default stream when the module is imported (and prints a hint about
# colorama): import it with stdout pointing at a sink, so that what HumanReadableFormatAdapter.preprocess prints before
# the harness can redirect the formatter's stream does not end up in the check's own output
_TEXT_SINK = io.StringIO()
with contextlib.redirect_stdout(_TEXT_SINK):
    from insights.formats import text as text_format

KNOWN_SKIP_STUB = "skip-stub-anonymous"
LIMIT_KEY = "max_detail_length"


# --------------------------------------------------------------------------- custom response classes
# (module level so that yaml can name them; excluded from the generated table, sent to the driver as `cls` lines)

class vc12_keyed(Response):
    response_type = "vcustom"
    key_name = "vcustom_key"


class vc12_nokey(Response):
    response_type = "vnokey"


class vc12_unset(Response):
    key_name = "unset_key"


class vc12_pass2(Response):
    response_type = "pass"
    key_name = "pass2_key"


class vc12_md2(Response):
    response_type = "metadata"
    key_name = "md2_key"


CUSTOM = [vc12_keyed, vc12_nokey, vc12_unset, vc12_pass2, vc12_md2]


# component types DERIVED from `rule` (one and two levels, the second with attributes of its own): their rules are rules
class audit_rule(plugins.rule):
    pass


class audit_rule2(audit_rule):
    content_type = "text/vnd.audit"
    links = {"docs": ["https://example.invalid/audit"]}


RULE_TYPES = {"rule": plugins.rule, "audit": audit_rule, "audit2": audit_rule2}
GENERIC = {c.__name__: c for c in (plugins.make_fail, plugins.make_response, plugins.make_pass, plugins.make_info,
                                   plugins.make_fingerprint)}
GENERIC.update({c.__name__: c for c in CUSTOM})
SELECTABLE = {"rule": "reports", "info": "info", "pass": "pass", "none": "none", "fingerprint": "fingerprints",
              "metadata": None}


# values a rule may return that are neither None nor a Response: every falsy kind and some truthy ones
OTHER_VALUES = {
    "False": lambda: False, "0": lambda: 0, "0.0": lambda: 0.0, "''": lambda: "", "b''": lambda: b"",
    "[]": lambda: [], "{}": lambda: {}, "()": lambda: (), "set()": lambda: set(), "frozenset()": lambda: frozenset(),
    "True": lambda: True, "1": lambda: 1, "'x'": lambda: "x", "[1]": lambda: [1], "{'a':1}": lambda: {"a": 1},
    "object()": lambda: object(), "int": lambda: 5, "str": lambda: "make_fail",
    "dict": lambda: {"type": "rule", "error_key": "K"}, "list": lambda: [1], "cls": lambda: plugins.make_fail,
}
FALSY_OTHERS = [k for k, f in OTHER_VALUES.items() if not f()]
TRUTHY_OTHERS = [k for k in OTHER_VALUES if k not in FALSY_OTHERS]


# how a base component ends up: present (also with value None) or absent
PRESENT_HOWS = ("seed", "run", "none", "seednone")


class Crash(Exception):
    def __init__(self, n):
        super(Crash, self).__init__("crash%d" % n)
        self.vn = n


# --------------------------------------------------------------------------- protocol encodings

def pv(v):
    """a Python value as a protocol PyVal"""
    if v is None:
        return "N"
    if v is True:
        return "T"
    if v is False:
        return "F"
    if isinstance(v, int):
        return "I%d" % v
    if isinstance(v, str):
        return "S" + enc(v)
    if isinstance(v, list) and all(isinstance(x, str) for x in v):
        return "L" + ";".join(enc(x) for x in v)
    raise ValueError("value outside the modelled universe: %r" % (v,))


def pdict(items):
    return ",".join("%s:%s" % (enc(k), pv(v)) for k, v in items) or "-"


def senc(k):
    """hex form of a string; anything else (only possible when the implementation misbehaves) is marked"""
    return enc(k) if isinstance(k, str) else "?%s:%r" % (type(k).__name__, k)


def cv(v):
    """canonical JSON-able form of a value (strings hex-encoded like the driver does)"""
    if v is None or isinstance(v, (bool, int)):
        return v
    if isinstance(v, str):
        return enc(v)
    if isinstance(v, (list, tuple)):
        return [cv(x) for x in v]
    if isinstance(v, dict):
        return {senc(k): cv(x) for k, x in v.items()}
    return "?" + type(v).__name__


def cdict(d):
    if not isinstance(d, dict):
        return "?" + type(d).__name__
    return {senc(k): cv(v) for k, v in d.items()}


def J(x):
    try:
        return json.dumps(x, sort_keys=True, default=repr)
    except TypeError:
        return repr(x)


def cls_lines():
    out = []
    for c in CUSTOM:
        out.append("cls\t%s\t%s\t%s\t0" % (enc(c.__name__), enc(c.response_type) if c.response_type else "~",
                                          enc(c.key_name) if c.key_name else "~"))
    return out


# --------------------------------------------------------------------------- the size limit

class Limit(object):
    """set the limit through the object the code reads (settings.defaults[...]) and restore it"""

    def __init__(self, n):
        self.n = n

    def __enter__(self):
        self.saved = settings.defaults[LIMIT_KEY]
        settings.defaults[LIMIT_KEY] = self.n

    def __exit__(self, *a):
        settings.defaults[LIMIT_KEY] = self.saved


# --------------------------------------------------------------------------- constructors

def construct(act):
    """run a constructor description against the real classes"""
    k = act["k"]
    if k == "ret":
        return GENERIC[act["cls"]](act["key"], **dict(act["kw"]))
    if k == "md":
        return plugins.make_metadata(**dict(act["kw"]))
    if k == "mdk":
        return plugins.make_metadata_key(act["key"], act["value"])
    if k == "mknone":
        return plugins.make_none()
    raise ValueError(k)


def act_class(act):
    k = act["k"]
    return {"ret": lambda: GENERIC[act["cls"]], "md": lambda: plugins.make_metadata,
            "mdk": lambda: plugins.make_metadata_key, "mknone": lambda: plugins.make_none}[k]()


def ctor_args(act):
    """(class, key, keyword items) of the generic `Response.__init__` call a constructor amounts to"""
    k = act["k"]
    if k == "ret":
        return GENERIC[act["cls"]], act["key"], list(map(tuple, act["kw"]))
    if k == "md":
        return plugins.make_metadata, None, list(map(tuple, act["kw"]))
    if k == "mdk":
        return plugins.make_metadata_key, act["key"], [("value", act["value"])]
    raise ValueError(k)


def act_fields(act):
    """protocol fields of a rule action"""
    k = act["k"]
    if k in ("ret", "md", "mdk"):
        c, key, kw = ctor_args(act)
        return ["ret", enc(c.__name__), pv(key), pdict(kw)]
    if k in ("mknone", "none"):
        return ["none"]
    if k == "other":
        return ["other", "1" if OTHER_VALUES[act["v"]]() else "0"]
    if k == "raise":
        e = act["e"]
        return ["raise", e if e in ("skip", "content", "calledProc") else "other%d" % act["n"]]
    raise ValueError(k)


def verr_kind(ex):
    m = str(ex.args[0]) if ex.args else ""
    if "response_type must be set" in m:
        return "typeUnset"
    if "is an invalid argument for" in m:
        return "reserved"
    if "response missing" in m:
        return "keyMissing"
    if "invalid" in m and "type" in m:
        return "keyType"
    return "?"


def exc_kind(ex):
    if isinstance(ex, ValidationException):
        return "validation:" + verr_kind(ex)
    if getattr(ex, "vn", None) is not None:
        return "other%d" % ex.vn
    t = type(ex)
    if t is SkipComponent:
        return "skip"
    if t is ContentException:
        return "content"
    if t is CalledProcessError:
        return "calledProc"
    if t is Exception and "rules must return Response" in str(ex):
        return "badReturn"
    return "x:" + t.__name__


def soften(model_kind, impl_kind):
    """an unrecognised ValidationException message is compared as 'rejected' only"""
    if impl_kind == "validation:?" and model_kind.startswith("validation:"):
        return "validation:?"
    return model_kind


# --------------------------------------------------------------------------- ORACLE: response construction

def full_dict(cls, key, kw):
    d = dict(kw)
    d["type"] = cls.response_type
    if cls.key_name:
        d[cls.key_name] = key
    return d


def spec_invalid(cls, key, kw):
    """the property's rejection clause, stated on the arguments"""
    names = [k for k, _ in kw]
    if not cls.response_type:
        return True
    if "type" in names or (cls.key_name and cls.key_name in names):
        return True
    if cls.key_name and (not key or not isinstance(key, str)):
        return True
    return False


def oracle_mk(act, limit, outcome):
    """outcome: ("ok", dict) | ("err", kind) | ("exc", name).  Returns a description of the violation or None."""
    cls, key, kw = ctor_args(act)
    invalid = spec_invalid(cls, key, kw)
    if invalid:
        if outcome[0] == "ok":
            return "an invalid response was accepted: %s(%r, **%r) -> %r" % (cls.__name__, key, dict(kw), outcome[1])
        return None
    if outcome[0] != "ok":
        return "a valid response was rejected: %s(%r, **%r) -> %r" % (cls.__name__, key, dict(kw), outcome[1])
    got = outcome[1]
    full = full_dict(cls, key, kw)
    length = len(str(full))
    if cls is not plugins.make_metadata_key and length > limit:
        stub = {"type": cls.response_type, "max_detail_length_error": length}
        if cls.key_name:
            stub[cls.key_name] = key
        if got != stub:
            return "over-long response (%d > %d) not replaced by the stub: %r" % (length, limit, got)
    elif got != full:
        return "response within the limit (%d <= %d) is not what was passed: %r" % (length, limit, got)
    return None


def run_ctor(act, limit):
    with Limit(limit):
        try:
            r = construct(act)
            return ("ok", dict(r))
        except ValidationException as e:
            return ("err", verr_kind(e))
        except Exception as e:
            return ("exc", type(e).__name__)


# --------------------------------------------------------------------------- generators

KEYS_VALID = ["K1", "K2", "K1", "ERR_KEY", "k é"]
KEYS_BAD = [None, "", 0, 5, True, False, [], ["a"]]
KW_NAMES = ["a", "b", "n", "msg", "details", "value", "key_name", "pass_key", "max_detail_length_error", "é"]
STR_ALPHA = ["a", "b", " ", "'", '"', "\\", "\n", "\t", "\x01", "\x7f", "é", "€", "x", "0", "{", ":"]


def gen_str(rng, maxlen=8):
    return "".join(rng.choice(STR_ALPHA) for _ in range(rng.randint(0, maxlen)))


def gen_val(rng):
    r = rng.random()
    if r < 0.25:
        return rng.choice([0, 1, -7, 123456, 10 ** 12])
    if r < 0.35:
        return rng.choice([None, True, False])
    if r < 0.8:
        return gen_str(rng, rng.choice([0, 3, 8, 30]))
    return [gen_str(rng, 5) for _ in range(rng.randint(0, 4))]


def gen_ctor(rng, bias_valid=0.6):
    """a constructor call; mostly valid, otherwise one of the rejection reasons (or several)"""
    r = rng.random()
    if r < 0.12:
        kw = gen_kw(rng, None, bias_valid)
        return {"k": "md", "kw": kw}
    if r < 0.22:
        key = rng.choice(["kk", "k2", "kk", "info", "none", "skips", "reports", "system", "pass"]) \
            if rng.random() < bias_valid + 0.2 else rng.choice(KEYS_BAD)
        v = gen_val(rng)
        if v == []:
            v = ["e"]
        return {"k": "mdk", "key": key, "value": v}
    names = ["make_fail", "make_response", "make_pass", "make_info", "make_fingerprint",
             "make_fail", "make_pass", "make_info", "vc12_keyed", "vc12_nokey", "vc12_pass2", "vc12_md2"]
    if rng.random() > bias_valid + 0.3:
        names.append("vc12_unset")
    cn = rng.choice(names)
    cls = GENERIC[cn]
    if cls.key_name:
        key = rng.choice(KEYS_VALID) if rng.random() < bias_valid + 0.15 else rng.choice(KEYS_BAD)
    else:
        key = rng.choice([None, None, "ignored", 3])
    return {"k": "ret", "cls": cn, "key": key, "kw": gen_kw(rng, cls, bias_valid)}


def gen_kw(rng, cls, bias_valid):
    n = rng.choice([0, 1, 1, 2, 3])
    names = []
    for _ in range(n):
        nm = rng.choice(KW_NAMES)
        if nm not in names:
            names.append(nm)
    if rng.random() > bias_valid + 0.2:
        bad = rng.choice(["type", cls.key_name if (cls is not None and cls.key_name) else "type"])
        if bad not in names:
            names.insert(rng.randrange(len(names) + 1), bad)
    return [[nm, gen_val(rng)] for nm in names]


def steer_limit(rng, act):
    """a limit around the rendered length of this response (the generator may use the rendering; the oracle
    and the model compute their own)"""
    try:
        cls, key, kw = ctor_args(act)
        L = len(str(full_dict(cls, key, kw)))
    except Exception:
        L = 40
    return max(0, rng.choice([L - 1, L, L + 1, L - 1, L, L + 7, L - 20, 65535, 0, L * 2]))


# --------------------------------------------------------------------------- wide values (oracle only)

class StrKey(str):
    """a key that is a str without being exactly str"""


class Opaque(object):
    """a value json cannot serialise; its repr is what counts for the size limit"""
    def __init__(self, text):
        self.text = text

    def __repr__(self):
        return self.text

    def __eq__(self, other):
        return isinstance(other, Opaque) and other.text == self.text

    __hash__ = None


def wide_value(spec):
    """value specs (JSON, for the replay): plain JSON values stand for themselves; {"f": x} float, {"b": hex} bytes,
    {"t": [...]} tuple, {"s": x} one-element set, {"d": [[k, v], ...]} dict, {"o": text} Opaque, {"x": n} 'x' * n,
    {"k": text} StrKey"""
    if isinstance(spec, list):
        return [wide_value(x) for x in spec]
    if isinstance(spec, dict):
        (tag, v), = spec.items()
        if tag == "f":
            return float(v)
        if tag == "b":
            return bytes.fromhex(v)
        if tag == "t":
            return tuple(wide_value(x) for x in v)
        if tag == "s":
            return {wide_value(v)}
        if tag == "d":
            return {wide_value(k): wide_value(x) for k, x in v}
        if tag == "o":
            return Opaque(v)
        if tag == "x":
            return "x" * v
        if tag == "k":
            return StrKey(v)
        raise ValueError(tag)
    return spec


def gen_wide(rng, depth=0):
    r = rng.random()
    if depth < 3 and r < 0.3:
        return [gen_wide(rng, depth + 1) for _ in range(rng.randint(0, 3))]
    if depth < 3 and r < 0.5:
        return {"d": [[rng.choice(["a", "b", 1, "é", "\U0001f600", {"f": 0.5}, None]), gen_wide(rng, depth + 1)]
                      for _ in range(rng.randint(0, 3))]}
    if depth < 3 and r < 0.6:
        return {"t": [gen_wide(rng, depth + 1) for _ in range(rng.randint(0, 3))]}
    return rng.choice([{"f": 0.1}, {"f": 1e+300}, {"f": "nan"}, {"f": "-inf"}, {"b": ""}, {"b": "00ff27"}, {"s": 3},
                       {"o": "<obj at 0x1>"}, {"o": ""}, {"o": "é" * 5}, "\U0001f600\u0301", "\udc80", "\x00",
                       None, True, 0, -1, 2 ** 70, "", "q'\"", {"k": "sub"}, gen_str(rng, 6)])


def wide_act(c):
    cls = GENERIC[c["cls"]] if c["cls"] in GENERIC else {"make_metadata": plugins.make_metadata}[c["cls"]]
    return cls, wide_value(c["key"]), [(k, wide_value(v)) for k, v in c["kw"]]


def run_wide(c):
    """(violation or None, tag): the constructor on values of every shape, held to the same oracle statement as the
    modelled constructors — with the configured limit (limit None = settings untouched, payload around 65535)"""
    cls, key, kw = wide_act(c)
    limit = c["limit"] if c["limit"] is not None else 65535
    try:
        if c["limit"] is None:
            r = cls(**dict(kw)) if cls is plugins.make_metadata else cls(key, **dict(kw))
        else:
            with Limit(limit):
                r = cls(**dict(kw)) if cls is plugins.make_metadata else cls(key, **dict(kw))
        out = ("ok", dict(r))
    except ValidationException as e:
        out = ("err", verr_kind(e))
    except Exception as e:
        out = ("exc", type(e).__name__)
    key_ = None if cls is plugins.make_metadata else key
    invalid = spec_invalid(cls, key_, kw)
    tag = out[0] if out[0] != "ok" else ("stub" if "max_detail_length_error" in out[1] else "full")
    if invalid:
        return ("an invalid response was accepted: %s(%r, **%s) -> %s" % (cls.__name__, key, repr(dict(kw))[:300], repr(out[1])[:300])
                if out[0] == "ok" else None), tag
    if out[0] != "ok":
        return "a valid response was rejected: %s(%r, **%s) -> %r" % (cls.__name__, key, repr(dict(kw))[:300], out[1]), tag
    full = full_dict(cls, key_, kw)
    length = len(str(full))
    if length > limit:
        stub = {"type": cls.response_type, "max_detail_length_error": length}
        if cls.key_name:
            stub[cls.key_name] = key
        if out[1] != stub:
            return "over-long response (%d > %d) not replaced by the stub: %r" % (length, limit, str(out[1])[:300]), tag
    elif str(out[1]) != str(full) or set(out[1]) != set(full):
        return "response within the limit (%d <= %d) is not what was passed: %r" % (length, limit, str(out[1])[:300]), tag
    return None, tag


def gen_wide_case(rng):
    cn = rng.choice(["make_fail", "make_pass", "make_info", "make_fingerprint", "make_response", "make_metadata",
                     "vc12_keyed", "vc12_nokey"])
    keyless = cn in ("make_metadata", "vc12_nokey")
    key = None if keyless else rng.choice(["K1", {"k": "SUBKEY"}, {"k": "SUBKEY"}, "k é", {"b": "4b31"}, {"f": 1.0},
                                           {"t": ["K"]}, {"k": ""}, {"o": "K"}, "K2"])
    names = rng.sample(["a", "b", "n", "msg", "details", "é"], rng.randint(0, 3))
    if rng.random() < 0.1:
        names.append(rng.choice(["type", "error_key", "pass_key"]))
    kw = [[n, gen_wide(rng)] for n in names]
    c = {"kind": "mk-wide", "cls": cn, "key": key, "kw": kw, "limit": None}
    cls, k, kwv = wide_act(c)
    L = len(str(full_dict(cls, None if cn == "make_metadata" else k, kwv)))
    r = rng.random()
    if r < 0.75:
        c["limit"] = max(0, rng.choice([L - 1, L, L + 1, L, 0, 5 * L]))
    elif "pad" not in names:
        # settings untouched: the payload is padded to 65535 - 1 / + 0 / + 1 characters of rendering
        target = 65535 + rng.choice([-1, 0, 1])
        c["kw"] = kw + [["pad", {"x": 0}]]
        cls, k, kwv = wide_act(c)
        L0 = len(str(full_dict(cls, None if cn == "make_metadata" else k, kwv)))
        c["kw"][-1][1] = {"x": max(0, target - L0)}
    else:
        c["limit"] = L
    return c


# --------------------------------------------------------------------------- rule sets

_MODS = {}


def fake_module(name):
    """a module object in sys.modules so that dr registers MODULE_NAMES / BASE_MODULE_NAMES for the rule"""
    if name not in _MODS:
        parts = name.split(".")
        for i in range(1, len(parts) + 1):
            n = ".".join(parts[:i])
            if n not in sys.modules:
                sys.modules[n] = types.ModuleType(n)
        _MODS[name] = sys.modules[name]
    return _MODS[name]


MODULES = ["vc12pkga.plugins.mod_a", "vc12pkgb.rules.mod_a", "vc12pkga.plugins.mod_b", "vc12pkga.mod_c"]
_counter = [0]


# --------------------------------------------------------------------------- rule CONTENT templates

TEMPLATES = {
    "fine": "Detected {{ error_key }}{{ pass_key }}{{ info_key }} with n={{ n }}",
    "undefined": "Value: {{ nothere.attr }}",                 # jinja2 UndefinedError
    "raises-div": "Usage {{ used / total }}",                 # ZeroDivisionError with total=0
    "raises-filter": "Items {{ count|join(',') }}",           # TypeError: 'int' object is not iterable
}
TEMPLATE_KW = {"raises-div": [["used", 5], ["total", 0]], "raises-filter": [["count", 5]], "fine": [["n", 3]]}


def content_value(c, act):
    """the `content` object a rule carries: a string, a dict keyed by the response key, or by key then class"""
    t = TEMPLATES[c["template"]]
    if c["form"] == "str":
        return t
    key = act.get("key") if isinstance(act.get("key"), str) and act.get("key") else "K1"
    if c["form"] == "dict-key":
        return {key: t, "OTHER": "unused"}
    cls = act_class(act) if act.get("k") in ("ret", "md", "mdk", "mknone") else plugins.make_fail
    return {key: {cls: t, plugins.make_none: "none"}}


# --------------------------------------------------------------------------- configuration glue (spec side)

def entry_name(kind, fullname):
    if kind == "exact":
        return fullname
    if kind == "prefix-name":
        return fullname[:fullname.rindex("_") + 1]
    return fullname[:fullname.rindex(".") + 1]           # prefix-module: everything defined in that module


def entry_matches(name, kind, cname):
    """a configuration entry applies to every loaded component whose name starts with the entry's name; an exact
    name stands for that component alone"""
    return cname == name or (kind != "exact" and cname.startswith(name))


def real_config(cfg, names):
    out = {"default_component_enabled": cfg["default"], "configs": []}
    for e in cfg["entries"]:
        d = {"name": entry_name(e["kind"], names[e["target"]])}
        for k in ("enabled", "tags", "links"):
            if e.get(k) is not None:
                d[k] = e[k]
        out["configs"].append(d)
    return out


def apply_real(cfg, names):
    c = real_config(cfg, names)
    insights.apply_default_enabled(c)
    insights.apply_configs(c)


def restore_enabled():
    insights.apply_default_enabled({"default_component_enabled": True})


def rule_name(r, tag):
    """dr.get_name of the rule the harness is about to define"""
    if r.get("alias"):
        return "%s.make_rule_%d.<locals>.report%s" % (r["module"], tag, r["alias"])
    return "%s.r%d_%d" % (r["module"], r["id"], tag)


class RuleSet(object):
    """the real components of one case"""

    def __init__(self, case):
        _counter[0] += 1
        self.case = case
        tag = _counter[0]
        self.comps = {}
        self.ids = {}
        self.names = {}
        conf = case.get("config")
        self.configured = bool(conf)
        # the names the components WILL have (a configuration applied before they are defined names them already)
        predicted = {b["id"]: ("insights.specs.Specs.%s" % b["spec"]) if b["how"] == "spec" else
                     "%s.b%d_%d" % (MODULES[0], b["id"], tag) for b in case["bases"]}
        predicted.update({r["id"]: rule_name(r, tag) for r in case["rules"]})
        if conf and conf.get("before"):
            apply_real(conf["before"], predicted)
        for m in MODULES:
            fake_module(m).CONTENT = None
        for r in case["rules"]:
            c = r.get("content")
            if c and c["where"] == "module":
                fake_module(r["module"]).CONTENT = content_value(c, r["act"])
        for b in case["bases"]:
            self.comps[b["id"]] = self._base(b, tag)
        for r in case["rules"]:
            self.comps[r["id"]] = self._rule(r, tag)
        for i, c in self.comps.items():
            self.ids[c] = i
            self.names[i] = dr.get_name(c)
        assert self.names == predicted, (self.names, predicted)
        for r in case["rules"]:
            if not r["enabled"]:
                dr.set_enabled(self.comps[r["id"]], False)
            for j in r["ignore"]:
                dr.add_ignore(self.comps[r["id"]], self.comps[j])
        # spec side of the configuration history: what every component's enabled / tags / links must be now
        d0 = conf["before"]["default"] if conf and conf.get("before") else True
        self.eff = {}
        for b in case["bases"]:
            self.eff[b["id"]] = {"enabled": d0, "tags": None, "links": None}
        for r in case["rules"]:
            self.eff[r["id"]] = {"enabled": d0 and r["enabled"], "tags": r["tags"], "links": r["links"]}
        self.declared = {i: dict(v) for i, v in self.eff.items()}
        for cfg in (conf or {}).get("after", []):
            apply_real(cfg, self.names)
            for i in self.eff:
                self.eff[i]["enabled"] = cfg["default"]
            for e in cfg["entries"]:
                name = entry_name(e["kind"], self.names[e["target"]])
                for i in self.eff:
                    if entry_matches(name, e["kind"], self.names[i]):
                        self.eff[i]["enabled"] = cfg["default"] if e.get("enabled") is None else e["enabled"]
                        if e.get("tags") is not None:
                            self.eff[i]["tags"] = e["tags"]
                        if e.get("links") is not None:
                            self.eff[i]["links"] = e["links"]
        self.graph = {c: set(dr.get_delegate(c).dependencies) for c in self.comps.values()}
        self.rule_ids = [r["id"] for r in case["rules"]]
        self.by_name = {}                      # a name may stand for SEVERAL rule objects
        for i in self.rule_ids:
            self.by_name.setdefault(self.names[i], []).append(i)
        self.stats = {}

    def base_present(self, b):
        """whether the base component is in the broker after an evaluation"""
        if b["how"] in ("seed", "seednone"):
            return True
        return b["how"] in ("run", "none") and self.eff[b["id"]]["enabled"]

    def _base(self, b, tag):
        how = b["how"]
        if how == "spec":                  # a real registry point (only the command line stream: `-b spec=file` seeds it)
            return getattr(Specs, b["spec"])

        def fn():
            if how == "raise":
                raise Crash(99)
            if how == "skipraise":
                raise SkipComponent("absent")
            if how == "none":
                return None              # evaluates to None: PRESENT in the broker with value None
            return 1
        fn.__name__ = fn.__qualname__ = "b%d_%d" % (b["id"], tag)
        mod = fake_module(MODULES[0])
        fn.__module__ = mod.__name__
        setattr(mod, fn.__name__, fn)      # yaml names the functions held by a skip response's `missing` attribute
        deco = {"condition": plugins.condition, "combiner": plugins.combiner}.get(b.get("ctype"), plugins.component)
        return deco()(fn)

    def _rule(self, r, tag):
        act = r["act"]

        def fn(*args):
            k = act["k"]
            if k in ("ret", "md", "mdk", "mknone"):
                return construct(act)
            if k == "none":
                return None
            if k == "other":
                return OTHER_VALUES[act["v"]]()
            e = act["e"]
            if e == "skip":
                raise SkipComponent("deliberate")
            if e == "content":
                raise ContentException("no content")
            if e == "calledProc":
                raise CalledProcessError(1, "cmd")
            if e == "timeout":
                x = TimeoutException("t")
            elif e == "blacklisted":
                x = BlacklistedSpec()
            else:
                x = Crash(act["n"])
            x.vn = act["n"]
            raise x
        if r.get("alias"):
            # DISTINCT rule objects under ONE fully qualified name (a factory's closure, a redefinition, a reload)
            fn.__name__ = "report%s_%d" % (r["alias"], tag)
            fn.__qualname__ = "make_rule_%d.<locals>.report%s" % (tag, r["alias"])
        else:
            fn.__name__ = fn.__qualname__ = "r%d_%d" % (r["id"], tag)
        mod = fake_module(r["module"])
        fn.__module__ = mod.__name__
        setattr(mod, fn.__name__, fn)
        items = [self.comps[d] for d in r["requires"]] + [[self.comps[d] for d in g] for g in r["alo"]]
        kw = {}
        if r["optional"]:
            kw["optional"] = [self.comps[d] for d in r["optional"]]
        if r["tags"] is not None:
            kw["tags"] = r["tags"]
        if r["links"] is not None:
            kw["links"] = r["links"]
        c = r.get("content")
        if c and c["where"] == "kwarg":
            kw["content"] = content_value(c, r["act"])
        return RULE_TYPES[r.get("rtype", "rule")](*items, **kw)(fn)

    def broker(self):
        b = dr.Broker()
        b.store_skips = self.case["store_skips"]
        for bs in self.case["bases"]:
            if bs["how"] == "seed":
                b[self.comps[bs["id"]]] = 1
            elif bs["how"] == "seednone":
                b[self.comps[bs["id"]]] = None
        order = []
        b.add_observer(lambda comp, broker: order.append(self.ids.get(comp)))
        b.vorder = order
        return b

    # -- protocol
    def decl_lines(self):
        case = self.case
        out = ["new\t%d\t%d" % (case["limit"], 1 if case["store_skips"] else 0)]

        def links_field(links):
            return "~" if links is None else (",".join("%s=%s" % (enc(k), ";".join(enc(u) for u in us) or "-")
                                                       for k, us in links.items()) or "-")
        for b in case["bases"]:
            out.append("comp\t%d\t%s\t%d" % (b["id"], enc(self.names[b["id"]]), 1 if self.base_present(b) else 0))
        for r in case["rules"]:
            c = self.comps[r["id"]]
            d = dr.get_delegate(c)
            mod = dr.BASE_MODULE_NAMES.get(c)
            if self.configured:
                # as DECLARED (and set_enabled); the configurations applied afterwards follow as centry / capply lines
                dec = self.declared[r["id"]]
                tags, links, enabled = sorted(set(dec["tags"] or [])), dec["links"], dec["enabled"]
            else:
                tags, links, enabled = sorted(dr.get_tags(c)), d.links, r["enabled"]
            out.append("\t".join([
                "rule", str(r["id"]), enc(self.names[r["id"]]), enc(mod) if mod is not None else "~",
                ",".join(enc(t) for t in tags) or "-", links_field(links),
                ",".join(map(str, r["requires"])) or "-",
                ";".join(",".join(map(str, g)) for g in r["alo"]) or "-",
                ",".join(map(str, r["ignore"])) or "-",
                "1" if enabled else "0"] + act_fields(r["act"])))
        for cfg in (case.get("config") or {}).get("after", []):
            for e in cfg["entries"]:
                out.append("\t".join([
                    "centry", enc(entry_name(e["kind"], self.names[e["target"]])), "1" if e["kind"] == "exact" else "0",
                    "~" if e.get("enabled") is None else ("1" if e["enabled"] else "0"),
                    "~" if e.get("tags") is None else (",".join(enc(t) for t in sorted(set(e["tags"]))) or "-"),
                    "~~" if e.get("links") is None else links_field(e["links"])]))
            out.append("capply\t%d" % (1 if cfg["default"] else 0))
        return out

    def run_line(self, order):
        return "run\t" + (",".join(str(i) for i in order if i in set(self.rule_ids)) or "-")

    # -- canonical forms
    def canon_entry(self, e, objects=None):
        """never raises: an entry of an unexpected shape is canonicalised as such (and then differs from the model).
        objects: {id(response object): rule id} — the entry's source rule by OBJECT (names may be shared); without it
        (a printed document) the entry carries no source"""
        if not isinstance(e, dict):
            return {"malformed": repr(e)[:200]}
        try:
            c = self._canon_entry(e)
            if objects is None:
                c.pop("src", None)
            else:
                c["src"] = objects.get(id(e.get("details")), -1)
            return c
        except Exception as ex:
            return {"malformed": repr(e)[:200], "error": type(ex).__name__}

    def _canon_entry(self, e):
        idks = [k for k in e if isinstance(k, str) and k.endswith("_id") and k != "system_id"]
        idk = idks[0] if len(idks) == 1 else None
        return {"src": -1,
                "idn": senc(idk) if idk else "?", "idv": senc(e[idk]) if idk else "?",
                "component": cv(e.get("component")), "type": cv(e.get("type")), "key": cv(e.get("key")),
                "details": cdict(e.get("details", {})), "tags": sorted(cv(t) for t in e.get("tags", [])),
                "links": {senc(k): [senc(u) for u in us] for k, us in (e.get("links") or {}).items()}}

    def canon_state(self, ev, b):
        inv = {id(b.instances[c]): self.ids[c] for c in b.instances if c in self.ids}
        excs = {}
        for c, lst in b.exceptions.items():
            i = self.ids.get(c)
            if i in self.rule_ids:
                excs[str(i)] = [exc_kind(x) for x in lst]
        results = {}
        for t, es in (ev.results.items() if isinstance(ev.results, dict) else []):
            if es:
                results[senc(t)] = [self.canon_entry(e, inv) for e in es] if isinstance(es, (list, tuple)) else {"malformed": repr(es)[:200]}
        skips = ev.rule_skips if isinstance(ev.rule_skips, (list, tuple)) else [ev.rule_skips]
        return {"results": results,
                "skips": [{"src": inv.get(id(s), -1), "fields": cdict(s)} for s in skips],
                "metadata": cdict(ev.metadata), "mdkeys": cdict(ev.metadata_keys), "excs": excs,
                "stored": sorted(self.ids[c] for c in b.instances if self.ids.get(c) in self.rule_ids)}


def canon_model_state(m):
    excs = {}
    for i, k in m["excs"]:
        excs.setdefault(str(i), []).append(k)
    for es in m["results"].values():
        for e in es:
            e["tags"] = sorted(e["tags"])
    return {"results": m["results"], "skips": m["skips"], "metadata": m["metadata"], "mdkeys": m["mdkeys"],
            "excs": excs, "stored": sorted(m["stored"])}


def soften_state(model, impl):
    for i, ks in model["excs"].items():
        ik = impl["excs"].get(i, [])
        model["excs"][i] = [soften(k, ik[j] if j < len(ik) else "") for j, k in enumerate(ks)]
    return model


def canon_report(rs, resp):
    """canonical form of a (filtered) top-level response: list of [heading, kind] sorted by heading"""
    out = []
    if not isinstance(resp, dict):
        return [["?", {"val": "?" + repr(resp)[:200]}]]
    for h, v in resp.items():
        if h == "analysis_metadata" and isinstance(v, dict) and "start" in v:
            t = {"analysis": None}
        elif h == "system" and isinstance(v, dict) and "hostname" in v:
            t = {"system": cdict(v["metadata"]) if "metadata" in v else None}
        elif h == "skips" and isinstance(v, list) and all(isinstance(x, dict) and x.get("type") == "skip" for x in v):
            t = {"skips": [cdict(x) for x in v]}
        elif isinstance(v, list) and all(isinstance(x, dict) and "component" in x and "details" in x for x in v):
            t = {"entries": [rs.canon_entry(x) for x in v]}
        else:
            t = {"val": cv(v)}
        out.append([senc(h), t])
    return sorted(out, key=lambda p: str(p[0]))


def canon_model_report(m):
    for h, t in m:
        for e in t.get("entries", []):
            e.pop("src", None)             # a printed document does not say which rule OBJECT an entry came from
            e["tags"] = sorted(e["tags"])
    return sorted(m, key=lambda p: str(p[0]))


# --------------------------------------------------------------------------- ORACLE: accounting

def spec_outcome(rs, r, b, limit):
    """what the property says must have happened to rule r, from the declaration and the final broker:
    ("nothing",) | ("exception",) | ("skip", missing_required_ids, missing_groups) | ("resp", cls, key, kw) | ("none",)"""
    case = rs.case
    present = lambda i: rs.comps[i] in b
    if not rs.eff[r["id"]]["enabled"]:
        return ("nothing",)
    if any(present(i) for i in r["ignore"]):
        return ("exception",) if case["store_skips"] else ("nothing",)
    mr = [d for d in r["requires"] if not present(d)]
    ma = [g for g in r["alo"] if not any(present(d) for d in g)]
    if mr or ma:
        return ("skip", mr, ma)
    act = r["act"]
    k = act["k"]
    if k in ("none", "mknone"):
        return ("none",)
    if k == "other":
        return ("exception",)
    if k == "raise":
        if act["e"] == "skip" and not case["store_skips"]:
            return ("nothing",)
        return ("exception",)
    cls, key, kw = ctor_args(act)
    if spec_invalid(cls, key, kw):
        return ("exception",)
    return ("resp", cls, key, kw)


def skip_render_len(rs, r, mr, ma):
    """rendered length of the skip response the rule must produce (for the known-finding predicate)"""
    name = rs.names[r["id"]]
    details = "All: %s" % [rs.names[d] for d in mr] + " Any: " + " Any: ".join(str([rs.names[d] for d in g]) for g in ma)
    return len(str({"rule_fqdn": name, "reason": "MISSING_REQUIREMENTS", "details": details, "type": "skip"})), details


def expected_details(cls, key, kw, limit):
    full = full_dict(cls, key, kw)
    length = len(str(full))
    if cls is not plugins.make_metadata_key and length > limit:
        stub = {"type": cls.response_type, "max_detail_length_error": length}
        if cls.key_name:
            stub[cls.key_name] = key
        return stub
    return full


def named_missing(details):
    """the component names a skip entry's details call missing: (required, [at-least-one groups])"""
    import ast
    if not isinstance(details, str) or not details.startswith("All: "):
        return None
    parts = details[len("All: "):].split(" Any: ")
    try:
        req = ast.literal_eval(parts[0])
        groups = [ast.literal_eval(p) for p in parts[1:] if p.strip()]
    except (ValueError, SyntaxError):
        return None
    return req, groups


def expected_listing(rs, r, want, limit):
    """what the rule must be listed as: ("entry", heading/type, key, details, id) | ("skip", details) | None"""
    if want[0] == "skip":
        return ("skip", skip_render_len(rs, r, want[1], want[2])[1])
    if want[0] == "none":
        return ("entry", "none", "NONE_KEY", expected_details(plugins.make_none, "NONE_KEY", [], limit))
    if want[0] == "resp" and want[1].response_type not in ("metadata", "metadata_key"):
        cls = want[1]
        return ("entry", cls.response_type, (want[2] if cls.key_name else None), expected_details(cls, want[2], want[3], limit))
    return None


def assign_by_name(rs, rules, wants, listed, skipped, limit):
    """Entries and skip entries carry the rule's NAME, and several rule objects may share one name.  Hand every
    observed item to one rule of that name: first the items that are exactly what a rule must be listed as, then the
    remaining ones to the rules still waiting for one; what is left over is charged to the first rule of the name.
    With a unique name the rule simply gets everything listed under it."""
    mine_e = {r["id"]: [] for r in rules}
    mine_s = {r["id"]: [] for r in rules}
    groups = {}
    for r in rules:
        groups.setdefault(rs.names[r["id"]], []).append(r)
    for name, members in groups.items():
        pool_e, pool_s = list(listed.get(name, [])), list(skipped.get(name, []))
        exp = {r["id"]: expected_listing(rs, r, wants[r["id"]], limit) for r in members}
        def fits(r, x, head, e, strict):
            if not (head == x[1] and e.get("key") == x[2] and dict(e.get("details", {})) == x[3]):
                return False
            if not strict:
                return True
            eff = rs.eff[r["id"]]
            return (sorted(e.get("tags", [])) == sorted(set(eff["tags"] or []))
                    and (e.get("links") or {}) == (eff["links"] or {}))
        waiting = [r for r in members if exp[r["id"]] is not None]
        for strict in (True, False):
            still = []
            for r in waiting:
                x = exp[r["id"]]
                hit = None
                if x[0] == "entry":
                    for k, (head, e) in enumerate(pool_e):
                        if fits(r, x, head, e, strict):
                            hit = k
                            break
                    if hit is not None:
                        mine_e[r["id"]].append(pool_e.pop(hit))
                    else:
                        still.append(r)
                else:
                    for k, sk in enumerate(pool_s):
                        if sk.get("details") == x[1]:
                            hit = k
                            break
                    if hit is not None:
                        mine_s[r["id"]].append(pool_s.pop(hit))
                    else:
                        still.append(r)
            waiting = still
        for r in waiting:
            if exp[r["id"]][0] == "entry" and pool_e:
                mine_e[r["id"]].append(pool_e.pop(0))
            elif exp[r["id"]][0] == "skip" and pool_s:
                mine_s[r["id"]].append(pool_s.pop(0))
        mine_e[members[0]["id"]] += pool_e
        mine_s[members[0]["id"]] += pool_s
    return mine_e, mine_s


def oracle_ruleset(rs, results, skips, exc_ids, metadata, mdkeys, b, limit, order, participants=None, ordered=True,
                   identity=False):
    """results: {type: [entry dict]}, skips: [dict], exc_ids: set of rule ids with a recorded exception;
    participants: ids of the rules that took part in an evaluation (default: all); order: the rules in the order
    they were first evaluated (metadata: the last writer wins).  Multiplicities are counted (lists, not sets): a
    rule that a later evaluation of the same evaluator meets again must still be listed once.  Rules are rule
    OBJECTS: several may share one fully qualified name, each has its own outcome (identity=True: the entries'
    `details` / the skip entries ARE the response objects in the broker, so they are also counted per object).
    Returns a list of (description, finding-or-None)."""
    out = []
    case = rs.case
    listed = {}
    for t, es in results.items():
        for e in es:
            listed.setdefault(e.get("component"), []).append((t, e))
    skipped = {}
    anonymous = 0
    ids_by_name = {}
    for i, n in rs.names.items():
        ids_by_name.setdefault(n, []).append(i)
    for s in skips:
        if "rule_fqdn" in s:
            skipped.setdefault(s["rule_fqdn"], []).append(s)
        else:
            anonymous += 1
        # "dependencies met" is about presence in the broker, never about the value: what a skip entry names as
        # missing must really be absent (of several components with that name: at least one)
        nm = named_missing(s.get("details"))
        if nm:
            for n in nm[0] + [x for g in nm[1] for x in g]:
                ids = ids_by_name.get(n)
                if ids and all(rs.comps[i] in b for i in ids):
                    out.append(("skip entry of %s names %s as missing but it is present in the broker (value %r)"
                                % (s.get("rule_fqdn"), n, b[rs.comps[ids[0]]]), None))
    wants = {r["id"]: (spec_outcome(rs, r, b, limit) if (participants is None or r["id"] in participants) else ("nothing",))
             for r in case["rules"]}
    mine_e, mine_s = assign_by_name(rs, case["rules"], wants, listed, skipped, limit)
    if identity:
        objs = {}
        for i in rs.rule_ids:
            c = rs.comps[i]
            if c in b:
                objs[id(b[c])] = i
        seen = {}
        for t, es in results.items():
            for e in es:
                i = objs.get(id(e.get("details")))
                seen[i] = seen.get(i, 0) + 1
        for sk in skips:
            i = objs.get(id(sk))
            seen[i] = seen.get(i, 0) + 1
        for r in case["rules"]:
            x = expected_listing(rs, r, wants[r["id"]], limit)
            n = seen.get(r["id"], 0)
            if n != (1 if x else 0):
                fnd = None
                out.append(("the response OBJECT of rule %s (id %d, one of %d rules of that name) is listed %d times, expected %d"
                            % (rs.names[r["id"]], r["id"], len(ids_by_name[rs.names[r["id"]]]), n, 1 if x else 0), fnd))
        if seen.get(None):
            out.append(("%d listed entries carry a response that is no rule's value in the broker" % seen[None], None))
    md_expect = {}
    mdk_expect = {}
    md_writes, mdk_writes = {}, {}       # every value written per key (ordered=False: sub-graphs ran concurrently)
    pos = {i: n for n, i in enumerate(order)}
    for r in sorted(case["rules"], key=lambda r: pos.get(r["id"], 10 ** 6)):
        name = rs.names[r["id"]]
        if len(ids_by_name[name]) > 1:
            name = "%s [rule %d of %d with this name]" % (name, r["id"], len(ids_by_name[name]))
        want = wants[r["id"]]
        n_res, n_skip, n_exc = len(mine_e[r["id"]]), len(mine_s[r["id"]]), 1 if r["id"] in exc_ids else 0
        merged = 0
        cls = None
        if want[0] == "resp":
            cls = want[1]
            if cls.response_type == "metadata":
                merged = 1
                det = expected_details(cls, want[2], want[3], limit)
                md_expect.update({k: v for k, v in det.items() if k != "type"})
                for k, v in det.items():
                    if k != "type":
                        md_writes.setdefault(k, []).append(v)
            elif cls.response_type == "metadata_key":
                merged = 1
                mdk_expect[want[2]] = dict(want[3])["value"]
                mdk_writes.setdefault(want[2], []).append(dict(want[3])["value"])
        total = n_res + n_skip + n_exc + merged
        exp_total = 0 if want[0] == "nothing" else 1
        finding = None
        if want[0] == "skip":
            L, details = skip_render_len(rs, r, want[1], want[2])
            if L > limit:
                finding = KNOWN_SKIP_STUB      # predicate on the input: the skip response's own rendering exceeds the limit
        if total != exp_total:
            out.append(("rule %s (%s) is accounted %d times (results %d, skips %d, exception %d, merged %d), expected %d"
                        % (name, want[0], total, n_res, n_skip, n_exc, merged, exp_total), finding))
            continue
        if want[0] == "exception" and rs.comps[r["id"]] in b:
            out.append(("rule %s returned something that is not a response (or an invalid one) but has a value in the broker: %r"
                        % (name, b[rs.comps[r["id"]]]), None))
        if want[0] == "exception" and n_exc != 1:
            out.append(("rule %s must be rejected with a recorded exception but was listed (results %d, skips %d)"
                        % (name, n_res, n_skip), None))
        elif want[0] == "skip":
            if n_skip != 1:
                out.append(("rule %s has missing dependencies but no skip entry names it" % name, finding))
            else:
                s = mine_s[r["id"]][0]
                L, details = skip_render_len(rs, r, want[1], want[2])
                if s.get("details") != details or s.get("type") != "skip":
                    out.append(("skip entry of %s does not name its missing dependencies: %r (expected details %r)"
                                % (name, s, details), finding))
        elif want[0] in ("resp", "none") and not merged:
            if want[0] == "none":
                t, key, key_name = "none", "NONE_KEY", "none_key"
                det = expected_details(plugins.make_none, "NONE_KEY", [], limit)
            else:
                t, key, key_name = cls.response_type, (want[2] if cls.key_name else None), cls.key_name
                det = expected_details(cls, want[2], want[3], limit)
            if n_res != 1:
                out.append(("rule %s returned a %s response but is listed %d times" % (name, t, n_res), None))
                continue
            head, e = mine_e[r["id"]][0]
            d = dr.get_delegate(rs.comps[r["id"]])
            mod = r["module"].split(".")[-1]
            problems = []
            if head != t or e.get("type") != t:
                problems.append("heading %r / type %r instead of %r" % (head, e.get("type"), t))
            if e.get("key") != key:
                problems.append("key %r instead of %r" % (e.get("key"), key))
            if e.get("component") != rs.names[r["id"]]:
                problems.append("component %r" % e.get("component"))
            eff = rs.eff[r["id"]]
            if sorted(e.get("tags", [])) != sorted(set(eff["tags"] or [])):
                problems.append("tags %r instead of %r" % (e.get("tags"), eff["tags"]))
            if (e.get("links") or {}) != (eff["links"] or {}):
                problems.append("links %r instead of %r" % (e.get("links"), eff["links"]))
            if e.get("%s_id" % t) != "%s|%s" % (mod, key):
                problems.append("id %r instead of %r" % (e.get("%s_id" % t), "%s|%s" % (mod, key)))
            if dict(e.get("details", {})) != det:
                problems.append("details %r instead of %r" % (e.get("details"), det))
            if problems:
                out.append(("rule %s: wrong %s" % (name, "; ".join(problems)), None))
    if anonymous:
        # a skip entry that names no rule: attributed above as a missing skip entry (known finding) — nothing to add
        pass
    mdf = None
    if not ordered:
        # concurrent sub-graphs: any of the written values may be the last one
        for k, vs in md_writes.items():
            if k not in metadata or metadata[k] not in vs:
                out.append(("metadata %r: expected one of %r, got %r" % (k, vs, metadata.get(k)), None))
        for k in metadata:
            if k not in md_writes:
                out.append(("metadata has %r which no metadata response set" % k, None))
        if set(mdkeys) != set(mdk_writes) or any(mdkeys[k] not in mdk_writes[k] for k in mdkeys if k in mdk_writes):
            out.append(("metadata keys %r, expected one value per key out of %r" % (mdkeys, mdk_writes), None))
        return out
    for k, v in md_expect.items():
        if k not in metadata or metadata[k] != v:
            out.append(("metadata %r: expected %r (last writer in run order), got %r" % (k, v, metadata.get(k)), mdf))
    for k in metadata:
        if k not in md_expect:
            out.append(("metadata has %r which no metadata response set" % k, None))
    if mdkeys != mdk_expect:
        out.append(("metadata keys %r, expected %r" % (mdkeys, mdk_expect), mdf))
    return out


# --------------------------------------------------------------------------- shapes of what the implementation hands out
# An entry, a skip or a whole response of an unexpected shape is an OBSERVATION about the implementation: it is reported
# through the oracle and left out of what the accounting oracles then look at.  Nothing here raises.

ENTRY_FIELDS = (("component", str), ("type", str), ("details", dict), ("tags", (list, tuple)), ("links", dict))
ENTRY_HEADINGS = ("reports", "fingerprints", "rule", "fingerprint", "info", "pass", "none", "vcustom", "vnokey")


def entry_problem(x):
    """None when x has the shape of a result entry, otherwise what is wrong with it"""
    if not isinstance(x, dict):
        return "it is a %s, not a dict" % type(x).__name__
    for k, t in ENTRY_FIELDS:
        if k not in x:
            return "it has no %r" % k
        if not isinstance(x[k], t):
            return "its %r is a %s" % (k, type(x[k]).__name__)
    if "key" not in x:
        return "it has no 'key'"
    if not all(isinstance(t, str) for t in x["tags"]):
        return "its tags are not strings"
    ids = [k for k in x if isinstance(k, str) and k.endswith("_id") and k != "system_id"]
    if len(ids) != 1:
        return "it has %d '<type>_id' fields" % len(ids)
    return None


def clean_entries(label, heading, v, probs):
    if not isinstance(v, (list, tuple)):
        probs.append("%s: heading %r holds a %s instead of a list of entries: %r" % (label, heading, type(v).__name__, v))
        return []
    out = []
    for x in v:
        why = entry_problem(x)
        if why:
            probs.append("%s lists a malformed entry %r under heading %r (%s)" % (label, x, heading, why))
        else:
            out.append(x)
    return out


def clean_skips(label, v, probs):
    if not isinstance(v, (list, tuple)):
        probs.append("%s: 'skips' is a %s, not a list: %r" % (label, type(v).__name__, v))
        return []
    out = []
    for x in v:
        if isinstance(x, dict):
            out.append(x)
        else:
            probs.append("%s lists a malformed skip entry %r (a %s, not a dict)" % (label, x, type(x).__name__))
    return out


def sanitize_response(label, resp, mdkeys=None):
    """(response with only well-formed parts, [what was malformed]) for a get_response() value or a printed document"""
    probs = []
    if not isinstance(resp, dict):
        return {}, ["%s is a %s, not a dict: %r" % (label, type(resp).__name__, resp)]
    mdkeys = mdkeys if isinstance(mdkeys, dict) else {}
    clean = {}
    for h, v in resp.items():
        if h == "system":
            if not isinstance(v, dict):
                probs.append("%s: 'system' is a %s: %r" % (label, type(v).__name__, v))
                v = {}
            elif "metadata" in v and not isinstance(v["metadata"], dict):
                probs.append("%s: system.metadata is a %s: %r" % (label, type(v["metadata"]).__name__, v["metadata"]))
                v = {k: x for k, x in v.items() if k != "metadata"}
            clean[h] = v
        elif h == "skips":
            clean[h] = clean_skips(label, v, probs)
        elif h == "analysis_metadata":
            clean[h] = v
        elif h in mdkeys and v == mdkeys[h]:
            clean[h] = v                                  # a metadata key under its own name
        elif h in ENTRY_HEADINGS or (isinstance(v, (list, tuple)) and any(isinstance(x, dict) and "component" in x for x in v)):
            clean[h] = clean_entries(label, h, v, probs)
        else:
            clean[h] = v
    return clean, probs


def sanitize_results(label, results, probs):
    """the evaluator's / formatter's own `results` dict with only well-formed entries"""
    if not isinstance(results, dict):
        probs.append("%s.results is a %s, not a dict" % (label, type(results).__name__))
        return {}
    return {t: clean_entries(label + ".results", t, es, probs) for t, es in results.items()}


def as_dict(label, what, v, probs):
    if isinstance(v, dict):
        return dict(v)
    probs.append("%s: %s is a %s, not a dict: %r" % (label, what, type(v).__name__, v))
    return {}


def guarded(fails, label, fn, *a, **kw):
    """run one oracle; an exception inside it is itself reported (the harness must not crash on a changed implementation)"""
    try:
        return fn(*a, **kw)
    except Exception as ex:
        import traceback
        fails.append(("%s: the oracle could not examine what the implementation handed out (%s: %s; %s)"
                      % (label, type(ex).__name__, ex, traceback.format_exc().strip().splitlines()[-3].strip()), None))
        return []


HEADING_TYPE = {"reports": "rule", "fingerprints": "fingerprint"}
RESERVED_HEADINGS = ("system", "reports", "fingerprints", "skips", "analysis_metadata")


def results_from_response(resp):
    """the typed entries as get_response() presents them: {type: [entry]} by heading"""
    res = {}
    for h, v in (resp.items() if isinstance(resp, dict) else []):
        if h in ("system", "skips", "analysis_metadata"):
            continue
        if isinstance(v, list) and v and all(isinstance(x, dict) and "component" in x and "details" in x for x in v):
            res[HEADING_TYPE.get(h, h)] = v
    return res


def spec_show(f):
    """the types the user asked for, from the command-line options alone: -S wins; -F alone means fail only
    (documented: dropped when -m is given); otherwise everything but "none" """
    if f["show"]:
        return ["rule" if s == "fail" else s for s in f["show"]]
    if f["fail_only"] and not f["missing"]:
        return ["rule"]
    return []


def plain_entry(x):
    if not isinstance(x, dict):
        return {"malformed": repr(x)}
    return {k: (dict(v) if isinstance(v, dict) else v) for k, v in x.items() if k not in ("rendered_content", "system_id")}


def oracle_formatter(rs, unfiltered, shown, f, same_order=True):
    """unfiltered: SingleEvaluator.get_response() of the same rule set; shown: what the formatter printed;
    f: the options; same_order: both evaluations ran the rules in the same order (otherwise lists are compared
    as multisets and merged metadata, which depends on the order, is not compared)"""
    out = []
    norm = (lambda xs: xs) if same_order else (lambda xs: sorted(xs, key=J))
    missing, show = f["missing"], spec_show(f)
    counts = {"rule": unfiltered.get("reports"), "fingerprint": unfiltered.get("fingerprints")}
    for t in ("info", "pass", "none"):
        v = unfiltered.get(t)
        counts[t] = v if isinstance(v, list) and v and all(isinstance(x, dict) and "component" in x for x in v) else None
    for t, heading in SELECTABLE.items():
        asked = (t in show) if show else (t != "none")
        if t == "metadata":
            present = "metadata" in shown.get("system", {})
            if asked and not present:
                out.append("metadata asked for (show=%r) but hidden" % (show,))
            elif asked and same_order and dict(shown["system"]["metadata"]) != dict(unfiltered["system"]["metadata"]):
                out.append("metadata shown as %r, evaluator has %r" % (shown["system"]["metadata"], unfiltered["system"]["metadata"]))
            if not asked and present:
                out.append("metadata filtered (show=%r) but shown" % (show,))
            continue
        if not asked and heading in shown:
            out.append("type %r filtered (show=%r) but heading %r shown" % (t, show, heading))
        if asked and counts[t] is not None:
            got = shown.get(heading)
            if not isinstance(got, list) or norm([plain_entry(x) for x in got]) != norm([plain_entry(x) for x in counts[t]]):
                out.append("type %r asked for (show=%r) but heading %r is %r, evaluator has %r" % (t, show, heading, got, counts[t]))
    if missing and "skips" not in shown:
        out.append("-m given but skips hidden")
    elif missing and norm([dict(x) for x in shown["skips"]]) != norm([dict(x) for x in unfiltered["skips"]]):
        out.append("-m: skips shown as %r, evaluator has %r" % (shown["skips"], unfiltered["skips"]))
    if not missing and "skips" in shown:
        out.append("no -m but skips shown")
    return out


# --------------------------------------------------------------------------- generation of rule sets

EXC_KINDS = ["skip", "skip", "content", "calledProc", "crash", "crash", "timeout", "blacklisted"]
# (incremental, parallel) besides the serial default: sub-graph after sub-graph; sub-graphs on a real thread pool; the
# parallel flag on a serial evaluator
RUN_MODES = [(True, False), (True, True), (False, True)]
SHOW_CHOICES = ["fail", "info", "pass", "none", "metadata", "fingerprint"]


def gen_case(rng, quick, mode=None, islands=False, shared_names=True):
    """mode None: one rule set.  "disjoint" / "dependent": the rules are split into groups A and B for histories of
    several evaluations; a rule depends only on bases and on earlier rules of its own group (dependent: B rules
    may also depend on A rules).  islands: 2-6 DISJOINT sub-graphs — every base and rule belongs to one island and
    depends only on members of it; some rules have no dependency at all and are a sub-graph of their own."""
    n_islands = rng.randint(2, 6) if islands else 1
    nb = rng.randint(n_islands, n_islands + 3) if islands else rng.randint(1, 4)
    bases = []
    for i in range(nb):
        bases.append({"id": i, "how": rng.choice(["seed", "seed", "run", "run", "none", "none", "seednone", "raise", "skipraise"]),
                      "ctype": rng.choice(["component", "condition", "combiner"]),
                      "island": (i if i < n_islands else rng.randrange(n_islands)) if islands else 0})
    static = [b["id"] for b in bases if b["how"] in ("seed", "seednone", "raise", "skipraise")]
    none_valued = [b["id"] for b in bases if b["how"] in ("none", "seednone")]
    nr = rng.randint(n_islands if islands else 1, 10 if quick else 24)
    rules = []
    all_static, all_none_valued = static, none_valued
    # a limit shared by the case: small, so that payloads sit around it
    limit = rng.choice([65535, 65535, 65535, 65535, 420, 330, 260, 200, 150, 90])
    for j in range(nr):
        rid = nb + j
        lower = list(range(rid))
        group = None
        island = 0
        if islands:
            # every island gets a rule; one rule in five depends on nothing and is a sub-graph of its own
            island = j if j < n_islands else (None if rng.random() < 0.2 else rng.randrange(n_islands))
            lower = [] if island is None else ([x["id"] for x in bases if x["island"] == island]
                                               + [x["id"] for x in rules if x.get("island") == island])
            static = [x for x in all_static if x in lower]
            none_valued = [x for x in all_none_valued if x in lower]
        if mode:
            group = "A" if (j == 0 or rng.random() < 0.5) else "B"
            lower = list(range(nb)) + [x["id"] for x in rules
                                       if x["group"] == group or (mode == "dependent" and group == "B")]
        r = {"id": rid, "group": group, "island": island, "module": rng.choice(MODULES), "requires": [], "alo": [], "optional": [],
             "ignore": [],
             "enabled": rng.random() > 0.1,
             "tags": rng.choice([None, [], ["t1"], ["t1", "t2", "t1"], ["sec", "é"]]),
             "links": rng.choice([None, None, {}, {"kcs": ["https://a/1"]}, {"kcs": ["u1", "u2"], "jira": []}])}
        for _ in range(rng.choice([0, 1, 1, 2, 3]) if lower else 0):
            if rng.random() < 0.3:
                r["alo"].append([rng.choice(lower) for _ in range(rng.randint(1, 3))])
            else:
                r["requires"].append(rng.choice(lower))
        if lower and rng.random() < 0.3:
            r["optional"] = [rng.choice(lower) for _ in range(rng.randint(1, 2))]
        if none_valued and rng.random() < 0.45:
            # dependencies that are PRESENT with value None: required, optional, and at-least-one groups in which a
            # None-valued member comes first / last next to a valued, an absent or another None-valued one
            nv = rng.choice(none_valued)
            k = rng.randrange(4)
            if k == 0:
                r["requires"].append(nv)
            elif k == 1:
                r["optional"] = r["optional"] + [nv]
            else:
                other = rng.choice([x for x in lower if x < nb] or [nv])
                r["alo"].append([nv, other] if k == 2 else [other, nv])
        if rng.random() < 0.12:
            deps = r["requires"] + [d for g in r["alo"] for d in g] + r["optional"]
            pool = static + [d for d in deps]
            if pool:
                r["ignore"] = [rng.choice(pool)]
        x = rng.random()
        if x < 0.62:
            act = gen_ctor(rng, 0.7)
            if rng.random() < 0.35 and limit != 65535:
                act = pad_to_limit(rng, act, limit)
        elif x < 0.70:
            act = {"k": rng.choice(["none", "none", "mknone"])}
        elif x < 0.82:
            act = {"k": "other", "v": rng.choice(FALSY_OTHERS + FALSY_OTHERS + TRUTHY_OTHERS)}
        else:
            act = {"k": "raise", "e": rng.choice(EXC_KINDS), "n": rng.randint(1, 5)}
        if act["k"] in ("ret", "mknone", "none") and rng.random() < 0.55:
            # a CONTENT template for the rule: on the decorator or in the module, as a string / keyed by the response key
            # / keyed by key and class; it renders fine, hits an undefined name, or RAISES while rendering
            c = {"where": rng.choice(["kwarg", "kwarg", "module"]), "form": rng.choice(["str", "dict-key", "dict-key-class"]),
                 "template": rng.choice(["fine", "undefined", "raises-div", "raises-filter", "raises-div"])}
            r["content"] = c
            if act["k"] == "ret":
                have = [k for k, _ in act["kw"]]
                act = dict(act, kw=list(act["kw"]) + [kv for kv in TEMPLATE_KW.get(c["template"], []) if kv[0] not in have])
        r["act"] = act
        rules.append(r)
    fmts = []
    first_render = rng.random() < 0.5
    for kind, render in (("json", first_render), ("json", not first_render), ("yaml", rng.random() < 0.5)):
        show = [s for s in SHOW_CHOICES if rng.random() < 0.4] if rng.random() < 0.75 else []
        rng.shuffle(show)
        fmts.append({"kind": kind, "missing": rng.random() < 0.5, "fail_only": rng.random() < 0.2, "show": show,
                     "render": render})
    for r in rules:
        if rng.random() < 0.25:
            r["rtype"] = rng.choice(["audit", "audit2"])
    if shared_names and len(rules) >= 2 and rng.random() < 0.6:
        # 2-5 DISTINCT rules under one fully qualified name (one or two such names), next to uniquely named ones
        free = list(range(len(rules)))
        rng.shuffle(free)
        for label in ("A", "B")[:rng.choice([1, 1, 2])]:
            k = min(len(free), rng.randint(2, 5))
            if k < 2:
                break
            members, free = free[:k], free[k:]
            module = rules[members[0]]["module"]
            for j in members:
                rules[j]["alias"] = label
                rules[j]["module"] = module
    modes = {n: rng.choice(RUN_MODES) for n in ("InsightsEvaluator", "JsonFormat", "YamlFormat")}
    return {"limit": limit, "store_skips": rng.random() < 0.4, "bases": bases, "rules": rules, "fmts": fmts,
            "scenarios": UNIFORM_SCENARIOS + [gen_scenario(rng)], "modes": modes}


def gen_config(rng, case, default=None):
    ids = [r["id"] for r in case["rules"]] + [b["id"] for b in case["bases"]]
    rule_ids = [r["id"] for r in case["rules"]]
    entries = []
    for _ in range(rng.choice([1, 1, 2, 3])):
        e = {"target": rng.choice(rule_ids + rule_ids + ids),
             "kind": rng.choice(["exact", "exact", "exact", "prefix-name", "prefix-module"]),
             "enabled": rng.choice([False, False, False, True, None]),
             "tags": rng.choice([None, None, ["cfg"], ["cfg", "t9"], []]),
             "links": rng.choice([None, None, {"kcs": ["https://cfg/1"]}, {}])}
        entries.append(e)
    return {"default": (rng.random() < 0.9) if default is None else default, "entries": entries}


def gen_config_case(rng, quick):
    """apply_configs(c1); define the rules; apply_configs(c2) [; apply_configs(c3)]; evaluate"""
    case = gen_case(rng, quick, shared_names=False)      # the configuration glue addresses components by NAME
    case["config"] = {"before": gen_config(rng, case) if rng.random() < 0.8 else None,
                      "after": [gen_config(rng, case) for _ in range(rng.choice([1, 1, 2]))]}
    case["scenarios"] = [UNIFORM_SCENARIOS[rng.randrange(4)]]
    return case


def pad_to_limit(rng, act, limit):
    """grow a string payload so that the rendering lands within ±2 of the limit"""
    if act["k"] not in ("ret", "md"):
        return act
    try:
        cls, key, kw = ctor_args(act)
        kw = [list(p) for p in kw if p[0] != "pad"]
        base = len(str(full_dict(cls, key, kw + [["pad", ""]])))
    except Exception:
        return act
    target = limit + rng.choice([-2, -1, 0, 1, 2])
    if target < base:
        return act
    act = dict(act)
    act["kw"] = kw + [["pad", "p" * (target - base)]]
    return act


# --------------------------------------------------------------------------- running one rule set

def parse_args(kind, f):
    p = argparse.ArgumentParser()
    p.add_argument("-p", "--plugins", default="")
    Adapter = JsonFormatterAdapter if kind == "json" else YamlFormatterAdapter
    Adapter.configure(p)
    argv = []
    if f["missing"]:
        argv.append("-m")
    if f["fail_only"]:
        argv.append("-F")
    if f.get("render"):
        argv.append("-r")
    if f["show"]:
        argv += ["-S"] + list(f["show"])
    return Adapter(p.parse_args(argv))


def evaluate(rs, chk=None):
    """run the case through every evaluator; returns (lines, impl answers, oracle findings)"""
    case = rs.case
    limit = case["limit"]
    lines = rs.decl_lines()
    impl = ["ok"] * len(lines)
    kinds = ["decl"] * len(lines)
    fails = []
    unfiltered = None
    order0 = None
    # every component's dr.is_enabled is what the latest configuration (or dr.set_enabled) says
    for i, c in rs.comps.items():
        if bool(dr.is_enabled(c)) != bool(rs.eff[i]["enabled"]):
            fails.append(("dr.is_enabled(%s) is %r, the configuration history says %r"
                          % (rs.names[i], dr.is_enabled(c), rs.eff[i]["enabled"]), None))
    try:
        return _evaluate(rs, case, limit, lines, impl, kinds, fails, unfiltered, order0)
    finally:
        if rs.configured:
            restore_enabled()


def account(rs, fails, label, view, results, mdkeys, exc_ids, b, limit, order, md_drop=(), **kw):
    """the accounting oracle on one sanitised view (a get_response() value or a printed document)"""
    md = as_dict(label, "system.metadata", (view.get("system") or {}).get("metadata", {}), [])
    for k in md_drop:
        md.pop(k, None)
    for desc, finding in guarded(fails, label, oracle_ruleset, rs, results, list(view.get("skips", [])),
                                 exc_ids, md, mdkeys, b, limit, order, **kw):
        fails.append((label + ": " + desc, finding))


def spec_subgraphs(rs):
    """number of connected sub-graphs of the rule set's graph (dependencies among its own keys), spec side"""
    parent = {i: i for i in rs.comps}

    def find(x):
        while parent[x] != x:
            parent[x] = parent[parent[x]]
            x = parent[x]
        return x
    for i, c in rs.comps.items():
        for d in dr.get_delegate(c).dependencies:
            j = rs.ids.get(d)
            if j is not None:
                parent[find(i)] = find(j)
    return len(set(find(i) for i in rs.comps))


def unordered_accounting(rs, label, resp, ref):
    """the same entries under the same headings and the same skips as the serial run, as multisets (a different run
    mode evaluates in a different order)"""
    out = []
    a, r0 = results_from_response(resp), results_from_response(ref)
    ca = {t: sorted(J(plain_entry(x)) for x in es) for t, es in a.items()}
    c0 = {t: sorted(J(plain_entry(x)) for x in es) for t, es in r0.items()}
    if ca != c0:
        out.append("%s lists %r, the serial run lists %r" % (
            label, {t: sorted(str(x.get("component")) for x in es) for t, es in a.items()},
            {t: sorted(str(x.get("component")) for x in es) for t, es in r0.items()}))
    sa = sorted(J(cdict(x)) for x in resp.get("skips", []))
    s0 = sorted(J(cdict(x)) for x in ref.get("skips", []))
    if sa != s0:
        out.append("%s has skips %r, the serial run %r" % (label, resp.get("skips"), ref.get("skips")))
    ka = set((resp.get("system") or {}).get("metadata", {}))
    k0 = set((ref.get("system") or {}).get("metadata", {}))
    if ka != k0:
        out.append("%s has metadata keys %r, the serial run %r" % (label, sorted(ka), sorted(k0)))
    return out


RACE_FIX = "c9df167"


def run_mode(rs, fails, cls_name, inc, par, graph, reference, ref_excs, lines=None, impl=None, kinds=None):
    """run_mode_once.  The pooled mode (incremental on the evaluator's thread pool) evaluates on several threads; before
    the fix c9df167 Evaluator.observer iterated broker.instances while other threads inserted into it, the RuntimeError
    was swallowed by Broker.fire_observers and the outcome of the observed component was lost (timing dependent).  The
    observer now walks a snapshot: a pooled run whose accounting differs from the serial run is a violation, in any run."""
    return run_mode_once(rs, fails, cls_name, inc, par, graph, reference, ref_excs, lines, impl, kinds)


def observe_race(rs, tries):
    """regression of c9df167 (parallel-observer-race): `tries` pooled evaluations of the default group graph; none may
    make Broker.fire_observers log a RuntimeError 'changed size during iteration' raised inside Evaluator.observer
    (before the fix about 3% of such runs did).  Returns (runs made, what was logged)"""
    seen = []

    class Catch(logging.Handler):
        def emit(self, rec):
            if isinstance(rec.msg, RuntimeError) and "changed size during iteration" in str(rec.msg):
                seen.append(str(rec.msg))
    log = logging.getLogger("insights.core.dr")
    h = Catch()
    old_level, old_disable = log.level, logging.root.manager.disable
    logging.disable(logging.NOTSET)
    log.addHandler(h)
    log.setLevel(logging.ERROR)
    propagate, log.propagate = log.propagate, False
    n = 0
    try:
        for n in range(1, tries + 1):
            ev = SingleEvaluator(rs.broker(), stream=io.StringIO(), incremental=True)
            ev.process(None, parallel=True)
            if seen:
                break
    finally:
        log.removeHandler(h)
        log.setLevel(old_level)
        log.propagate = propagate
        logging.disable(old_disable)
    return n, seen[:1]


def run_mode_once(rs, fails, cls_name, inc, par, graph, reference, ref_excs, lines=None, impl=None, kinds=None):
    """one evaluator / formatter in one run mode on `graph` (None = the default group graph): the accounting oracle,
    the comparison with the serial run, and (SingleEvaluator, incremental, not parallel) the model"""
    case = rs.case
    limit = case["limit"]
    label = "%s(incremental=%s).process(%s, parallel=%s)" % (cls_name, inc, "graph" if graph is not None else "None", par)
    b = rs.broker()
    buf = io.StringIO()
    try:
        if cls_name in ("JsonFormat", "YamlFormat"):
            e = make_evaluator(cls_name, b, buf)
            e.incremental = inc            # the formatters do not take the flag in their constructor
        else:
            e = EVALUATORS[cls_name](b, stream=buf, incremental=inc)
        raw = e.process(graph, parallel=par)
    except Exception as ex:
        fails.append(("%s raised %s: %s" % (label, type(ex).__name__, ex), None))
        return None
    probs = []
    mdkeys = as_dict(label, "metadata_keys", e.metadata_keys, probs)
    resp, p2 = sanitize_response(label + ", get_response()", raw, mdkeys)
    probs += p2
    views = [("get_response", resp)]
    if cls_name in ("JsonFormat", "YamlFormat"):
        try:
            shown = json.loads(buf.getvalue()) if cls_name == "JsonFormat" else yaml.unsafe_load(buf.getvalue())
            if not isinstance(shown, dict):
                raise ValueError("printed %r" % buf.getvalue()[:80])
            shown, p3 = sanitize_response(label + ", the printed document", shown, mdkeys)
            probs += p3
            views.append(("printed", shown))
        except Exception as ex:
            fails.append(("%s: the printed output cannot be read back: %s" % (label, ex), None))
    for d in probs:
        fails.append((d, None))
    st = rs.canon_state(e, b)
    exc_ids = set(int(i) for i in st["excs"])
    order = [i for i in b.vorder if i in set(rs.rule_ids)]
    for vname, v in views:
        account(rs, fails, "%s, %s" % (label, vname), v, results_from_response(v), mdkeys, exc_ids, b, limit, order,
                ordered=not par, identity=(vname == "get_response"))
        if reference is not None:
            for desc in guarded(fails, label, unordered_accounting, rs, "%s, %s" % (label, vname), v, reference):
                fails.append((desc, None))
    if ref_excs is not None and exc_ids != ref_excs:
        fails.append(("%s records exceptions against rules %r, the serial run against %r"
                      % (label, sorted(exc_ids), sorted(ref_excs)), None))
    counts = {}
    for i in order:
        counts[i] = counts.get(i, 0) + 1
    never = [rs.names[i] for i in rs.rule_ids if not counts.get(i)]
    if never:
        fails.append(("%s never reached %d of the %d rules of the graph (a sub-graph was left out): %s"
                      % (label, len(never), len(rs.rule_ids), ", ".join(never[:6])), None))
    rs.stats["mode:%s inc=%d par=%d" % (cls_name, inc, par)] = rs.stats.get("mode:%s inc=%d par=%d" % (cls_name, inc, par), 0) + 1
    if lines is not None and cls_name == "SingleEvaluator" and inc and not par and graph is not None:
        # the model: register, then the sub-graphs one after the other = one run over the concatenated order
        lines += ["hnew", "hreg\t0", "hrun\t" + (",".join("%d:1" % i for i in order) or "-"), "hstate"]
        impl += ["ok", "ok", "ok", st]
        kinds += ["decl", "decl", "decl", "state:incremental"]
    return resp, exc_ids


def _evaluate(rs, case, limit, lines, impl, kinds, fails, unfiltered, order0):
    serial_excs = []
    with Limit(limit):
        runs = [(SingleEvaluator, None)] + [(InsightsEvaluator, sc) for sc in case.get("scenarios", UNIFORM_SCENARIOS[:1])]
        for E, sc in runs:
            name = E.__name__ if sc is None else "InsightsEvaluator[%s]" % ",".join("%s=%s" % kv for kv in sorted(sc.items()))
            b = rs.broker()
            graph = rs.graph
            if sc is not None:
                seed_decoration(b, sc)
                graph = deco_graph(rs, sc)
            try:
                ev = E(b, stream=io.StringIO())
                raw = ev.process(graph)
            except Exception as ex:
                fails.append(("%s.process raised %s: %s" % (name, type(ex).__name__, ex), None))
                continue
            probs = []
            mdkeys = as_dict(name, "metadata_keys", ev.metadata_keys, probs)
            resp, p2 = sanitize_response(name + ".get_response()", raw, mdkeys)
            for d in probs + p2:
                fails.append((d, None))
            if E is SingleEvaluator:
                unfiltered = resp
                order0 = list(b.vorder)
                for r in case["rules"]:         # evidence: what rendering this rule's content does
                    comp = rs.comps[r["id"]]
                    if r.get("content") and comp in b:
                        try:
                            text = render_rule_content(comp, b[comp])
                            tag = "undefined-fallback" if "Failed to render the Content" in text else "rendered"
                        except Exception as ex:
                            tag = "raises-" + type(ex).__name__
                        k = "template:%s/%s/%s -> %s" % (r["content"]["where"], r["content"]["form"], r["content"]["template"], tag)
                        rs.stats[k] = rs.stats.get(k, 0) + 1
            st = rs.canon_state(ev, b)
            if sc is None:
                lines.append(rs.run_line(b.vorder))
                impl.append(st)
                kinds.append("state:" + E.__name__)
            else:
                lines.append(irun_line(rs, sc, b.vorder))
                impl.append({"state": st, "deco": {"system_id": cv(ev.system_id), "release": cv(ev.release),
                                                   "branch": bool(ev.branch_info)}})
                kinds.append("istate:" + E.__name__)
            exc_ids = set(int(i) for i in st["excs"])
            if E is SingleEvaluator:
                serial_excs.append(exc_ids)
            # the oracle looks at what get_response() hands out (and broker.exceptions), not at the evaluator's fields;
            # decoration: format_response puts the release into the metadata
            account(rs, fails, name + ".get_response", resp, results_from_response(resp), mdkeys, exc_ids, b, limit, b.vorder,
                    md_drop=("release",) if (sc is not None and ev.release) else (), identity=True)
            for k, v in mdkeys.items():
                if k not in RESERVED_HEADINGS and k not in (ev.results if isinstance(ev.results, dict) else {}) and resp.get(k) != v:
                    fails.append(("%s.get_response: metadata key %r is %r in the response, expected %r" % (name, k, resp.get(k), v), None))
            if sc is not None and b.vorder == order0 and unfiltered is not None:
                for desc in guarded(fails, name, same_accounting, rs, name, resp, unfiltered, ev.release):
                    fails.append((desc, None))
            # get_response: headings
            lines.append("resp\t1\t%s" % ",".join(enc(s) for s in ["rule", "info", "pass", "none", "metadata", "fingerprint"]))
            impl.append(canon_report(rs, raw))
            kinds.append("report:" + E.__name__)
        # ---- run modes: every class incrementally / with a pool, against the serial run's accounting
        k = spec_subgraphs(rs)
        rs.stats["subgraphs:%s" % (k if k < 7 else "7+")] = 1
        ref_excs = None
        if serial_excs:
            ref_excs = serial_excs[0]
        for cls_name, modes in [("SingleEvaluator", RUN_MODES)] + [
                (n, [tuple(m)]) for n, m in sorted(case.get("modes", {"InsightsEvaluator": (True, False)}).items())]:
            for inc, par in modes:
                run_mode(rs, fails, cls_name, inc, par, rs.graph, unfiltered, ref_excs, lines, impl, kinds)
        for f in case["fmts"]:
            opts = "%s formatter (options %s%s%s%s)" % (f["kind"], "-m " if f["missing"] else "", "-F " if f["fail_only"] else "",
                                                       "-r " if f.get("render") else "",
                                                       "-S " + " ".join(f["show"]) if f["show"] else "")
            adapter = parse_args(f["kind"], f)
            k = "options:%s%s%s%s%s" % (f["kind"], " -m" if f["missing"] else "", " -F" if f["fail_only"] else "",
                                        " -r" if f.get("render") else "", " -S" if f["show"] else "")
            rs.stats[k] = rs.stats.get(k, 0) + 1
            b = rs.broker()
            buf = io.StringIO()
            raised = None
            # the whole public path for both formats: adapter built from the parsed options, preprocess / run /
            # postprocess.  The formatter writes to the stream it was constructed with (sys.stdout by default): it
            # is redirected only if it is a stream at all, so a mis-bound argument is not papered over.
            try:
                adapter.preprocess(b)
                fmt = adapter.formatter
                if hasattr(fmt.stream, "write"):
                    fmt.stream = buf
                dr.run(rs.graph, broker=b)
            except Exception as ex:
                fails.append(("%s raised %s before printing: %s" % (opts, type(ex).__name__, ex), None))
                continue
            shown_raw = None
            try:
                adapter.postprocess(b)
                shown_raw = json.loads(buf.getvalue()) if f["kind"] == "json" else yaml.unsafe_load(buf.getvalue())
                if not isinstance(shown_raw, dict):
                    raise ValueError("formatter printed %r" % (buf.getvalue()[:80],))
            except Exception as e:
                raised = e
            if raised is not None:
                shown_raw = {"!formatter raised": type(raised).__name__}
                fails.append(("%s raised %s: %s" % (opts, type(raised).__name__, raised), None))
            probs = []
            mdkeys = as_dict(opts, "metadata_keys", fmt.metadata_keys, probs)
            shown, p2 = sanitize_response(opts + ", the printed document", shown_raw, mdkeys)
            own = sanitize_results(type(fmt).__name__ + " " + opts, fmt.results, probs)
            own_skips = clean_skips(type(fmt).__name__ + " " + opts, fmt.rule_skips, probs)
            for d in probs + p2:
                fails.append((d, None))
            st = rs.canon_state(fmt, b)
            lines.append(rs.run_line(b.vorder))
            impl.append(st)
            kinds.append("state:" + type(fmt).__name__)
            lines.append("adapter\t%d\t%d\t%s" % (f["missing"], f["fail_only"], ",".join(enc(s) for s in f["show"]) or "-"))
            impl.append([senc(s) for s in (adapter.show_rules if isinstance(adapter.show_rules, (list, tuple)) else [adapter.show_rules])])
            kinds.append("adapter")
            lines.append("resp\t%d\t%s" % (bool(adapter.missing), ",".join(senc(s) for s in adapter.show_rules) or "-")
                         if isinstance(adapter.show_rules, (list, tuple)) and all(isinstance(x, str) for x in adapter.show_rules)
                         else "resp\t0\t-")
            impl.append(canon_report(rs, shown_raw))
            kinds.append("report:" + f["kind"])
            exc_ids = set(int(i) for i in st["excs"])
            # accounting on what the formatter PRINTED (for the types that were not filtered out)
            if raised is None and unfiltered is not None:
                for desc in guarded(fails, opts, oracle_formatter, rs, unfiltered, shown, f, same_order=(b.vorder == order0)):
                    fails.append(("%s: %s" % (opts, desc), None))
            # the formatter's own bookkeeping (JsonFormat has its own handle_result)
            account(rs, fails, type(fmt).__name__ + " " + opts, {"skips": own_skips, "system": {"metadata": fmt.metadata}},
                    own, mdkeys, exc_ids, b, limit, b.vorder, identity=True)
        # ---- the text formatter: after a run line of the serial SingleEvaluator order so that the model's state is that run
        if order0 is not None and case.get("text") is not False:
            lines.append(rs.run_line(order0))
            impl.append(None)
            kinds.append("rerun")
            guarded(fails, "text formatter", run_text, rs, case.get("text") or text_options(case), fails, lines, impl, kinds)
    return lines, impl, kinds, fails


# --------------------------------------------------------------------------- the text formatter

ANSI = re.compile("\x1b\\[[0-9;]*m")


def text_options(case):
    """the text formatter's options of a rule set, a function of the case (the generator's random stream is left alone)"""
    h = zlib.crc32(J(case).encode("utf-8"))
    show = [x for i, x in enumerate(SHOW_CHOICES) if (h >> (4 + i)) & 1] if (h >> 2) & 1 else []
    raising = any((r.get("content") or {}).get("template", "").startswith("raises") for r in case["rules"])
    return {"kind": "text", "missing": bool(h & 1), "fail_only": bool((h >> 1) & 1), "show": show,
            "no_details": bool((h >> 10) & 1) or raising}


def parse_text_args(f):
    p = argparse.ArgumentParser()
    p.add_argument("-p", "--plugins", default="")
    text_format.HumanReadableFormatAdapter.configure(p)
    argv = (["-m"] if f["missing"] else []) + (["-F"] if f["fail_only"] else []) + (["--no-details"] if f["no_details"] else [])
    if f["show"]:
        argv += ["-S"] + list(f["show"])
    with contextlib.redirect_stderr(io.StringIO()):          # "Options conflict: -m and -F, drops -F"
        return text_format.HumanReadableFormatAdapter(p.parse_args(argv))


def typed_value(b, c):
    """the type of the response a component has in the broker, None if it has none"""
    if c in b:
        v = b[c]
        t = v.get("type") if isinstance(v, dict) else None
        return t if isinstance(t, str) else None
    return None


def run_text(rs, f, fails, lines, impl, kinds):
    """HumanReadableFormat through its adapter on a fresh broker; the oracle reads the broker of this very run:
    every plain rule in it is counted once under its own type in the summary and printed once under its label iff the
    options select its type; recorded exceptions of rules and conditions are counted"""
    opts = "text formatter (options %s%s%s%s)" % ("-m " if f["missing"] else "", "-F " if f["fail_only"] else "",
                                                  "--no-details " if f["no_details"] else "",
                                                  "-S " + " ".join(f["show"]) if f["show"] else "")
    k = "options:text%s%s%s%s" % (" -m" if f["missing"] else "", " -F" if f["fail_only"] else "",
                                  " --no-details" if f["no_details"] else "", " -S" if f["show"] else "")
    rs.stats[k] = rs.stats.get(k, 0) + 1
    b = rs.broker()
    buf = io.StringIO()
    try:
        adapter = parse_text_args(f)
        adapter.preprocess(b)
        fmt = adapter.formatter
        if hasattr(fmt.stream, "write"):
            fmt.stream = buf
        # a second formatter on the same broker (as `insights-run -f text -s` has): both must account every rule
        ev2 = SingleEvaluator(b, stream=io.StringIO())
        ev2.preprocess()
        dr.run(rs.graph, broker=b)
    except Exception as ex:
        fails.append(("%s raised %s before printing: %s" % (opts, type(ex).__name__, ex), None))
        return
    st2 = rs.canon_state(ev2, b)
    lines.append(rs.run_line(b.vorder))
    impl.append(st2)
    kinds.append("state:co-registered")
    rs.stats["text:with a SingleEvaluator on the same broker"] = rs.stats.get("text:with a SingleEvaluator on the same broker", 0) + 1
    raised = None
    try:
        adapter.postprocess(b)
    except Exception as ex:
        raised = ex
    if not (isinstance(adapter.show_rules, (list, tuple)) and all(isinstance(x, str) for x in adapter.show_rules)):
        fails.append(("%s: the adapter selects %r" % (opts, adapter.show_rules), None))
        return
    plain = [i for i in rs.rule_ids if dr.get_component_type(rs.comps[i]) is plugins.rule]
    # the option glue of the text adapter is the evaluator adapters' (model: adapterShow)
    lines.append("adapter\t%d\t%d\t%s" % (f["missing"], f["fail_only"], ",".join(enc(x) for x in f["show"]) or "-"))
    impl.append([senc(x) for x in adapter.show_rules])
    kinds.append("adapter")
    if list(adapter.show_rules) != spec_show(f) or bool(adapter.missing) != bool(f["missing"]):
        fails.append(("%s: the adapter selects %r / missing=%r, the options say %r / %r" % (
            opts, adapter.show_rules, adapter.missing, spec_show(f), f["missing"]), None))
    answer = text_verdict(rs, f, opts, b, buf.getvalue(), raised, getattr(fmt, "responses", None), fails)
    if answer is not None:
        lines.append("text\t%d\t%s\t%s" % (f["missing"], ",".join(senc(x) for x in adapter.show_rules) or "-",
                                            ",".join(str(i) for i in plain) or "-"))
        kinds.append("text")
        impl.append(answer)


def text_verdict(rs, f, opts, b, out, raised, table, fails):
    """the oracle on what the text formatter printed for the broker `b`; returns the canonical answer compared with
    the model (None if the output could not be examined at all)"""
    out = ANSI.sub("", out)
    if not (isinstance(table, dict) and all(isinstance(t, str) and isinstance(getattr(v, "label", None), str)
                                            and isinstance(getattr(v, "title", None), str) for t, v in table.items())):
        fails.append(("%s: the table of labels is %r" % (opts, table), None))
        return None
    show = spec_show(f)
    # the rules show_description walks: broker.get_by_type(rule) is the PLAIN rule type (derived types are not walked)
    plain = [i for i in rs.rule_ids if dr.get_component_type(rs.comps[i]) is plugins.rule]
    rows = [(i, typed_value(b, rs.comps[i])) for i in plain]
    rows = [(i, t) for i, t in rows if t is not None]
    selected = [(i, t) for i, t in rows if (f["missing"] and t == "skip") or (show and t in show)
                or (not show and t not in ("skip", "none"))]
    unlabelled = [t for i, t in selected if t not in table]
    if raised is not None:
        if isinstance(raised, KeyError) and unlabelled:
            # a selected rule of a response type without a label: printit looks the label up (text.py, existing behaviour)
            rs.stats["text:unlabelled type selected -> KeyError"] = rs.stats.get("text:unlabelled type selected -> KeyError", 0) + 1
        else:
            fails.append(("%s raised %s: %s" % (opts, type(raised).__name__, raised), None))
        return {"raised": type(raised).__name__}
    # what was printed
    printed = re.findall(r"^\[([A-Z][A-Z ]*)\] (\S+.*)$", out, re.M)
    summary = {}
    tail = out.split("Rule Execution Summary")[-1] if "Rule Execution Summary" in out else ""
    for t, v in table.items():
        m = re.search(r"^" + re.escape(v.title) + r"(\d+)\s*$", tail, re.M)
        summary[t] = int(m.group(1)) if m else None
    rs.stats["text:summaries"] = rs.stats.get("text:summaries", 0) + 1
    want_printed = sorted((table[t].label, rs.names[i]) for i, t in selected)
    if sorted(printed) != want_printed:
        fails.append(("%s: printed %r, the broker holds %r so that %r is expected" % (
            opts, sorted(printed), [(rs.names[i], t) for i, t in rows], want_printed), None))
    for t in table:
        if t == "exception":
            want = 0
            for i, c in rs.comps.items():
                ct = dr.get_component_type(c)
                if isinstance(ct, type) and issubclass(ct, (plugins.rule, plugins.condition)) and typed_value(b, c) is None:
                    want += len(b.exceptions.get(c, ())) if c in b.exceptions else 0
        else:
            want = len([1 for i, tt in rows if tt == t])
        if summary.get(t) != want:
            fails.append(("%s: the summary counts %r for %r, the broker holds %d (%r)" % (
                opts, summary.get(t), t, want, [(rs.names[i], tt) for i, tt in rows]), None))
    return {"counts": {senc(t): summary.get(t) for t in table if t != "exception"},
            "printed": sorted([i, senc(t)] for i, t in selected)}


def compare_answers(rs, kinds, impl, model):
    """per line: None if equal else (kind, impl, model)"""
    out = []
    for k, a, m in zip(kinds, impl, model):
        if k == "decl":
            ok = (m == "ok")
            mm = m
        else:
            try:
                mm = json.loads(m)
            except ValueError:
                out.append((k, a, m))
                continue
            if k.startswith("istate"):
                mm = {"state": soften_state(canon_model_state(mm["state"]), a["state"]), "deco": mm["deco"]}
            elif k.startswith("state"):
                mm = soften_state(canon_model_state(mm), a)
            elif k.startswith("report"):
                mm = canon_model_report(mm)
            elif k == "text":
                mm = ({"raised": "KeyError"} if mm.get("printed") is None else
                      {"counts": {t: n for t, n in mm["counts"]}, "printed": sorted(mm["printed"])})
            if k == "rerun":                       # only re-establishes the model's state; compared elsewhere
                out.append(None if isinstance(mm, dict) else (k, a, mm))
                continue
            ok = J(mm) == J(a)
        out.append(None if ok else (k, a, mm))
    return out


def final_tags(model_state_line):
    try:
        return [t for _, t in json.loads(model_state_line)["finals"]]
    except Exception:
        return []


# --------------------------------------------------------------------------- decoration providers of InsightsEvaluator

class FakeContent(object):
    """a lazily loaded provider as InsightsEvaluator.observer sees it: `.content` is read on demand and may raise"""

    def __init__(self, mode, lines):
        self.mode, self.lines, self.reads = mode, lines, 0

    @property
    def content(self):
        self.reads += 1
        if self.mode == "raises" or (self.mode == "raises-once" and self.reads == 1):
            raise ContentException("content is gone")
        return list(self.lines)


class FakeBranch(object):
    def __init__(self, mode):
        self.mode, self.reads = mode, 0

    @property
    def data(self):
        self.reads += 1
        if self.mode == "raises" or (self.mode == "raises-once" and self.reads == 1):
            raise ContentException("branch_info is gone")
        return {} if self.mode == "empty" else {"remote_branch": "b-1", "remote_leaf": "l-1"}


DECO_MODES = ["absent", "fine", "raises", "empty"]
UNIFORM_SCENARIOS = [{"machine_id": m, "release": m, "branch": m, "metadata_json": m} for m in DECO_MODES]
MACHINE_LINES = ["  dc194312-8cdd-4e75-8cf1-2094bf666f45 \n", "second line"]
RELEASE_LINES = ["Red Hat Enterprise Linux release 8.9 (Ootpa)\n"]


def gen_scenario(rng, release_modes=None):
    """a mix of provider states; at most ONE provider raises on its first read only (every evaluation has at least two
    observer calls, so it ends like a fine one — with two such providers the second might never be read)"""
    sc = {"machine_id": rng.choice(DECO_MODES), "release": rng.choice(release_modes or DECO_MODES),
          "branch": rng.choice(DECO_MODES), "metadata_json": rng.choice(DECO_MODES)}
    if rng.random() < 0.5:
        sc[rng.choice(["machine_id", "branch"] if release_modes else ["machine_id", "release", "branch"])] = "raises-once"
    return sc


def seed_decoration(b, sc):
    """put the decoration specs into the broker the way the scenario says"""
    if sc["machine_id"] != "absent":
        b[Specs.machine_id] = FakeContent(sc["machine_id"], [] if sc["machine_id"] == "empty" else MACHINE_LINES)
    if sc["release"] != "absent":
        b[Specs.redhat_release] = FakeContent(sc["release"], [] if sc["release"] == "empty" else RELEASE_LINES)
    if sc["branch"] != "absent":
        b[BranchInfo] = FakeBranch(sc["branch"])
    if sc["metadata_json"] != "absent":
        # fine: a dict; empty: an empty dict; raises: something without .get
        b[Specs.metadata_json] = {"fine": {"product_code": "rhel", "role": "host"}, "empty": {}, "raises": object()}[sc["metadata_json"]]


def deco_graph(rs, sc):
    g = dict(rs.graph)
    if sc["metadata_json"] != "absent":
        g[Specs.metadata_json] = set()       # fired as a component of the run order: `comp is Specs.metadata_json`
    return g


def prov_field(mode, lines):
    """protocol form of a content provider; raise-on-first-read ends like a fine one (there are >= 2 observer calls)"""
    if mode == "absent":
        return "a"
    if mode == "raises":
        return "x"
    if mode == "empty":
        return "c"
    return "c" + ";".join(enc(l) for l in lines)


def irun_line(rs, sc, order):
    br = {"absent": "a", "raises": "x", "empty": "d0"}.get(sc["branch"], "d1")
    ids = set(rs.rule_ids)
    return "irun\t%s\t%s\t%s\t%s" % (prov_field(sc["machine_id"], MACHINE_LINES), prov_field(sc["release"], RELEASE_LINES), br,
                                      ",".join(str(i) for i in order if i in ids) or "-")


def same_accounting(rs, name, resp, ref, release):
    """InsightsEvaluator must account exactly like SingleEvaluator on the same rule set, whatever happened to the
    decoration: same entries under the same headings, same skips, same metadata (but for the release it adds), same
    metadata keys"""
    out = []
    a, r0 = results_from_response(resp), results_from_response(ref)
    if {t: [plain_entry(x) for x in es] for t, es in a.items()} != {t: [plain_entry(x) for x in es] for t, es in r0.items()}:
        out.append("%s lists %r, SingleEvaluator lists %r" % (
            name, {t: [x.get("component") for x in es] for t, es in a.items()},
            {t: [x.get("component") for x in es] for t, es in r0.items()}))
    if [dict(x) for x in resp.get("skips", [])] != [dict(x) for x in ref.get("skips", [])]:
        out.append("%s has skips %r, SingleEvaluator %r" % (name, resp.get("skips"), ref.get("skips")))
    md = dict(resp.get("system", {}).get("metadata", {}))
    md0 = dict(ref.get("system", {}).get("metadata", {}))
    if release:
        md.pop("release", None)
        md0.pop("release", None)
    if md != md0:
        out.append("%s has metadata %r, SingleEvaluator %r" % (name, md, md0))
    return out


# --------------------------------------------------------------------------- histories of one evaluator object

HISTORY_KINDS = ["seq-disjoint", "seq-dependent", "seq-overlap", "seq-same", "with-process", "with-with-run",
                 "with-run", "pre-process", "multi-add", "process-with-run"]
EVALUATORS = {"SingleEvaluator": SingleEvaluator, "InsightsEvaluator": InsightsEvaluator,
              "JsonFormat": JsonFormat, "YamlFormat": YamlFormat}
ALL_TYPES = ["rule", "info", "pass", "none", "metadata", "fingerprint"]


def make_evaluator(name, b, buf):
    E = EVALUATORS[name]
    if name in ("JsonFormat", "YamlFormat"):
        return E(b, missing=True, show_rules=list(ALL_TYPES), stream=buf)
    return E(b, stream=buf)


def run_history_ops(kind, e, gA, gB, gAll, process, drrun, reg):
    if kind in ("seq-disjoint", "seq-dependent"):
        process(gA)
        process(gB)
    elif kind == "seq-overlap":
        process(gA)
        process(gAll)
    elif kind == "seq-same":
        process(gAll)
        process(gAll)
    elif kind == "with-process":
        reg()
        with e as ee:
            process(gAll)
            assert ee is e
    elif kind == "with-with-run":
        reg()
        with e:
            reg()
            with e:
                drrun(gAll)
    elif kind == "with-run":
        reg()
        with e:
            drrun(gAll)
    elif kind == "pre-process":
        reg()
        e.preprocess()
        process(gAll)
    elif kind == "multi-add":
        for _ in range(2):
            reg()
            e.broker.add_observer(e.observer)
        process(gAll)
    elif kind == "process-with-run":
        process(gA)
        reg()
        with e:
            drrun(gB)
    else:
        raise ValueError(kind)


def run_history(rs, ev_name, kind):
    """one evaluator object used the way `kind` says.  Returns (lines, impl answers, kinds, oracle findings)."""
    case = rs.case
    limit = case["limit"]
    rule_ids = set(rs.rule_ids)
    groups = {g: [r["id"] for r in case["rules"] if r.get("group") == g] for g in ("A", "B")}
    base_ids = [x["id"] for x in case["bases"]]

    def graph(ids):
        return {rs.comps[i]: set(dr.get_delegate(rs.comps[i]).dependencies) for i in base_ids + list(ids)}
    gA, gB, gAll = graph(groups["A"]), graph(groups["B"]), graph(rs.rule_ids)
    lines = rs.decl_lines() + ["hnew"]
    runs = []
    fails = []
    with Limit(limit):
        b = rs.broker()
        if ev_name == "InsightsEvaluator" and rs.case.get("history_scenario"):
            seed_decoration(b, rs.case["history_scenario"])
        buf = io.StringIO()
        e = make_evaluator(ev_name, b, buf)
        marks = []
        _post = e.postprocess

        def post():                      # harness-side: remember where each printed document starts
            marks.append(buf.tell())
            _post()
        e.postprocess = post

        def reg():
            lines.append("hreg\t0")

        def ran(g, start):
            keys = set(rs.ids[c] for c in g)
            fired = [i for i in b.vorder[start:] if i in rule_ids]
            lines.append("hrun\t" + (",".join("%d:%d" % (i, i in keys) for i in fired) or "-"))
            runs.append((keys & rule_ids, fired))

        def process(g):
            reg()
            start = len(b.vorder)
            e.process(g)
            ran(g, start)

        def drrun(g):
            start = len(b.vorder)
            dr.run(g, broker=e.broker)
            ran(g, start)

        try:
            run_history_ops(kind, e, gA, gB, gAll, process, drrun, reg)
        except Exception as ex:
            fails.append(("%s history %s raised %s: %s" % (ev_name, kind, type(ex).__name__, ex), None))

        try:
            raw = e.get_response()
        except Exception as ex:
            fails.append(("%s history %s: get_response() raised %s: %s" % (ev_name, kind, type(ex).__name__, ex), None))
            raw = {}
        st = rs.canon_state(e, b)
    lines.append("hstate")
    impl = ["ok"] * (len(lines) - 1) + [st]
    kinds = ["decl"] * (len(lines) - 1) + ["state:history"]
    participants = set()
    order = []
    for keys, fired in runs:
        participants |= keys
        order += [i for i in fired if i in keys and i not in order]      # first evaluation of each rule
    exc_ids = set(int(i) for i in st["excs"])
    label = "%s history %s" % (ev_name, kind)
    probs = []
    mdkeys = as_dict(label, "metadata_keys", e.metadata_keys, probs)
    resp, p2 = sanitize_response(label + ", get_response()", raw, mdkeys)
    probs += p2
    views = [("get_response", resp)]
    if ev_name in ("JsonFormat", "YamlFormat"):
        text = buf.getvalue()[marks[-1]:] if marks else buf.getvalue()
        try:
            if ev_name == "JsonFormat":
                shown = json.loads(text)
            else:
                shown = yaml.unsafe_load(text)
            if not isinstance(shown, dict):
                raise ValueError("printed %r" % text[:80])
            shown, p3 = sanitize_response(label + ", the printed document", shown, mdkeys)
            probs += p3
            views.append(("printed", shown))
        except Exception as ex:
            fails.append(("%s: the printed output cannot be read back: %s" % (label, ex), None))
    for d in probs:
        fails.append((d, None))
    for vname, v in views:
        account(rs, fails, "%s, %s" % (label, vname), v, results_from_response(v), mdkeys, exc_ids, b, limit, order,
                participants=participants, identity=(vname == "get_response"))
    return lines, impl, kinds, fails


def gen_history(rng, quick):
    kind = rng.choice(HISTORY_KINDS)
    mode = "dependent" if kind == "seq-dependent" or rng.random() < 0.25 else "disjoint"
    case = gen_case(rng, quick, mode=mode)
    case["fmts"] = []
    case["history_scenario"] = dict(gen_scenario(rng, release_modes=["absent", "raises", "empty"]), metadata_json="absent")
    return {"kind": "history", "case": case, "history": kind,
            "evaluator": rng.choice(["SingleEvaluator", "InsightsEvaluator", "JsonFormat", "YamlFormat"])}


def nonresponse_case():
    """every kind of return value that is neither None nor a Response, all dependencies met, plus a None"""
    rules = []
    for j, v in enumerate(sorted(OTHER_VALUES)):
        rules.append({"id": 1 + j, "group": "A", "module": MODULES[j % len(MODULES)], "requires": [0], "alo": [], "optional": [],
                      "ignore": [], "enabled": True, "tags": None, "links": None, "act": {"k": "other", "v": v}})
    rules.append({"id": 1 + len(rules), "group": "A", "module": MODULES[0], "requires": [0], "alo": [], "optional": [], "ignore": [],
                  "enabled": True, "tags": None, "links": None, "act": {"k": "none"}})
    return {"limit": 65535, "store_skips": False, "bases": [{"id": 0, "how": "seed"}], "rules": rules,
            "fmts": [{"kind": "json", "missing": True, "fail_only": False, "show": list(SHOW_CHOICES)},
                     {"kind": "yaml", "missing": True, "fail_only": False, "show": []}]}


RERUN_WITNESS = {
    "kind": "history", "history": "seq-same", "evaluator": "SingleEvaluator",
    "case": {"limit": 65535, "store_skips": False, "bases": [{"id": 0, "how": "seed"}],
             "rules": [{"id": 1, "group": "A", "module": MODULES[0], "requires": [0], "alo": [], "optional": [], "ignore": [],
                        "enabled": True, "tags": None, "links": None,
                        "act": {"k": "ret", "cls": "make_fail", "key": "K1", "kw": []}}], "fmts": []},
}


# --------------------------------------------------------------------------- graph=None: the default group graph, in a child

def default_graph_child():
    """runs in a fresh interpreter (the default group graph is every component loaded in the process): one rule set,
    every evaluator class, serial / incremental / incremental on a pool, all with graph=None"""
    case = json.load(sys.stdin)
    fails = []
    stats = {}
    try:
        # a fresh interpreter: nothing has registered a plain @rule yet, so the order in which the case's rules are
        # defined IS the registration order of the rule types (derived first / plain first / only derived)
        stats["load-order:%s" % case.get("load_order", "as-generated")] = 1
        stats["load-order:plain rules registered before the case"] = len(dr.COMPONENTS_BY_TYPE.get(plugins.rule, ()))
        rs = RuleSet(case)
        with Limit(case["limit"]):
            for cls_name in sorted(EVALUATORS):
                for inc in (False, True):          # the case's own graph
                    run_mode(rs, fails, cls_name, inc, False, rs.graph, None, None)
                ref = run_mode(rs, fails, cls_name, False, False, None, None, None)
                for inc, par in RUN_MODES:
                    run_mode(rs, fails, cls_name, inc, par, None, ref[0] if ref else None, ref[1] if ref else None)
        stats.update(rs.stats)
        for r in case["rules"]:
            k = "load-order:%s rules of type %s" % (case.get("load_order", "as-generated"), r.get("rtype", "rule"))
            stats[k] = stats.get(k, 0) + 1
        if case.get("race_tries"):
            n, seen = observe_race(rs, case["race_tries"])
            stats["race:pooled runs of the default graph"] = n
            stats["race:observed"] = seen
            if seen:
                fails.append(("regression of %s: in pooled run %d of the default graph (SingleEvaluator(incremental=True)"
                              ".process(None, parallel=True)) an observer raised RuntimeError %r, which fire_observers swallows: "
                              "the outcome of the component being observed is not accounted" % (RACE_FIX, n, seen[0]), None))
        stats["default-graph:components"] = len(dr.COMPONENTS[dr.GROUPS.single])
        stats["default-graph:subgraphs"] = len(list(dr.get_subgraphs(dr.COMPONENTS[dr.GROUPS.single])))
    except Exception as ex:
        import traceback
        fails.append(("the default-graph run raised %s: %s (%s)" % (type(ex).__name__, ex,
                                                                    traceback.format_exc().strip().splitlines()[-3].strip()), None))
    sys.stdout.write("\n@@C12CHILD@@" + json.dumps({"fails": fails, "stats": stats}, default=repr) + "\n")


def spawn_default_graph(case):
    import subprocess
    from harness.common import VERIF
    code = ("import sys; sys.path[:0] = [%r, %r]; sys.dont_write_bytecode = True; "
            "from harness import c12; c12.default_graph_child()" % (VERIF, REPO))
    p = subprocess.Popen([sys.executable, "-c", code], stdin=subprocess.PIPE, stdout=subprocess.PIPE, stderr=subprocess.STDOUT)
    p.stdin.write(json.dumps(case).encode("utf-8"))
    p.stdin.close()
    return p


def collect_default_graph(p, timeout=300):
    try:
        out = p.stdout.read().decode("utf-8", "replace")
        p.wait(timeout=timeout)
    except Exception as ex:
        return {"fails": [["the default-graph child did not finish: %s" % ex, None]], "stats": {}}
    for line in out.splitlines():
        if line.startswith("@@C12CHILD@@"):
            return json.loads(line[len("@@C12CHILD@@"):])
    return {"fails": [["the default-graph child printed no result (exit %s): %s" % (p.returncode, out[-600:]), None]], "stats": {}}


# --------------------------------------------------------------------------- the command line entry point

CLI_FORMATS = ["json", "yaml", "_json", "_yaml", "insights.formats._json", "insights.formats._yaml", "text",
               "insights.formats.text"]


def cli_case(case):
    """insights.run makes its own broker: nothing can be seeded, so seeded bases become components that run; no IGNORE entries"""
    c = json.loads(json.dumps(case))
    for b in c["bases"]:
        b["how"] = {"seed": "run", "seednone": "none"}.get(b["how"], b["how"])
    # an IGNORE entry is not a dependency: whether it bites depends on the order the engine picks among unrelated
    # components, which differs between the graph run() builds (and --parallel) and the reference evaluation
    for r in c["rules"]:
        r["ignore"] = []
    c["fmts"] = []
    return c


BARE_SPECS = ["hostname", "redhat_release", "uname"]


def add_spec_bases(rng, c):
    """three registry points as bases and rules that depend on them: required (alone / together with another), in an
    at-least-one group, optional — so that `-b hostname=...` satisfies some rules and leaves others skipped"""
    first = max([b["id"] for b in c["bases"]] + [r["id"] for r in c["rules"]]) + 1
    ids = {}
    for i, sp in enumerate(BARE_SPECS):
        ids[sp] = first + i
        c["bases"].append({"id": first + i, "how": "spec", "spec": sp, "ctype": "spec"})
    shapes = [("requires", ["hostname"]), ("requires", ["hostname", "uname"]), ("alo", ["uname", "redhat_release"]),
              ("requires", ["redhat_release"]), ("optional", ["hostname"]), ("alo", ["uname", "hostname"]),
              ("requires", ["uname"])]
    rules = list(c["rules"])
    rng.shuffle(rules)
    for k, r in enumerate(rules):
        if k >= 2 and rng.random() < 0.35:
            continue
        where, names = shapes[k] if k < 2 else rng.choice(shapes)
        if where == "alo":
            r["alo"] = list(r["alo"]) + [[ids[n] for n in names]]
        else:
            r[where] = list(r[where]) + [ids[n] for n in names]
    return c


def gen_cli_runs(rng, case, n):
    runs = []
    raising = any((r.get("content") or {}).get("template", "").startswith("raises") for r in case["rules"])
    for i in range(n):
        fmt = CLI_FORMATS[i % len(CLI_FORMATS)] if i < len(CLI_FORMATS) else rng.choice(CLI_FORMATS)
        text = fmt.endswith("text")
        show = rng.sample(SHOW_CHOICES, rng.randint(1, 4)) if rng.random() < 0.5 else []
        # where the broker and the input come from: the host (a fresh broker), `-b spec=file[,spec=file]` (run() makes a
        # second broker and seeds it), a directory, or a broker of the caller's handed to _run with the formatter hooked on
        kinds = ["bare", "host", "bare", "dir", "given", "bare"]
        inp = kinds[(i + i // len(CLI_FORMATS)) % len(kinds)] if i < 2 * len(CLI_FORMATS) else rng.choice(kinds)
        bare = rng.choice([["hostname"], ["hostname", "redhat_release"], ["redhat_release"],
                           ["hostname", "redhat_release", "uname"], ["uname", "hostname"]]) if inp == "bare" else []
        if inp == "given" and "." in fmt:
            fmt = "text" if text else ("yaml" if "yaml" in fmt else "json")
        runs.append({"fmt": fmt, "missing": rng.random() < 0.6, "fail_only": rng.random() < 0.3, "show": show,
                     "render": (not text) and rng.random() < 0.3, "parallel": inp != "bare" and rng.random() < 0.25,
                     "no_details": text and (raising or rng.random() < 0.5), "syslog": False, "input": inp, "bare": bare})
    return runs


def cli_argv(case, f, tmp=None):
    argv = ["insights-run", "--no-load-default", "-f", f["fmt"]]
    if f.get("input") == "bare":
        argv += ["-b", ",".join("%s=%s" % (sp, os.path.join(tmp or "TMP", "bare_" + sp)) for sp in f["bare"])]
    if f.get("input") == "dir":
        argv.insert(1, os.path.join(tmp or "TMP", "root"))
    argv += (["-m"] if f["missing"] else []) + (["-F"] if f["fail_only"] else []) + (["-r"] if f.get("render") else [])
    argv += (["--no-details"] if f.get("no_details") else []) + (["--show-skips"] if case["store_skips"] else [])
    argv += (["--parallel"] if f.get("parallel") else [])
    if f["show"]:
        argv += ["-S"] + list(f["show"])
    return argv


def broker_view(rs, b):
    """per component: the type of the response in the broker (None: absent or no response) and the kinds of the
    exceptions recorded against it"""
    out = {}
    for i, c in sorted(rs.comps.items()):
        excs = list(b.exceptions.get(c, ())) if c in b.exceptions else []
        out[rs.names[i] + "#%d" % i] = [typed_value(b, c), c in b, sorted(exc_kind(e) for e in excs)]
    return out


def cli_child():
    """runs in a fresh interpreter whose sys.stdout was replaced by a buffer BEFORE insights was imported (the
    formatters bind sys.stdout as their default stream at import): `insights.run(component=..., print_summary=True)`
    with sys.argv set, i.e. what `insights-run -f FORMAT [-m] [-F] [-r] [-S ...] [--show-skips] [--parallel]` does
    after it has loaded the plugins; what it prints and the broker it returns are held to a SingleEvaluator run of the
    same components on a broker made by hand"""
    data = json.load(sys.stdin)
    case = data["case"]
    buf, real = sys.stdout, sys.__stdout__
    fails, stats = [], {}
    try:
        import shutil
        import tempfile
        from insights.core.context import ExecutionContext
        from insights.core.spec_factory import TextFileProvider
        rs = RuleSet(case)
        comps = [rs.comps[i] for i in sorted(rs.comps)]
        tmp = tempfile.mkdtemp(prefix="vc12cli")
        for sp in BARE_SPECS:
            with open(os.path.join(tmp, "bare_" + sp), "w") as fh:
                fh.write("value of %s\n" % sp)
        os.makedirs(os.path.join(tmp, "root", "insights_commands"))       # marks a HostArchiveContext
        with open(os.path.join(tmp, "root", "insights_commands", "date"), "w") as fh:
            fh.write("Tue Sep 29 00:00:00 UTC 2026\n")
        spec_ids = {b_["spec"]: b_["id"] for b_ in case["bases"] if b_["how"] == "spec"}
        refs = {}

        def reference(f):
            """the evaluator API on a broker made by hand with the same seeded values: (response, metadata keys,
            broker view, broker).  `-b` makes run() use a second broker, which does not get --show-skips (existing
            behaviour: store_skips stays False there)"""
            key = (f.get("input") == "bare", tuple(sorted(f.get("bare") or ())))
            if key not in refs:
                b0 = rs.broker()
                if key[0]:
                    b0.store_skips = False
                    ctx = ExecutionContext()
                    b0[ExecutionContext] = ctx
                    for sp in key[1]:
                        c_ = rs.comps[spec_ids[sp]]
                        b0[c_] = TextFileProvider(relative_path=os.path.join(tmp, "bare_" + sp), root="/", ds=c_, ctx=ctx)
                ev0 = SingleEvaluator(b0, stream=io.StringIO())
                raw0 = ev0.process(rs.graph)
                mdk = as_dict("reference SingleEvaluator", "metadata_keys", ev0.metadata_keys, [])
                ref0, p0 = sanitize_response("reference SingleEvaluator", raw0, mdk)
                for d in p0:
                    fails.append((d, None))
                refs[key] = (ref0, mdk, broker_view(rs, b0), b0)
            return refs[key]
        with Limit(case["limit"]):
            table = None
            for f in data["runs"]:
                ref, ref_mdkeys, ref_view, b0 = reference(f)
                argv = cli_argv(case, f, tmp)
                label = " ".join(cli_argv(case, f)) + (" [caller's broker handed to _run]" if f.get("input") == "given" else "")
                k = "cli:-f %s" % f["fmt"]
                stats[k] = stats.get(k, 0) + 1
                k = "cli:input %s%s" % (f.get("input", "host"), " " + "+".join(f["bare"]) if f.get("bare") else "")
                stats[k] = stats.get(k, 0) + 1
                for o in ("missing", "fail_only", "render", "parallel", "no_details"):
                    if f.get(o):
                        stats["cli:option " + o] = stats.get("cli:option " + o, 0) + 1
                for sink in (buf, _TEXT_SINK):     # (the text module was imported with stdout pointing at _TEXT_SINK)
                    if hasattr(sink, "truncate"):
                        sink.seek(0)
                        sink.truncate(0)
                old_argv, sys.argv = sys.argv, argv
                raised, broker = None, None
                try:
                    with contextlib.redirect_stderr(io.StringIO()):
                        if f.get("input") == "given":
                            # what run() does around _run, on a broker of the caller's: the formatter is hooked on the
                            # broker it is given, the components are evaluated on that broker, then it prints
                            given = rs.broker()
                            adapter = parse_text_args(f) if f["fmt"].endswith("text") else \
                                parse_args("yaml" if "yaml" in f["fmt"] else "json", f)
                            adapter.preprocess(given)
                            broker = insights._run(given, dict(rs.graph), None, parallel=bool(f.get("parallel")))
                            adapter.postprocess(broker)
                        else:
                            broker = insights.run(component=list(comps), print_summary=True)
                except BaseException as ex:      # argparse leaves with SystemExit
                    raised = ex
                finally:
                    sys.argv = old_argv
                text = f["fmt"].endswith("text")
                out = (_TEXT_SINK if text else buf).getvalue() if hasattr(buf, "getvalue") else ""
                if text:
                    if table is None:
                        t0 = text_format.HumanReadableFormat(dr.Broker(), stream=io.StringIO())
                        t0.preprocess()
                        table = getattr(t0, "responses", None)
                    if broker is None and raised is None:
                        fails.append(("%s returned no broker" % label, None))
                        continue
                    # a KeyError for a selected rule of an unlabelled type leaves run() without a broker: judge by the reference
                    probe = broker if isinstance(broker, dr.Broker) else b0
                    text_verdict(rs, f, label, probe, out, raised, table, fails)
                else:
                    if raised is not None:
                        fails.append(("%s raised %s: %s" % (label, type(raised).__name__, raised), None))
                        continue
                    try:
                        shown_raw = yaml.unsafe_load(out) if "yaml" in f["fmt"] else json.loads(out)
                        if not isinstance(shown_raw, dict):
                            raise ValueError("printed %r" % out[:80])
                    except Exception as ex:
                        fails.append(("%s: the printed output cannot be read back (%s): %r" % (label, ex, out[:200]), None))
                        continue
                    # a metadata key may be named like a heading (covered in-process); here it is taken as printed
                    own_keys = {k: shown_raw[k] for k in ref_mdkeys if k in shown_raw and not (
                        isinstance(shown_raw[k], list) and shown_raw[k]
                        and all(isinstance(x, dict) and "component" in x for x in shown_raw[k]))}
                    shown, p2 = sanitize_response(label + ", the printed document", shown_raw, own_keys)
                    for d in p2:
                        fails.append((d, None))
                    for desc in guarded(fails, label, oracle_formatter, rs, ref, shown, f, same_order=False):
                        fails.append(("%s: %s" % (label, desc), None))
                if not isinstance(broker, dr.Broker):
                    if raised is None:
                        fails.append(("%s returned %r, not a broker" % (label, broker), None))
                    continue
                view = broker_view(rs, broker)
                if view != ref_view:
                    diff = {n: (view[n], ref_view[n]) for n in view if view[n] != ref_view[n]}
                    fails.append(("%s: the broker it returns differs from an evaluation of the same components with "
                                  "store_skips=%r: (type, present, exceptions) %r" % (label, case["store_skips"], diff), None))
                stats["cli:runs"] = stats.get("cli:runs", 0) + 1
        stats.update({k: v for k, v in rs.stats.items() if k.startswith("text:")})
        shutil.rmtree(tmp, ignore_errors=True)
    except Exception as ex:
        import traceback
        fails.append(("the command line run raised %s: %s (%s)" % (type(ex).__name__, ex,
                                                                   traceback.format_exc().strip().splitlines()[-3].strip()), None))
    real.write("\n@@C12CHILD@@" + json.dumps({"fails": fails, "stats": stats}, default=repr) + "\n")
    real.flush()


def spawn_cli(case, runs):
    import subprocess
    from harness.common import VERIF
    code = ("import sys, io; sys.stdout = io.StringIO(); sys.path[:0] = [%r, %r]; sys.dont_write_bytecode = True; "
            "from harness import c12; c12.cli_child()" % (VERIF, REPO))
    p = subprocess.Popen([sys.executable, "-c", code], stdin=subprocess.PIPE, stdout=subprocess.PIPE, stderr=subprocess.STDOUT)
    p.stdin.write(json.dumps({"case": case, "runs": runs}).encode("utf-8"))
    p.stdin.close()
    return p


# --------------------------------------------------------------------------- known finding witness

WITNESS_CASE = {
    "limit": 60, "store_skips": False,
    "bases": [{"id": 0, "how": "skipraise"}],
    "rules": [{"id": 1, "module": MODULES[0], "requires": [0], "alo": [], "optional": [], "ignore": [], "enabled": True,
               "tags": None, "links": None, "act": {"k": "ret", "cls": "make_fail", "key": "K1", "kw": []}}],
    "fmts": [],
}


def witness_skip_stub():
    """limit 60, one rule whose only dependency is absent: the skip entry is the anonymous stub"""
    rs = RuleSet(WITNESS_CASE)
    with Limit(WITNESS_CASE["limit"]):
        b = rs.broker()
        ev = SingleEvaluator(b, stream=io.StringIO())
        resp = ev.process(rs.graph)
    skips = resp["skips"]
    return (len(skips) == 1 and "rule_fqdn" not in skips[0] and "details" not in skips[0]
            and "max_detail_length_error" in skips[0]), [dict(s) for s in skips]


YAML_REGRESSION_CASE = {
    "limit": 65535, "store_skips": False,
    "bases": [{"id": 0, "how": "seed"}],
    "rules": [{"id": 1, "module": MODULES[0], "requires": [0], "alo": [], "optional": [], "ignore": [], "enabled": True,
               "tags": None, "links": None, "act": {"k": "ret", "cls": "make_fail", "key": "K1", "kw": []}},
              {"id": 2, "module": MODULES[0], "requires": [0], "alo": [], "optional": [], "ignore": [], "enabled": True,
               "tags": None, "links": None, "act": {"k": "ret", "cls": "make_pass", "key": "K2", "kw": []}}],
    "fmts": [{"kind": "yaml", "missing": False, "fail_only": False, "show": ["pass"]}],
}


def regression_yaml_adapter():
    """fixed 4daf5f3 — `insights-run -f yaml -S pass`: the adapter used to hand (broker, missing, render_content,
    show_rules) to YamlFormat(broker, missing, show_rules, stream): -S was lost and the stream was a list.
    Now: the formatter gets the selection, prints, and prints exactly the pass entry.  Returns (problems, info)."""
    rs = RuleSet(YAML_REGRESSION_CASE)
    adapter = parse_args("yaml", YAML_REGRESSION_CASE["fmts"][0])
    b = rs.broker()
    adapter.preprocess(b)
    fmt = adapter.formatter
    problems = []
    info = {"formatter.show_rules": repr(fmt.show_rules), "adapter.show_rules": adapter.show_rules,
            "stream": type(fmt.stream).__name__}
    if fmt.show_rules != adapter.show_rules:
        problems.append("the -S selection %r reached the formatter as %r" % (adapter.show_rules, fmt.show_rules))
    buf = io.StringIO()
    if hasattr(fmt.stream, "write"):
        fmt.stream = buf
    else:
        problems.append("the formatter's stream is a %s" % type(fmt.stream).__name__)
    dr.run(rs.graph, broker=b)
    try:
        adapter.postprocess(b)
        shown = yaml.unsafe_load(buf.getvalue())
        info["headings"] = sorted(shown) if isinstance(shown, dict) else repr(shown)
        if not isinstance(shown, dict):
            problems.append("nothing was printed")
        else:
            if [e.get("key") for e in shown.get("pass", [])] != ["K2"]:
                problems.append("pass asked for, printed %r" % (shown.get("pass"),))
            if "reports" in shown:
                problems.append("fail not asked for but 'reports' printed")
    except Exception as e:
        info["postprocess"] = type(e).__name__
        problems.append("postprocess raised %s: %s" % (type(e).__name__, e))
    return problems, info


# --------------------------------------------------------------------------- run

def run(chk):
    rng = chk.rng
    quick = chk.tier == "quick"
    n_repr = 1500 if quick else 40000
    n_mk = 4000 if quick else 150000
    n_sets = 600 if quick else 12000
    n_hist = 300 if quick else 6000
    n_conf = 120 if quick else 1500
    chk.rule = ("rule sets: 1-4 base components (seeded / run / raising / skipping) and 1-10 (thorough: 24) fresh @rule functions in four fake "
                "modules, two of which share their simple name, with required / at-least-one / optional dependencies on bases and on "
                "earlier rules, IGNORE entries, 10% disabled, shared keys K1/K2, every return kind (the five keyed make_* classes, "
                "make_metadata, make_metadata_key incl. keys colliding with headings, make_none, None, five kinds of non-response, "
                "SkipComponent / ContentException / CalledProcessError / TimeoutException / BlacklistedSpec / crash, five custom "
                "Response subclasses: keyed, keyless, response_type unset, a second 'pass' class, a keyed 'metadata' class), keys "
                "None/''/0/5/True/False/[]/['a']/str, reserved keyword names, limit 60..300 or the default with payloads padded to "
                "limit-2..limit+2, skip recording on/off; each set is evaluated by SingleEvaluator, InsightsEvaluator and by "
                "JsonFormat / YamlFormat built by the real adapters from -m/-F/-S options. constructor stream: the same "
                "constructor generator with a limit steered to length-1/length/length+1. non-trivial = a rule set whose outcome "
                "vector (per-rule classification) was not seen before and has at least two different outcome classes; for "
                "constructors a distinct (class, key, kwargs, limit) that is either rejected or stubbed or accepted with kwargs")
    chk.rule += ("; histories: the same generator with the rules split into two groups (B may depend on A), one evaluator "
                 "object (SingleEvaluator / InsightsEvaluator / JsonFormat / YamlFormat) used as: two process() calls on disjoint, "
                 "dependent, overlapping or identical graphs; with e: e.process(); nested with + dr.run; with e: dr.run; preprocess() "
                 "then process(); add_observer of the bound method twice then process(); process() then with e: dr.run — the first "
                 "40 cases enumerate kind x evaluator; non-response returns: False, 0, 0.0, '', b'', [], {}, (), set(), frozenset(), "
                 "True, 1, 'x', [1], {'a':1}, object(), a class, a look-alike dict (one fixed case with all of them + random)")
    chk.rule += ("; base components are plain components, conditions or combiners that are seeded, run, raise, skip, or are "
                 "PRESENT WITH VALUE None (returning None / seeded None), used as required, optional and at-least-one "
                 "dependencies (None-valued member first or last next to a valued / absent / None-valued one); every rule set "
                 "is evaluated by InsightsEvaluator five times with Specs.machine_id / Specs.redhat_release / BranchInfo / "
                 "Specs.metadata_json absent, fine, raising on every read, empty, and one random mix incl. raise-on-first-read")
    chk.rule += ("; rules carry CONTENT templates (content= on the decorator or CONTENT in the module; a string, a dict keyed by "
                 "the response key, or by key and class) that render fine, hit an undefined name, or raise while rendering "
                 "(division by zero, a filter on the wrong type); every rule set is printed by JsonFormat with and without -r "
                 "and by YamlFormat, each with random -m / -F / -S (the option combinations and the template outcomes are "
                 "counted in input_distribution as options:* and template:*); the first 120 (thorough 1500) generated rule sets "
                 "are configuration histories: apply_default_enabled + apply_configs(c1) before the rules are defined, then "
                 "dr.set_enabled, then one or two more configurations with exact-name, name-prefix and module-prefix entries "
                 "carrying enabled / tags / links (config:* counts)")
    chk.rule += ("; run modes: every rule set is also evaluated with incremental=True (sub-graph after sub-graph), with "
                 "incremental=True on the evaluator's own thread pool, and with parallel=True on a serial evaluator — all three "
                 "for SingleEvaluator, one random mode each for InsightsEvaluator / JsonFormat / YamlFormat — and must account "
                 "like the serial run; 55% of the plain rule sets consist of 2-6 disjoint islands plus dependency-free rules "
                 "(subgraphs:* counts); graph=None (the default group graph) is evaluated in fresh child interpreters, every "
                 "class in every mode (default-graph * counts)")
    chk.rule += ("; 60% of the rule sets (never the configuration histories, which address components by name) hold one or two "
                 "groups of 2-5 DISTINCT rules under ONE fully qualified name (module.make_rule_N.<locals>.reportX, as a "
                 "factory's closures have) with different keys / types / dependency situations, next to uniquely named rules; "
                 "outcomes are counted per rule OBJECT (shared-name:* counts)")
    chk.rule += ("; a quarter of the rules are of component types DERIVED from rule (audit_rule(rule), audit_rule2(audit_rule) "
                 "with content_type / links of its own); in the fresh child interpreters — where importing insights has "
                 "registered no plain rule — the rule types are registered derived-first, plain-first or only-derived "
                 "(load-order:* counts) and every class evaluates the case's own graph serially and incrementally as well as "
                 "graph=None")
    chk.rule += ("; round 10: every rule set is also printed by the text formatter built by HumanReadableFormatAdapter from "
                 "-m / -F / -S / --no-details options that are a function of the case (options:text* counts; details are "
                 "rendered only when no template of the set raises), compared with the model's walk over the broker; 5 "
                 "(thorough 40) rule sets without seeded components go through insights.run(component=..., print_summary=True) "
                 "with sys.argv set, 9 (16) option sets each over -f json / yaml / _json / _yaml / insights.formats._json / "
                 "._yaml / text / insights.formats.text, -m, -F, -r, -S, --show-skips, --parallel, --no-details, in child "
                 "interpreters whose stdout is replaced before insights is imported (cli:* counts); 1500 (40000) constructor "
                 "calls with floats incl. nan / inf, bytes, tuples, sets, nested dicts and lists, values json cannot serialise, "
                 "lone surrogates, non-BMP text, str-subclass and non-str keys, limit steered to length-1 / length / length+1 or "
                 "settings untouched with the payload padded to 65534 / 65535 / 65536 (mk-wide:* counts)")
    chk.assumptions = [
        "the text formatter walks broker.get_by_type(rule), the exact rule type: the model is asked about plain rules only; its rendering of details is outside the model",
        "the body of a rule is a fixed action (it does not look at its arguments); argument binding is C02's subject",
        "repr() of str is modelled for ASCII exactly and takes code points >= 0xa1 other than U+00AD as printable; values inside responses are None/bool/int/str/list of str",
        "a rule body raising MissingRequirements / BaseException, a rule already present in a seeded broker, and custom Response subclasses with response_type 'metadata_key' are outside the model",
        "hostname / system_id / analysis_metadata / rendered_content parts of the response are not compared (not part of the property)",
        "the engine's run order is taken from the implementation (observer firing order) and handed to the model: order correctness is C01's subject",
    ]

    # ---- 0. regenerate the class table from the live classes
    try:
        from translate import responses as tr
        changed = tr.write_if_changed(tr.generate(REPO))
        chk.extra["translator"] = {"generated": "lean/IV/Gen/Responses.lean", "rewrote_generated_file": changed}
    except Exception as e:
        chk.tie_broken("translator", "%s: %s" % (type(e).__name__, e), None)

    # ---- 1. theorems
    chk.lean()

    # ---- known finding: witness replay
    try:
        ok, skips = witness_skip_stub()
    except Exception as ex:
        ok, skips = False, "witness raised %s: %s" % (type(ex).__name__, ex)
    chk.witnesses.append({"id": KNOWN_SKIP_STUB, "skips": skips, "reproduces": ok})
    if ok:
        chk.finding_reproduced(KNOWN_SKIP_STUB)
    # ---- regression (fixed 4daf5f3): the YAML adapter path prints and honours -S
    try:
        problems, info = regression_yaml_adapter()
    except Exception as ex:
        problems, info = ["the regression run raised %s: %s" % (type(ex).__name__, ex)], {}
    chk.witnesses.append({"fixed": "4daf5f3 yaml adapter arguments", "observed": info, "passes": not problems})
    if problems:
        chk.failure("insights-run -f yaml -S pass (YamlFormatterAdapter): " + "; ".join(problems),
                    {"kind": "yaml-adapter"})

    # ---- graph=None (the default group graph): children, started now and collected at the end
    n_child = 6 if quick else 36
    child_cases = []
    for i in range(n_child):
        c = dict(gen_case(rng, quick, islands=True), fmts=[])
        # registration order of the rule types in the fresh interpreter (rules are defined in id order)
        order_kind = ["derived-first", "plain-first", "only-derived"][i % 3]
        n = len(c["rules"])
        k = max(1, n // 2)
        for j, r in enumerate(c["rules"]):
            derived = rng.choice(["audit", "audit2"])
            if order_kind == "only-derived":
                r["rtype"] = derived
            elif order_kind == "derived-first":
                r["rtype"] = derived if j < k else "rule"
            else:
                r["rtype"] = "rule" if j < k else derived
        c["load_order"] = order_kind
        if i == 0:
            c["race_tries"] = 150 if quick else 1000
        child_cases.append(c)
    children = []
    for i, c in enumerate(child_cases):
        if i < 6:
            children.append((c, spawn_default_graph(c)))

    # ---- the command line entry point: children, collected at the end (generated from a generator of their own so that
    # the cases of the other streams stay what they were)
    import random
    rng_cli = random.Random("C12-cli/%s" % getattr(chk, "seed", 0))
    n_cli = 5 if quick else 40
    cli_cases = []
    for i in range(n_cli):
        c = add_spec_bases(rng_cli, cli_case(gen_case(rng_cli, quick, islands=rng_cli.random() < 0.5)))
        cli_cases.append((c, gen_cli_runs(rng_cli, c, 12 if quick else 24)))
    cli_children = [(c, runs, spawn_cli(c, runs)) for c, runs in cli_cases[:5]]

    # ---- 2. str(dict) rendering
    cases, lines, impl = [], [], []
    for _ in range(n_repr):
        d = []
        for _ in range(rng.randint(0, 4)):
            k = rng.choice(KW_NAMES + [gen_str(rng, 4)])
            if k not in [x[0] for x in d]:
                d.append([k, gen_val(rng)])
        cases.append(d)
        lines.append("reprlen\t" + pdict(d))
        impl.append(str(len(str(dict(d)))))
        chk.case(("repr", J(d)), bool(d))
    model = run_driver("C12", lines)
    chk.compare("repr", cases, impl, model)

    # ---- 3. constructors
    cases, lines, impl = [], cls_lines(), []
    n_cls = len(lines)
    seen = set()
    for _ in range(n_mk):
        act = gen_ctor(rng, 0.55)
        limit = steer_limit(rng, act)
        if rng.random() < 0.3:
            act = pad_to_limit(rng, act, limit) if limit < 5000 else act
        out = run_ctor(act, limit)
        cls, key, kw = ctor_args(act)
        cases.append({"kind": "mk", "act": act, "limit": limit})
        lines.append("mk\t%d\t%s\t%s\t%s" % (limit, enc(cls.__name__), pv(key), pdict(kw)))
        impl.append({"ok": cdict(out[1])} if out[0] == "ok" else {"err": out[1]} if out[0] == "err" else {"exc": out[1]})
        bad = oracle_mk(act, limit, out)
        tag = "err:" + out[1] if out[0] != "ok" else ("stub" if "max_detail_length_error" in out[1] and "max_detail_length_error" not in dict(kw) else "full")
        chk.count("mk:" + tag)
        chk.count("mk-class:" + cls.__name__)
        key_c = J(cases[-1])
        chk.case(("mk", key_c), key_c not in seen and (tag != "full" or bool(kw)))
        seen.add(key_c)
        if bad:
            chk.failure(bad, cases[-1])
    model = run_driver("C12", lines)[n_cls:]
    mm = []
    for a, m in zip(impl, model):
        try:
            j = json.loads(m)
        except ValueError:
            mm.append(m)
            continue
        if "err" in a and a["err"] == "?" and "err" in j:
            j["err"] = "?"
        mm.append(J(j))
    chk.compare("constructors", cases, [J(a) for a in impl], mm)
    chk.sample({"constructor": cases[7], "impl": impl[7]})

    # ---- 3b. constructors on values of every shape (oracle only: the model's values are None/bool/int/str/list of str)
    rng_wide = random.Random("C12-wide/%s" % getattr(chk, "seed", 0))
    for _ in range(1500 if quick else 40000):
        c = gen_wide_case(rng_wide)
        why, tag = guarded([], "wide constructor", run_wide, c) or ("the oracle could not examine the constructor", "?")
        chk.count("mk-wide:" + tag)
        chk.count("mk-wide-limit:" + ("default" if c["limit"] is None else "steered"))
        chk.case(("mk-wide", J(c)), tag != "full" or bool(c["kw"]))
        if why:
            chk.failure(why, c)

    # ---- 4. parameter names of Response.__init__ used as keyword arguments never produce a response
    for cn in ("make_fail", "make_pass"):
        for nm in ("key", "self"):
            try:
                GENERIC[cn]("K", **{nm: 1})
                chk.failure("%s('K', %s=1) was accepted" % (cn, nm), {"kind": "param-name", "cls": cn, "name": nm})
            except (TypeError, ValidationException):
                pass

    # ---- 5. adapters: every -m / -F / -S combination
    cases, lines, impl = [], [], []
    for m in (False, True):
        for f in (False, True):
            for mask in range(64):
                show = [s for i, s in enumerate(SHOW_CHOICES) if (mask >> i) & 1]
                if mask % 3 == 1:
                    show = show[::-1]
                for kind in ("json", "yaml"):
                    if kind == "yaml" and mask % 5:
                        continue
                    ad = parse_args(kind, {"missing": m, "fail_only": f, "show": show})
                    cases.append({"kind": "adapter", "fmt": kind, "missing": m, "fail_only": f, "show": show})
                    lines.append("adapter\t%d\t%d\t%s" % (m, f, ",".join(enc(s) for s in show) or "-"))
                    impl.append(J([enc(s) for s in ad.show_rules]) + "|%d" % bool(ad.missing))
                    chk.case(("adapter", kind, m, f, tuple(show)), True)
                    if list(ad.show_rules) != spec_show(cases[-1]) or bool(ad.missing) != m:
                        chk.failure("options %r select %r / missing=%r, expected %r / %r" % (
                            cases[-1], ad.show_rules, ad.missing, spec_show(cases[-1]), m), cases[-1])
    model = run_driver("C12", lines)
    chk.compare("adapter-options", cases, impl,
                [J(json.loads(x)) + "|%d" % c["missing"] if x != "bad-op" else x for x, c in zip(model, cases)])

    # ---- 6. rule sets
    all_lines = cls_lines()
    segments = []
    seen_vec = set()
    import os
    corpus_dir = os.path.join(os.path.dirname(os.path.dirname(os.path.abspath(__file__))), "corpus", "C12")
    corpus = []
    if os.path.isdir(corpus_dir):
        for fn in sorted(os.listdir(corpus_dir)):
            if fn.endswith(".json"):
                corpus.append(json.load(open(os.path.join(corpus_dir, fn)))["case"])
    # regression corpus first: histories (fixed 35ad880: e.process(g); e.process(g) lists the rule once), then rule sets
    for h in [c for c in corpus if c.get("kind") == "history"]:
        rs = RuleSet(h["case"])
        lines, impl, kinds, fails = run_history(rs, h["evaluator"], h["history"])
        segments.append((h, rs, len(all_lines), lines, impl, kinds))
        all_lines.extend(lines)
        for desc, finding in fails:
            chk.failure(desc, h, finding=finding)
        chk.count("history:" + h["history"])
        chk.case(("history-corpus", J(h)), True)
    chk.witnesses.append({"fixed": "35ad880 rerun-reobserves", "corpus": "corpus/C12/rerun-reobserves.json",
                          "passes": not any(f["case"].get("kind") == "history" for f in chk.failures)})
    corpus = [c for c in corpus if "rules" in c] + [nonresponse_case()]
    for idx in range(n_sets + len(corpus)):
        # the configuration histories come first (apply_configs walks every component loaded so far)
        case = corpus[idx] if idx < len(corpus) else (
            gen_config_case(rng, quick) if idx - len(corpus) < n_conf else gen_case(rng, quick, islands=rng.random() < 0.55))
        rs = RuleSet(case)
        lines, impl, kinds, fails = evaluate(rs)
        segments.append((case, rs, len(all_lines), lines, impl, kinds))
        all_lines.extend(lines)
        for desc, finding in fails:
            chk.failure(desc, {"kind": "ruleset", "case": case}, finding=finding)
        for k, v in rs.stats.items():
            chk.count(k, v)
        if case.get("config"):
            chk.count("config:histories")
            chk.count("config:applied-before-definition", 1 if case["config"].get("before") else 0)
            chk.count("config:applications-after-definition", len(case["config"]["after"]))
            for r in case["rules"]:
                dcl, eff = rs.declared[r["id"]]["enabled"], rs.eff[r["id"]]["enabled"]
                chk.count("config:rule %s -> %s" % ("enabled" if dcl else "disabled", "enabled" if eff else "disabled"))
            for cfg in case["config"]["after"]:
                for e in cfg["entries"]:
                    chk.count("config:entry %s enabled=%s" % (e["kind"], e.get("enabled")))
        nv = set(x["id"] for x in case["bases"] if x["how"] in ("none", "seednone"))
        for r in case["rules"]:
            if nv & set(r["requires"]):
                chk.count("dep:required-present-None")
            if nv & set(r["optional"]):
                chk.count("dep:optional-present-None")
            for g in r["alo"]:
                if g and g[0] in nv:
                    chk.count("dep:group-None-first")
                elif nv & set(g):
                    chk.count("dep:group-None-later")
        for sc in case.get("scenarios", []):
            chk.count("decoration:machine_id=" + sc["machine_id"])
        for name, ids in rs.by_name.items():
            if len(ids) > 1:
                chk.count("shared-name:%d rules under one name" % len(ids))
                kinds_ = sorted(set(final_kind for final_kind in (
                    ("disabled" if not rs.eff[i]["enabled"] else next(r for r in case["rules"] if r["id"] == i)["act"]["k"]) for i in ids)))
                chk.count("shared-name:return kinds " + "+".join(kinds_))
        chk.count("rules:%d" % len(case["rules"]))
        chk.count("limit:%s" % ("default" if case["limit"] == 65535 else "small"))
        chk.count("store_skips:%d" % case["store_skips"])
    # ---- 7. histories: one evaluator object entered / registered / used several times
    combos = [(k, e) for k in HISTORY_KINDS for e in sorted(EVALUATORS)]
    for idx in range(n_hist):
        h = gen_history(rng, quick)
        if idx < len(combos):
            h["history"], h["evaluator"] = combos[idx]
            if h["history"] == "seq-dependent":
                h = dict(gen_history(rng, quick), history="seq-dependent", evaluator=combos[idx][1])
                h["case"] = dict(gen_case(rng, quick, mode="dependent"), fmts=[])
        rs = RuleSet(h["case"])
        lines, impl, kinds, fails = run_history(rs, h["evaluator"], h["history"])
        segments.append((h, rs, len(all_lines), lines, impl, kinds))
        all_lines.extend(lines)
        for desc, finding in fails:
            chk.failure(desc, h, finding=finding)
        chk.count("history:" + h["history"])
        chk.count("history-evaluator:" + h["evaluator"])
        chk.case(("history", J(h)), len(h["case"]["rules"]) >= 2)
    model = run_driver("C12", all_lines)
    n_cmp = {}
    for case, rs, off, lines, impl, kinds in segments:
        ans = model[off:off + len(lines)]
        diffs = compare_answers(rs, kinds, impl, ans)
        for k, d in zip(kinds, diffs):
            name = k.split(":")[0] if k.startswith(("state", "report", "istate")) else k
            if name in ("decl", "rerun"):
                if d is not None:
                    s = n_cmp.setdefault("driver-declarations", [0, 0, None])
                    s[1] += 1
                    s[2] = s[2] or {"case": case, "answer": d[2]}
                continue
            stream = {"state": "ruleset-state", "report": "formatter-output", "adapter": "ruleset-adapter",
                      "istate": "insights-decoration-state", "text": "text-summary"}[name]
            if k == "state:history":
                stream = "history-state"
            if k == "state:incremental":
                stream = "incremental-state"
            s = n_cmp.setdefault(stream, [0, 0, None])
            s[0] += 1
            if d is not None:
                s[1] += 1
                if s[2] is None:
                    s[2] = {"case": case, "which": d[0], "impl": d[1], "model": d[2]}
        if case.get("kind") == "history":
            continue
        tags = []
        for k, a in zip(kinds, ans):
            if k == "state:SingleEvaluator":
                tags = final_tags(a)
        for t in tags:
            chk.count("outcome:" + ("entry:" + dec(t[6:]) if t.startswith("entry:") else t))
        vec = tuple(tags)
        chk.case(("set", J(case)), vec not in seen_vec and len(set(t.split(":")[0] for t in tags)) >= 2)
        seen_vec.add(vec)
    for stream, (n, bad, first) in sorted(n_cmp.items()):
        chk.stream(stream, n, bad)
        if bad:
            chk.tie_broken("correspondence:" + stream, "%d of %d answers differ" % (bad, n), first)
    # ---- 8. the default-graph children
    pending = list(child_cases[len(children):])
    race_seen = []
    while children:
        c, proc = children.pop(0)
        res = collect_default_graph(proc)
        if pending:
            nxt = pending.pop(0)
            children.append((nxt, spawn_default_graph(nxt)))
        for desc, finding in res["fails"]:
            chk.failure(desc, {"kind": "default-graph", "case": c}, finding=finding)
        for k, v in res["stats"].items():
            if k.startswith("race:"):
                if k == "race:observed" and v:
                    race_seen.append(v[0])
                chk.extra.setdefault("pooled-observer-regression c9df167", {})[k] = v
            elif k.startswith("default-graph:"):
                chk.extra[k] = v
            elif k.startswith("load-order:"):
                chk.count(k, v)
            else:
                chk.count("default-graph " + k, v)
        chk.case(("default-graph", J(c)), True)
    # ---- 9. the command line children
    cli_pending = list(cli_cases[len(cli_children):])
    while cli_children:
        c, runs, proc = cli_children.pop(0)
        res = collect_default_graph(proc)
        if cli_pending:
            c2, r2 = cli_pending.pop(0)
            cli_children.append((c2, r2, spawn_cli(c2, r2)))
        for desc, finding in res["fails"]:
            chk.failure(desc, {"kind": "cli", "case": c, "runs": runs}, finding=finding)
        for k, v in res["stats"].items():
            chk.count(k, v)
        chk.case(("cli", J(c), J(runs)), True)
    chk.witnesses.append({"fixed": RACE_FIX + " parallel-observer-race", "corpus": "corpus/C12/parallel-observer-race.json",
                          "passes": not race_seen, "observed": race_seen[:1],
                          "note": "pooled evaluations of the default graph in one child interpreter; a swallowed RuntimeError "
                                  "inside the observer is a failure"})
    hs = [x for x in segments if x[0].get("kind") == "history"]
    if hs:
        chk.sample({"history": {k: v for k, v in hs[0][0].items() if k != "case"}, "rules": len(hs[0][0]["case"]["rules"]),
                    "protocol": [l for l in hs[0][3] if l.startswith("h")]}, limit=8)
    sets = [x for x in segments if x[0].get("kind") != "history"]
    if sets:
        case, rs, off, lines, impl, kinds = sets[min(3, len(sets) - 1)]
        chk.sample({"rule set": case, "SingleEvaluator state (canonical, strings hex)": impl[kinds.index("state:SingleEvaluator")]}, limit=8)


# --------------------------------------------------------------------------- replay

def replay_ruleset(case):
    """(oracle violated, model differs)"""
    rs = RuleSet(case)
    lines, impl, kinds, fails = evaluate(rs)
    bad = differs = 0
    for desc, finding in fails:
        print("oracle:", desc[:1200], "[known finding %s]" % finding if finding else "")
        if finding is None:
            bad = 1
    model = run_driver("C12", cls_lines() + lines)[len(cls_lines()):]
    for d in compare_answers(rs, kinds, impl, model):
        if d is not None:
            differs = 1
            print("model differs on %s:\n  impl  %s\n  model %s" % (d[0], J(d[1])[:1200], J(d[2])[:1200] if not isinstance(d[2], str) else d[2][:1200]))
    return bad, differs


def replay_history(h):
    """(oracle violated, model differs)"""
    rs = RuleSet(h["case"])
    lines, impl, kinds, fails = run_history(rs, h["evaluator"], h["history"])
    print("history %s on %s: %s" % (h["history"], h["evaluator"], " ".join(l.replace("\t", " ") for l in lines if l.startswith("h"))))
    bad = differs = 0
    for desc, finding in fails:
        print("oracle:", desc[:1200], "[known finding %s]" % finding if finding else "")
        if finding is None:
            bad = 1
    model = run_driver("C12", cls_lines() + lines)[len(cls_lines()):]
    for d in compare_answers(rs, kinds, impl, model):
        if d is not None:
            differs = 1
            print("model differs on %s:\n  impl  %s\n  model %s" % (d[0], J(d[1])[:1200], J(d[2])[:1200] if not isinstance(d[2], str) else d[2][:1200]))
    return bad, differs


def replay(data):
    if data.get("kind") == "broken-tie":
        # no failing input was found: show what no longer checks and re-run the recorded disagreeing cases
        rc = 0
        for b in data.get("broken", []):
            print("no longer checks:", b.get("what"), "-", str(b.get("detail"))[:300])
            c = b.get("case") or {}
            inner = c.get("case") if isinstance(c, dict) else None
            if isinstance(inner, dict) and inner.get("kind") == "history":
                rc |= replay_history(inner)[1]
            elif isinstance(inner, dict) and "rules" in inner:
                rc |= replay_ruleset(inner)[1]
            elif isinstance(inner, dict) and inner.get("kind") in ("mk", "adapter"):
                replay({"case": inner})
                rc = 1
            else:
                print("  recorded:", json.dumps(c, default=str)[:1500])
                rc = 1
        print("model and implementation still disagree" if rc else "model and implementation agree again")
        return rc
    c = data["case"]
    print("replaying", json.dumps(c, ensure_ascii=False)[:4000])
    kind = c.get("kind")
    bad = False
    if kind == "mk":
        out = run_ctor(c["act"], c["limit"])
        why = oracle_mk(c["act"], c["limit"], out)
        cls, key, kw = ctor_args(c["act"])
        m = run_driver("C12", cls_lines() + ["mk\t%d\t%s\t%s\t%s" % (c["limit"], enc(cls.__name__), pv(key), pdict(kw))])[-1]
        print("impl:", out)
        print("model:", m)
        print("oracle:", why)
        bad = why is not None
    elif kind == "param-name":
        try:
            GENERIC[c["cls"]]("K", **{c["name"]: 1})
            bad = True
        except (TypeError, ValidationException):
            bad = False
    elif kind == "ruleset":
        bad = bool(replay_ruleset(c["case"])[0])
    elif kind == "history":
        bad = bool(replay_history(c)[0])
    elif kind == "default-graph":
        res = collect_default_graph(spawn_default_graph(c["case"]))
        for desc, finding in res["fails"]:
            print("oracle:", str(desc)[:1200], "[known finding %s]" % finding if finding else "")
            if finding is None:
                bad = True
    elif kind == "mk-wide":
        why, tag = run_wide(c)
        print("outcome:", tag)
        print("oracle:", why)
        bad = why is not None
    elif kind == "cli":
        res = collect_default_graph(spawn_cli(c["case"], c["runs"]))
        for desc, finding in res["fails"]:
            print("oracle:", str(desc)[:1500], "[known finding %s]" % finding if finding else "")
            if finding is None:
                bad = True
    elif kind == "yaml-adapter":
        problems, info = regression_yaml_adapter()
        print("observed:", info)
        for p_ in problems:
            print("oracle:", p_)
        bad = bool(problems)
    elif kind == "adapter":
        ad = parse_args(c["fmt"], c)
        print("impl: show_rules=%r missing=%r   expected %r / %r" % (ad.show_rules, ad.missing, spec_show(c), c["missing"]))
        bad = list(ad.show_rules) != spec_show(c) or bool(ad.missing) != c["missing"]
    else:
        print("unknown replay kind")
    print("property violated on this input" if bad else "property holds on this input")
    return 1 if bad else 0
