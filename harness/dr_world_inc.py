"""
C03 / C04, round 10: the incremental and pooled drivers of insights.core.dr (generate_incremental, run_incremental,
run_all) INCLUDING their broker handling — called without a broker they hand back one broker per connected sub-graph.
Mirrored by IV/Model/Incremental.lean through Drivers/C04.lean (`incr`).  Also: the module-level observer registry
(dr.add_observer / dr.observer -> TYPE_OBSERVERS -> Broker.__init__), Broker(seed_broker), broker.observer().
"""
import random
from concurrent.futures import ThreadPoolExecutor

from insights.core import dr
from harness import dr_world as W


# ----------------------------------------------------------------------------------------------- canonical forms

def shape_problem(b):
    """why `b` cannot be read as a broker (None when it can)"""
    if not isinstance(b, dr.Broker):
        return "handed back %r where a Broker is expected" % (type(b).__name__,)
    for attr in ("instances", "missing_requirements", "exceptions", "tracebacks", "exec_times"):
        if not isinstance(getattr(b, attr, None), dict):
            return "broker.%s is %r, not a dict" % (attr, type(getattr(b, attr, None)).__name__)
    return None


def canon_plain(world, b, foreign=True):
    """instances, missing-dependency reports and the (target, exception) multiset of one broker; order-free"""
    inst = " ".join("%d:%s" % (i, W.canon_val(world, b.instances[c])) for i, c in enumerate(world.comps) if c in b.instances)
    foreign_names = sorted(dr.get_name(c) for c in b.instances if c not in world.ids)
    if foreign and foreign_names:
        inst += " FOREIGN(%s)" % ",".join(foreign_names)
    miss = []
    for i, c in enumerate(world.comps):
        if c in b.missing_requirements:
            m = b.missing_requirements[c]
            if not (isinstance(m, tuple) and len(m) == 2):
                miss.append("%d:?%r" % (i, m))
                continue
            miss.append("%d:%s/%s" % (i, ";".join(str(world.ids.get(x, "?")) for x in m[0]),
                                      "&".join((";".join(str(world.ids.get(x, "?")) for x in g) or "_") for g in m[1])))
    excs = []
    for target, lst in b.exceptions.items():
        t = world.ids.get(target)
        for ex in lst:
            excs.append("%s:%s" % (t if t is not None else "X(%s)" % dr.get_name(target), W.exc_name(ex)))
    return "inst=%s|missing=%s|exc=%s" % (inst, " ".join(miss), " ".join(sorted(excs)))


def reported_keys(world, b, graph):
    """the graph keys a broker says anything about"""
    ks = set(c for c in b.instances if c in graph) | set(c for c in b.missing_requirements if c in graph)
    ks |= set(c for c, lst in b.exceptions.items() if lst and c in graph)
    return ks


def components_of(graph):
    """connected components of the graph (own union-find over the declared edges inside the graph), as frozensets"""
    parent = dict((k, k) for k in graph)

    def find(x):
        while parent[x] is not x:
            parent[x] = parent[parent[x]]
            x = parent[x]
        return x
    for k in graph:
        for d in dr.get_dependencies(k):
            if d in graph:
                a, b = find(k), find(d)
                if a is not b:
                    parent[a] = b
    out = {}
    for k in graph:
        out.setdefault(find(k), set()).add(k)
    return [frozenset(v) for v in out.values()]


def merged(world, brokers):
    """the union of what distinct brokers report + the components reported by more than one of them"""
    class M(object):
        pass
    m = M()
    m.instances, m.missing_requirements, m.exceptions, m.tracebacks = {}, {}, {}, {}
    dup = set()
    seen = []
    for b in brokers:
        if any(b is s for s in seen):
            continue
        seen.append(b)
        for c, v in b.instances.items():
            if c in m.instances:
                dup.add(world.ids.get(c, dr.get_name(c)))
            m.instances[c] = v
        for c, v in b.missing_requirements.items():
            if c in m.missing_requirements:
                dup.add(world.ids.get(c, dr.get_name(c)))
            m.missing_requirements[c] = v
        for c, lst in b.exceptions.items():
            if lst:
                m.exceptions.setdefault(c, []).extend(lst)
    return m, sorted(dup, key=str)


# ----------------------------------------------------------------------------------------------- schedules

def g2(graph):
    return dict((k, set(v)) for k, v in graph.items())


SCHEDULES = ("run_incremental/list", "run_incremental/lazy", "run_all", "run_all/defer", "run_all/threads",
             "generate_incremental+run", "run_incremental(list of components)", "run_all/sync-pool", "run_all/falsy-pool",
             "run_all/gate-pool-1", "run_all/gate-pool-n")


class GatePool(object):
    """a REAL thread pool whose workers are busy until every task has been submitted: no task starts before the first
    result() is asked for, i.e. after the submitting loop has exhausted its generator (max_workers=1: fewer workers than tasks)"""

    def __init__(self, max_workers):
        import threading
        self.gate = threading.Event()
        self.tp = ThreadPoolExecutor(max_workers=max_workers)

    class _Fut(object):
        def __init__(self, pool, fut):
            self.pool, self.fut = pool, fut

        def result(self):
            self.pool.gate.set()
            return self.fut.result()

    def submit(self, fn, *a, **k):
        def task():
            self.gate.wait(10)
            return fn(*a, **k)
        return GatePool._Fut(self, self.tp.submit(task))

    def close(self):
        self.gate.set()
        self.tp.shutdown(wait=True)


class SyncPool(object):
    """a pool that runs every task inside submit()"""
    class _Done(object):
        def __init__(self, v):
            self.v = v

        def result(self):
            return self.v

    def submit(self, fn, *a, **k):
        return SyncPool._Done(fn(*a, **k))


class FalsyPool(SyncPool):
    """a pool object whose truth value is False (it defines __len__): run_all may take it for "no pool"; either way is fine"""
    def __len__(self):
        return 0


def call_schedule(name, world, graph, broker, rng, targets=None, at_yield=None):
    """run one schedule; returns the list of brokers handed back (at_yield(i, b, so_far) is called at every lazy yield)"""
    if name == "run_incremental/list":
        return list(dr.run_incremental(g2(graph), broker))
    if name == "run_incremental/lazy":
        out = []
        gen = dr.run_incremental(components=g2(graph), broker=broker)
        for i, b in enumerate(gen):
            out.append(b)
            if at_yield:
                at_yield(i, b, out)
        return out
    if name == "run_all":
        return dr.run_all(g2(graph), broker)
    if name == "run_all/defer":
        return dr.run_all(g2(graph), broker, W.DeferPool(rng))
    if name == "run_all/sync-pool":
        return dr.run_all(g2(graph), broker, SyncPool())
    if name == "run_all/falsy-pool":
        return dr.run_all(g2(graph), broker=broker, pool=FalsyPool())
    if name in ("run_all/gate-pool-1", "run_all/gate-pool-n"):
        gp = GatePool(1 if name.endswith("-1") else 4)
        try:
            return dr.run_all(g2(graph), broker, gp)
        finally:
            gp.close()
    if name == "run_all/threads":
        with ThreadPoolExecutor(max_workers=rng.randint(1, 4)) as tp:
            return dr.run_all(components=g2(graph), broker=broker, pool=tp)
    if name == "generate_incremental+run":
        pairs = list(dr.generate_incremental(g2(graph), broker))
        # all pairs exist before anything is evaluated (what run_all does with a pool); evaluated last to first
        for p in pairs:
            if not (isinstance(p, tuple) and len(p) == 2):
                raise AssertionError("generate_incremental yielded %r, not a (graph, broker) pair" % (p,))
        for sg, b in reversed(pairs):
            dr.run(sg, broker=b)
        return [b for _, b in pairs]
    if name == "run_incremental(list of components)":
        return list(dr.run_incremental([world.comps[t] for t in targets], broker))
    raise ValueError(name)


def fresh_check(world, graph, rng, schedules, targets=None, store_skips=False, seeds=()):
    """
    Every schedule WITHOUT a broker, and with the caller's broker, held to the oracle.  Returns (failures, rows) where
    failures = [(schedule, text)] and rows = [(schedule, passed?, canonical answer for the model tie)].
    """
    fails, rows = [], []
    for why in yielded_graphs_check(world, graph):          # cheap, and it names the concrete input: first
        fails.append(("yielded-graphs", why))
    comps = components_of(graph)
    comp_of = dict((k, c) for c in comps for k in c)
    subs = [frozenset(sg) for sg in dr.get_subgraphs(g2(graph))]      # order of the sub-graphs (priority order)
    # reference: one pass over the whole graph on a new, empty broker (no seeds, skip recording off: what Broker() is)
    world.calls = []
    world.exc_cache.clear()
    ref_b = dr.Broker()
    try:
        dr.run(g2(graph), broker=ref_b)
    except Exception as ex:
        return [("run", "dr.run on an empty broker raised %r" % (ex,))], rows
    ref = canon_plain(world, ref_b)
    ref_calls = sorted(world.calls)
    known_before = [ref_b]
    not_values = bool(fails)
    for name in schedules:
        if name not in SERIAL and (too_costly(name) or (not_values and ABORTS[0] >= 1)):
            continue
        world.calls = []
        world.exc_cache.clear()
        snaps = []

        def at_yield(i, b, so_far):
            if shape_problem(b) is None:
                snaps.append([canon_plain(world, x) if shape_problem(x) is None else "?" for x in so_far])
        bs, err = guarded_call(world, graph, None, lambda: call_schedule(name, world, graph, None, rng, targets, at_yield))
        if err is not None:
            fails.append((name, "%s without a broker %s" % (name, err if isinstance(err, str) else "raised %r" % (err,))))
            continue
        if not isinstance(bs, list):
            fails.append((name, "%s handed back %r, not a list of brokers" % (name, type(bs).__name__)))
            continue
        bad = [shape_problem(b) for b in bs if shape_problem(b)]
        if bad:
            fails.append((name, "%s without a broker: %s" % (name, bad[0])))
            continue
        calls = sorted(world.calls)
        # (a) one broker per connected sub-graph, pairwise DISTINCT objects, none of them an object that existed before
        if len(bs) != len(comps):
            fails.append((name, "%s without a broker handed back %d brokers for %d connected sub-graphs" % (name, len(bs), len(comps))))
        distinct = []
        for b in bs:
            if not any(b is d for d in distinct):
                distinct.append(b)
        if len(distinct) != len(bs):
            fails.append((name, "%s without a broker handed back the SAME broker object for %d of %d sub-graphs (%d distinct objects): "
                          "each sub-graph's results must be in its own broker" % (name, len(bs) - len(distinct) + 1, len(bs), len(distinct))))
        if any(b is k for b in bs for k in known_before):
            fails.append((name, "%s without a broker handed back a broker object that existed before the call" % name))
        # (b) each broker reports exactly its own sub-graph: keys inside one connected sub-graph, different brokers different ones
        owner = {}
        for i, b in enumerate(distinct):
            ks = reported_keys(world, b, graph)
            cs = set(comp_of[k] for k in ks)
            if len(cs) > 1:
                fails.append((name, "%s without a broker: broker #%d reports components of %d different sub-graphs: %s"
                              % (name, i + 1, len(cs), sorted(world.ids[k] for k in ks))))
            for c in cs:
                if c in owner and owner[c] != i:
                    fails.append((name, "%s without a broker: sub-graph %s is reported by two brokers (#%d and #%d)"
                                  % (name, sorted(world.ids[k] for k in c), owner[c] + 1, i + 1)))
                owner.setdefault(c, i)
        # (c) taken together: every component exactly once, and the union is the single-pass result
        m, dup = merged(world, bs)
        if dup:
            fails.append((name, "%s without a broker: component(s) %s are reported by more than one broker" % (name, dup)))
        got = canon_plain(world, m)
        if got != ref:
            fails.append((name, "%s without a broker: the brokers taken together differ from the single pass:\n  dr.run:   %s\n  together: %s"
                          % (name, ref, got)))
        if calls != ref_calls:
            fails.append((name, "%s without a broker called the component bodies %s, the single pass %s" % (name, calls, ref_calls)))
        # (d) lazy consumption: the i-th broker is complete when it is yielded and is not touched afterwards
        if snaps:
            final = [canon_plain(world, x) for x in bs]
            for i, s in enumerate(snaps):
                if s != final[:i + 1]:
                    fails.append((name, "%s without a broker: at its yield #%d the brokers yielded so far held %s, at the end they hold %s"
                                  % (name, i + 1, s, final[:i + 1])))
                    break
        rows.append((name, False, answer(world, bs, None, subs)))
        known_before.extend(distinct)
    # the caller's broker: every sub-graph is evaluated on it and it is the object handed back every time
    pref, pref_calls = None, None
    for name in ["run"] + list(schedules):
        world.exc_cache.clear()
        world.calls = []
        pb = dr.Broker()
        pb.store_skips = store_skips
        for cid, v in seeds:
            pb[world.comps[cid]] = W.uncanon_val(v)
        if name not in SERIAL and (too_costly(name) or (not_values and ABORTS[0] >= 1)):
            continue
        if name == "run":
            # reference for the caller's-broker schedules: one pass on an equal broker
            bs, err = guarded_call(world, graph, pb, lambda: [dr.run(g2(graph), broker=pb)])
            if err is None:
                pref, pref_calls = canon_plain(world, pb), sorted(world.calls)
            continue
        bs, err = guarded_call(world, graph, pb, lambda: call_schedule(name, world, graph, pb, rng, targets))
        if err is not None:
            fails.append((name, "%s with a broker %s" % (name, err if isinstance(err, str) else "raised %r" % (err,))))
            continue
        if not isinstance(bs, list) or any(shape_problem(b) for b in bs):
            fails.append((name, "%s with a broker handed back %r" % (name, bs if not isinstance(bs, list) else [type(b).__name__ for b in bs])))
            continue
        if any(b is not pb for b in bs):
            fails.append((name, "%s with a broker handed back %d object(s) that are not the caller's broker" % (name, sum(1 for b in bs if b is not pb))))
        if len(bs) != len(comps):
            fails.append((name, "%s with a broker handed back %d brokers for %d connected sub-graphs" % (name, len(bs), len(comps))))
        if pref is not None and canon_plain(world, pb) != pref:
            fails.append((name, "%s with a broker differs from the single pass:\n  dr.run: %s\n  %s: %s" % (name, pref, name, canon_plain(world, pb))))
        if pref_calls is not None and sorted(world.calls) != pref_calls:
            fails.append((name, "%s with a broker called the component bodies %s, the single pass %s" % (name, sorted(world.calls), pref_calls)))
        rows.append((name, True, answer(world, bs, pb, subs)))
    return fails, rows


def answer(world, bs, pb, subs):
    """the form Drivers/C04 `incr` answers in: identity pattern, the keys of the sub-graphs evaluated on each object, contents"""
    distinct = []
    out = []
    for i, b in enumerate(bs):
        if pb is not None and b is pb:
            ref = 0
        else:
            if not any(b is d for d in distinct):
                distinct.append(b)
            ref = 1 + [j for j, d in enumerate(distinct) if d is b][0]
        keys = set()
        for j, b2 in enumerate(bs):
            if b2 is b and j < len(subs):
                keys |= subs[j]
        out.append("#%d[%s]%s" % (ref, ",".join(str(x) for x in sorted(world.ids[k] for k in keys)), canon_plain(world, b)))
    return " // ".join(out)


def incr_line(world, graph, passed, store_skips, sched="s"):
    ids = world.ids
    gkeys = list(graph)
    prio = lambda x: getattr(next(iter(dr.get_registry_points(x) or [object])), "prio", 0)
    return "incr\t%s\t%s\t%s\t%s\t%s\t%s\t%s\t%s" % (
        "1" if passed else "0", "1" if store_skips else "0",
        ",".join(str(ids[k]) for k in gkeys),
        ";".join("%d:%s" % (ids[k], ",".join(str(ids[d]) for d in dr.get_dependencies(k) if d in ids)) for k in gkeys) or "-",
        ";".join("%d:%s" % (ids[k], ",".join(str(ids[d]) for d in dr.get_dependents(k) if d in ids)) for k in gkeys) or "-",
        ";".join("%d:%d" % (ids[k], prio(k)) for k in gkeys if prio(k)) or "-",
        ",".join(map(str, range(world.n))), sched)


# ----------------------------------------------------------------------------------------------- observers (C03)

class global_observer(object):
    """`dr.add_observer(o, type)` for the time of a with-block (TYPE_OBSERVERS is process-global and additive)"""

    def __init__(self, o, ctype=dr.ComponentType, decorator=False):
        self.o, self.ctype, self.decorator = o, ctype, decorator

    def __enter__(self):
        if self.decorator:
            dr.observer(self.ctype)(self.o)
        else:
            dr.add_observer(self.o, self.ctype)
        return self

    def __exit__(self, *a):
        reg = getattr(dr, "TYPE_OBSERVERS", None)
        if isinstance(reg, dict) and self.ctype in reg:
            try:
                reg[self.ctype].discard(self.o)
            except AttributeError:
                try:
                    reg[self.ctype].remove(self.o)
                except ValueError:
                    pass
        return False


def attributing_observer(world):
    """what World.new_broker installs per broker, as ONE observer for every broker created while it is registered
    module-wide (dr.add_observer): fired components and, per recorded exception occurrence, the step that recorded it"""
    def obs(comp, broker):
        log = broker.__dict__.setdefault("vlog", {"fired": [], "src": {}, "attempts": []})
        cid = world.ids.get(comp)
        log["fired"].append(cid)
        for target, lst in list(broker.exceptions.items()):
            nth = {}
            for ex in lst:
                nth[id(ex)] = nth.get(id(ex), 0) + 1
                key = (id(ex), world.ids.get(target, target), nth[id(ex)])
                if key not in log["src"]:
                    log["src"][key] = cid
    return obs


ENTRIES = ("run_incremental()", "run_all()", "run_all(pool)", "run(Broker(seed))", "run_all(Broker(seed))",
           "run_incremental(Broker(seed))")


def entry_eval(world, seeds, store_skips, graph, entry, rng, failing=None):
    """
    One evaluation through an entry point other than dr.run / run_components, as a dr_world.Run whose `broker` is what the
    entry point leaves behind: for the entries without a broker the UNION of the brokers handed back (seeds: none, skip
    recording: off — that is what a new Broker() is), for the others the caller's broker, built with Broker(seed_broker).
    """
    r = W.Run()
    r.error, r.edges_changed, r.seed_changed = None, None, None
    r.graph = g2(graph)
    world.calls = []
    world.exc_cache.clear()
    del W.RAISED[:]
    edges = world.edge_snapshot()
    r.order = dr.run_order(g2(graph))
    r.order_ids = [world.ids[c] for c in r.order if c in world.ids]
    r.brokers = []
    try:
        if entry in ("run_incremental()", "run_all()", "run_all(pool)"):
            class _nothing(object):
                def __enter__(self):
                    return self

                def __exit__(self, *a):
                    return False
            # `failing`: a module-level observer that raises, taken over by every broker the engine creates
            with global_observer(attributing_observer(world), dr.ComponentType, decorator=(entry == "run_all()")), \
                    (global_observer(failing, dr.ComponentType) if failing is not None else _nothing()):
                with guard(world, graph, None):
                    if entry == "run_incremental()":
                        bs = list(dr.run_incremental(g2(graph)))
                    elif entry == "run_all()":
                        bs = dr.run_all(g2(graph))
                    else:
                        bs = dr.run_all(g2(graph), pool=W.DeferPool(rng))
            bad = [shape_problem(b) for b in (bs if isinstance(bs, list) else [bs]) if shape_problem(b)]
            if bad or not isinstance(bs, list):
                raise AssertionError("%s: %s" % (entry, bad[0] if bad else "handed back %r" % type(bs).__name__))
            r.brokers = bs
            m, dup = merged(world, bs)
            m.vlog = {"src": {}, "fired": [], "attempts": []}
            m.store_skips = any(getattr(b, "store_skips", False) for b in bs)
            for b in bs:
                m.vlog["src"].update(getattr(b, "vlog", {}).get("src", {}))
                m.tracebacks.update(b.tracebacks)
            m.duplicates = dup
            r.broker = m
        else:
            sb = world.new_broker(seeds, store_skips)
            pb = dr.Broker(sb)              # instances and observers are taken over from the seed broker
            pb.vlog, pb.vworld, pb.store_skips = sb.vlog, world, store_skips
            if entry == "run(Broker(seed))":
                out = [dr.run(g2(graph), broker=pb)]
            elif entry == "run_all(Broker(seed))":
                out = dr.run_all(g2(graph), broker=pb)
            else:
                out = list(dr.run_incremental(g2(graph), broker=pb))
            if any(o is not pb for o in out):
                raise AssertionError("%s handed back something else than the caller's broker" % entry)
            if any(sb.exceptions.values()) or sb.missing_requirements or len(sb.instances) != len(seeds):
                r.seed_changed = ("evaluating on Broker(seed_broker) also wrote into the SEED broker: it now holds %d values (seeded %d), "
                                  "failures recorded against %d keys, %d missing-dependency reports: results and failures are reported twice"
                                  % (len(sb.instances), len(seeds), sum(1 for v in sb.exceptions.values() if v), len(sb.missing_requirements)))
            r.broker = pb
            r.brokers = [pb]
    except (Exception, Abort) as ex:
        r.error = ex
        r.broker = None
    r.edges_changed = world.edges_changed(edges) or world.edges_inconsistent()
    r.calls = list(world.calls)
    r.raised = list(W.RAISED)
    r.text = canon_plain(world, r.broker) if r.error is None else "ERROR:%s" % type(r.error).__name__
    return r


class debug_logging(object):
    """the engine's loggers switched to DEBUG with a handler that formats every record (dr_world disables logging process-wide):
    the `log.debug(...)` / `log.info(...)` lines of the ladder and of the plugin handlers build their messages for real"""

    NAMES = ("insights.core.dr", "insights.core.plugins")

    def __enter__(self):
        import logging

        class Sink(logging.Handler):
            records, format_errors = 0, 0

            def emit(self, record):
                Sink.records += 1
                try:
                    self.format(record)
                except Exception:
                    Sink.format_errors += 1
        self.sink = Sink(level=logging.DEBUG)
        self.prev_disable = logging.root.manager.disable
        logging.disable(logging.NOTSET)
        self.saved = []
        for n in self.NAMES:
            lg = logging.getLogger(n)
            self.saved.append((lg, lg.level, lg.propagate))
            lg.setLevel(logging.DEBUG)
            lg.propagate = False
            lg.addHandler(self.sink)
        return self.sink

    def __exit__(self, *a):
        import logging
        for lg, level, prop in self.saved:
            lg.removeHandler(self.sink)
            lg.setLevel(level)
            lg.propagate = prop
        logging.disable(self.prev_disable)
        return False


# ----------------------------------------------------------------------------------------------- damage bound

class Abort(BaseException):
    """raised by the guard inside the engine: not an Exception, so no handler of the engine swallows it"""


class guard(object):
    """
    Process-wide watch for the time of ONE schedule: every attempt (DELEGATES[c].process) of a component of the world is
    counted, every observer firing is looked at.  The schedule is ABORTED (Abort out of the engine) as soon as a component
    outside the world is fired, a component outside the graph is attempted, or a component is attempted a second time — so a
    change that makes some run() evaluate the whole default group costs one foreign component, not thousands.
    `why` holds what was seen.
    """

    def __init__(self, world, graph, broker=None, max_attempts=1):
        import threading
        self.world, self.graph, self.broker, self.max = world, graph, broker, max_attempts
        self.lock = threading.Lock()
        self.count, self.why, self.saved = {}, None, []

    def _obs(self, comp, broker):
        if comp not in self.world.ids:
            if self.why is None:
                self.why = "a component outside the world was taken into the evaluation: %s" % dr.get_name(comp)
            raise Abort(self.why)

    def __enter__(self):
        dr.add_observer(self._obs, dr.ComponentType)
        if self.broker is not None:
            self.broker.add_observer(self._obs, dr.ComponentType)
        for cid, c in enumerate(self.world.comps):
            d = dr.get_delegate(c)
            if d is None:
                continue
            had = "process" in d.__dict__
            orig = d.process

            def wrapped(broker, _orig=orig, _cid=cid, _c=c):
                with self.lock:
                    n = self.count[_cid] = self.count.get(_cid, 0) + 1
                    if _c not in self.graph and self.why is None:
                        self.why = "component %d, which is not a key of the graph, was attempted" % _cid
                    elif n > self.max and self.why is None:
                        self.why = "component %d was attempted %d times in one call" % (_cid, n)
                    bad = self.why
                if bad is not None:
                    raise Abort(bad)
                return _orig(broker)
            self.saved.append((d, had, orig))
            d.process = wrapped
        return self

    def __exit__(self, *a):
        for d, had, orig in self.saved:
            if had:
                d.process = orig
            else:
                try:
                    del d.process
                except AttributeError:
                    pass
        reg = getattr(dr, "TYPE_OBSERVERS", None)
        if isinstance(reg, dict) and dr.ComponentType in reg:
            try:
                reg[dr.ComponentType].discard(self._obs)
            except Exception:
                pass
        if self.broker is not None:
            try:
                self.broker.observers[dr.ComponentType].discard(self._obs)
            except Exception:
                pass
        return False


ABORTS = [0]          # schedules stopped by the guard in this process
ABORT_CAP = 3         # after that many, schedules in which tasks start after the generator moved on are no longer run:
                      # the concrete inputs are on record, every further one would cost a sort of the whole default group
SERIAL = ("run", "run_incremental/list", "run_incremental/lazy", "run_all", "run_incremental(list of components)")


def too_costly(name):
    return ABORTS[0] >= ABORT_CAP and name not in SERIAL


def guarded_call(world, graph, broker, fn):
    """run fn() under the guard; returns (result, None) or (None, why-it-was-stopped / exception)"""
    gd = guard(world, graph, broker)
    try:
        with gd:
            return fn(), None
    except Abort as ab:
        ABORTS[0] += 1
        return None, "stopped: %s" % (gd.why or ab)
    except Exception as ex:
        return None, ex


# ----------------------------------------------------------------------------------------------- yielded graphs are values

def _snap(world, g):
    if not isinstance(g, dict):
        return "?%s" % type(g).__name__
    return sorted((world.ids.get(k, dr.get_name(k)), sorted(str(world.ids.get(d, "x")) for d in v)) for k, v in g.items())


def yielded_graphs_check(world, graph, broker_factory=None):
    """
    The dicts get_subgraphs / generate_incremental hand out are VALUES: a consumer that keeps every yielded graph and looks at
    them after the generator has advanced or is exhausted (run_all's pool branch: tasks queued while the submitting loop goes
    on) finds each as it was when yielded; they are pairwise distinct objects, none is empty, together they are the graph.
    Returns a list of failure texts.
    """
    out = []
    for name, make in (("get_subgraphs", lambda: dr.get_subgraphs(g2(graph))),
                       ("generate_incremental (no broker)", lambda: dr.generate_incremental(g2(graph))),
                       ("generate_incremental (caller's broker)", lambda: dr.generate_incremental(g2(graph), dr.Broker()))):
        kept, at_yield = [], []
        try:
            for item in make():
                g = item[0] if (name != "get_subgraphs" and isinstance(item, tuple) and len(item) == 2) else item
                kept.append(g)
                at_yield.append(_snap(world, g))
        except Exception as ex:
            out.append("%s raised %r" % (name, ex))
            continue
        later = [_snap(world, g) for g in kept]
        for i, (a, b) in enumerate(zip(at_yield, later)):
            if a != b:
                out.append("%s: the graph yielded as #%d was %s; after the generator was exhausted the SAME dict holds %s (a task queued "
                           "with it evaluates something else)" % (name, i + 1, a, b))
                break
        if any(isinstance(g, dict) and not g for g in kept):
            out.append("%s yielded an empty graph (run() takes an empty graph for the whole default group)" % name)
        for i in range(len(kept)):
            if any(kept[i] is kept[j] for j in range(i)):
                out.append("%s yielded the same dict object more than once (#%d)" % (name, i + 1))
                break
        keys = sorted(str(k[0]) for s_ in at_yield if isinstance(s_, list) for k in s_)
        want = sorted(str(world.ids[k]) for k in graph)
        if keys != want:
            out.append("%s: the yielded graphs hold the keys %s, the graph %s" % (name, keys, want))
    return out


# ----------------------------------------------------------------------------------------------- loaded archive, every entry point

ARCHIVE_SCHEDULES = ("run", "run_incremental/list", "run_incremental/lazy", "run_all", "generate_incremental+run", "run_all/defer",
                     "run_all/sync-pool", "run_all/gate-pool-1", "run_all/gate-pool-n", "run_all/threads")


def archive_pre(world, graph, seeds, rng):
    """seeds + 1..2 components that have dependencies inside the graph, as an archive holds them; None for the one shape
    DESIGN §6 leaves out (a pre-populated component that directly depends on another pre-populated key of the graph)"""
    with_deps = [world.ids[c] for c in graph if any(d in graph for d in graph[c])]
    pre = [tuple(x) for x in seeds]
    for cid in rng.sample(with_deps, min(len(with_deps), rng.randint(1, 2))):
        if cid not in [x for x, _ in pre]:
            pre.append((cid, "A%d" % (7000 + cid)))
    sset = set(world.comps[x] for x, _ in pre)
    if any(d in sset and d in graph for c in graph if c in sset for d in graph[c]):
        return None
    return pre


def archive_check(world, graph, pre, store_skips, rng, schedules=ARCHIVE_SCHEDULES):
    """
    A broker holding a SerializedArchiveContext and the pre-populated components of `pre`, through every entry point: same
    values / failures / missing reports and the same body invocations as dr.run (a pruned dependency's body is never invoked).
    Returns (failures [(schedule, text)], rows [(schedule, canonical result)]).
    """
    from insights.core.context import SerializedArchiveContext
    fails, rows = [], []
    ref, ref_calls = None, None
    for name in schedules:
        if too_costly(name):
            continue
        hb = world.new_broker(pre, store_skips)
        hb[SerializedArchiveContext] = SerializedArchiveContext()
        world.calls = []
        world.exc_cache.clear()
        if name == "run":
            out, err = guarded_call(world, graph, hb, lambda: [dr.run(g2(graph), broker=hb)])
        else:
            out, err = guarded_call(world, graph, hb, lambda: call_schedule(name, world, graph, hb, rng))
        if err is not None:
            fails.append((name, "loaded archive (pre-populated %s): %s %s" % ([x for x, _ in pre], name,
                                                                             err if isinstance(err, str) else "raised %r" % (err,))))
            if name == "run":
                return fails, rows
            continue
        if not isinstance(out, list) or any(o is not hb for o in out):
            fails.append((name, "loaded archive: %s did not hand the caller's broker back" % name))
            continue
        text, calls = canon_plain(world, hb, foreign=False), sorted(world.calls)
        rows.append((name, text))
        if name == "run":
            ref, ref_calls = text, calls
            continue
        if text != ref:
            fails.append((name, "loaded archive (pre-populated %s): %s differs from dr.run:\n  dr.run: %s\n  %s: %s"
                          % ([x for x, _ in pre], name, ref, name, text)))
        if calls != ref_calls:
            extra = [c for c in calls if c not in ref_calls]
            fails.append((name, "loaded archive (pre-populated %s): %s invoked the component bodies %s, dr.run %s (not invoked by dr.run: %s)"
                          % ([x for x, _ in pre], name, calls, ref_calls, extra)))
    return fails, rows


class firing_budget(object):
    """
    For evaluations of the DEFAULT graph (no world to tell foreign components by): a process-wide count of observer firings;
    more than `limit` in one schedule stops it (Abort).  limit = a few times the length of the default order: every entry
    point fires each component of it once.
    """

    def __init__(self, limit, broker=None):
        import threading
        self.limit, self.broker, self.n, self.lock, self.why = limit, broker, 0, threading.Lock(), None

    def _obs(self, comp, broker):
        with self.lock:
            self.n += 1
            over = self.n > self.limit
        if over:
            self.why = "more than %d components were fired in one call (the default order has a third of that)" % self.limit
            raise Abort(self.why)

    def __enter__(self):
        dr.add_observer(self._obs, dr.ComponentType)
        if self.broker is not None:
            self.broker.add_observer(self._obs, dr.ComponentType)
        return self

    def __exit__(self, *a):
        for reg in (getattr(dr, "TYPE_OBSERVERS", None), getattr(self.broker, "observers", None)):
            try:
                reg[dr.ComponentType].discard(self._obs)
            except Exception:
                pass
        return False
