"""
C03 / C04, round 10: the incremental and pooled drivers of insights.core.dr (generate_incremental, run_incremental,
run_all) INCLUDING their broker handling — called without a broker they hand back one broker per connected sub-graph.
Mirrored by IV/Model/Incremental.lean through Drivers/C04.lean (`incr`).  Also: the module-level observer registry
(dr.add_observer / dr.observer -> TYPE_OBSERVERS -> Broker.__init__), Broker(seed_broker), broker.observer().
"""
import random
from concurrent.futures import ThreadPoolExecutor

from insights.core import dr
from harness import dr_world as W


# ----------------------------------------------------------------------------------------------- canonical forms

def shape_problem(b):
    """why `b` cannot be read as a broker (None when it can)"""
    if not isinstance(b, dr.Broker):
        return "handed back %r where a Broker is expected" % (type(b).__name__,)
    for attr in ("instances", "missing_requirements", "exceptions", "tracebacks", "exec_times"):
        if not isinstance(getattr(b, attr, None), dict):
            return "broker.%s is %r, not a dict" % (attr, type(getattr(b, attr, None)).__name__)
    return None


def canon_plain(world, b, foreign=True):
    """instances, missing-dependency reports and the (target, exception) multiset of one broker; order-free"""
    inst = " ".join("%d:%s" % (i, W.canon_val(world, b.instances[c])) for i, c in enumerate(world.comps) if c in b.instances)
    foreign_names = sorted(dr.get_name(c) for c in b.instances if c not in world.ids)
    if foreign and foreign_names:
        inst += " FOREIGN(%s)" % ",".join(foreign_names)
    miss = []
    for i, c in enumerate(world.comps):
        if c in b.missing_requirements:
            m = b.missing_requirements[c]
            if not (isinstance(m, tuple) and len(m) == 2):
                miss.append("%d:?%r" % (i, m))
                continue
            miss.append("%d:%s/%s" % (i, ";".join(str(world.ids.get(x, "?")) for x in m[0]),
                                      "&".join((";".join(str(world.ids.get(x, "?")) for x in g) or "_") for g in m[1])))
    excs = []
    for target, lst in b.exceptions.items():
        t = world.ids.get(target)
        for ex in lst:
            excs.append("%s:%s" % (t if t is not None else "X(%s)" % dr.get_name(target), W.exc_name(ex)))
    return "inst=%s|missing=%s|exc=%s" % (inst, " ".join(miss), " ".join(sorted(excs)))


def reported_keys(world, b, graph):
    """the graph keys a broker says anything about"""
    ks = set(c for c in b.instances if c in graph) | set(c for c in b.missing_requirements if c in graph)
    ks |= set(c for c, lst in b.exceptions.items() if lst and c in graph)
    return ks


def components_of(graph):
    """connected components of the graph (own union-find over the declared edges inside the graph), as frozensets"""
    parent = dict((k, k) for k in graph)

    def find(x):
        while parent[x] is not x:
            parent[x] = parent[parent[x]]
            x = parent[x]
        return x
    for k in graph:
        for d in dr.get_dependencies(k):
            if d in graph:
                a, b = find(k), find(d)
                if a is not b:
                    parent[a] = b
    out = {}
    for k in graph:
        out.setdefault(find(k), set()).add(k)
    return [frozenset(v) for v in out.values()]


def merged(world, brokers):
    """the union of what distinct brokers report + the components reported by more than one of them"""
    class M(object):
        pass
    m = M()
    m.instances, m.missing_requirements, m.exceptions, m.tracebacks = {}, {}, {}, {}
    dup = set()
    seen = []
    for b in brokers:
        if any(b is s for s in seen):
            continue
        seen.append(b)
        for c, v in b.instances.items():
            if c in m.instances:
                dup.add(world.ids.get(c, dr.get_name(c)))
            m.instances[c] = v
        for c, v in b.missing_requirements.items():
            if c in m.missing_requirements:
                dup.add(world.ids.get(c, dr.get_name(c)))
            m.missing_requirements[c] = v
        for c, lst in b.exceptions.items():
            if lst:
                m.exceptions.setdefault(c, []).extend(lst)
    return m, sorted(dup, key=str)


# ----------------------------------------------------------------------------------------------- schedules

def g2(graph):
    return dict((k, set(v)) for k, v in graph.items())


SCHEDULES = ("run_incremental/list", "run_incremental/lazy", "run_all", "run_all/defer", "run_all/threads",
             "generate_incremental+run", "run_incremental(list of components)", "run_all/sync-pool", "run_all/falsy-pool")


class SyncPool(object):
    """a pool that runs every task inside submit()"""
    class _Done(object):
        def __init__(self, v):
            self.v = v

        def result(self):
            return self.v

    def submit(self, fn, *a, **k):
        return SyncPool._Done(fn(*a, **k))


class FalsyPool(SyncPool):
    """a pool object whose truth value is False (it defines __len__): run_all may take it for "no pool"; either way is fine"""
    def __len__(self):
        return 0


def call_schedule(name, world, graph, broker, rng, targets=None, at_yield=None):
    """run one schedule; returns the list of brokers handed back (at_yield(i, b, so_far) is called at every lazy yield)"""
    if name == "run_incremental/list":
        return list(dr.run_incremental(g2(graph), broker))
    if name == "run_incremental/lazy":
        out = []
        gen = dr.run_incremental(components=g2(graph), broker=broker)
        for i, b in enumerate(gen):
            out.append(b)
            if at_yield:
                at_yield(i, b, out)
        return out
    if name == "run_all":
        return dr.run_all(g2(graph), broker)
    if name == "run_all/defer":
        return dr.run_all(g2(graph), broker, W.DeferPool(rng))
    if name == "run_all/sync-pool":
        return dr.run_all(g2(graph), broker, SyncPool())
    if name == "run_all/falsy-pool":
        return dr.run_all(g2(graph), broker=broker, pool=FalsyPool())
    if name == "run_all/threads":
        with ThreadPoolExecutor(max_workers=rng.randint(1, 4)) as tp:
            return dr.run_all(components=g2(graph), broker=broker, pool=tp)
    if name == "generate_incremental+run":
        pairs = list(dr.generate_incremental(g2(graph), broker))
        # all pairs exist before anything is evaluated (what run_all does with a pool); evaluated last to first
        for p in pairs:
            if not (isinstance(p, tuple) and len(p) == 2):
                raise AssertionError("generate_incremental yielded %r, not a (graph, broker) pair" % (p,))
        for sg, b in reversed(pairs):
            dr.run(sg, broker=b)
        return [b for _, b in pairs]
    if name == "run_incremental(list of components)":
        return list(dr.run_incremental([world.comps[t] for t in targets], broker))
    raise ValueError(name)


def fresh_check(world, graph, rng, schedules, targets=None, store_skips=False, seeds=()):
    """
    Every schedule WITHOUT a broker, and with the caller's broker, held to the oracle.  Returns (failures, rows) where
    failures = [(schedule, text)] and rows = [(schedule, passed?, canonical answer for the model tie)].
    """
    fails, rows = [], []
    comps = components_of(graph)
    comp_of = dict((k, c) for c in comps for k in c)
    subs = [frozenset(sg) for sg in dr.get_subgraphs(g2(graph))]      # order of the sub-graphs (priority order)
    # reference: one pass over the whole graph on a new, empty broker (no seeds, skip recording off: what Broker() is)
    world.calls = []
    world.exc_cache.clear()
    ref_b = dr.Broker()
    try:
        dr.run(g2(graph), broker=ref_b)
    except Exception as ex:
        return [("run", "dr.run on an empty broker raised %r" % (ex,))], rows
    ref = canon_plain(world, ref_b)
    ref_calls = sorted(world.calls)
    known_before = [ref_b]
    for name in schedules:
        world.calls = []
        world.exc_cache.clear()
        snaps = []

        def at_yield(i, b, so_far):
            if shape_problem(b) is None:
                snaps.append([canon_plain(world, x) if shape_problem(x) is None else "?" for x in so_far])
        try:
            bs = call_schedule(name, world, graph, None, rng, targets, at_yield)
        except Exception as ex:
            fails.append((name, "%s without a broker raised %r" % (name, ex)))
            continue
        if not isinstance(bs, list):
            fails.append((name, "%s handed back %r, not a list of brokers" % (name, type(bs).__name__)))
            continue
        bad = [shape_problem(b) for b in bs if shape_problem(b)]
        if bad:
            fails.append((name, "%s without a broker: %s" % (name, bad[0])))
            continue
        calls = sorted(world.calls)
        # (a) one broker per connected sub-graph, pairwise DISTINCT objects, none of them an object that existed before
        if len(bs) != len(comps):
            fails.append((name, "%s without a broker handed back %d brokers for %d connected sub-graphs" % (name, len(bs), len(comps))))
        distinct = []
        for b in bs:
            if not any(b is d for d in distinct):
                distinct.append(b)
        if len(distinct) != len(bs):
            fails.append((name, "%s without a broker handed back the SAME broker object for %d of %d sub-graphs (%d distinct objects): "
                          "each sub-graph's results must be in its own broker" % (name, len(bs) - len(distinct) + 1, len(bs), len(distinct))))
        if any(b is k for b in bs for k in known_before):
            fails.append((name, "%s without a broker handed back a broker object that existed before the call" % name))
        # (b) each broker reports exactly its own sub-graph: keys inside one connected sub-graph, different brokers different ones
        owner = {}
        for i, b in enumerate(distinct):
            ks = reported_keys(world, b, graph)
            cs = set(comp_of[k] for k in ks)
            if len(cs) > 1:
                fails.append((name, "%s without a broker: broker #%d reports components of %d different sub-graphs: %s"
                              % (name, i + 1, len(cs), sorted(world.ids[k] for k in ks))))
            for c in cs:
                if c in owner and owner[c] != i:
                    fails.append((name, "%s without a broker: sub-graph %s is reported by two brokers (#%d and #%d)"
                                  % (name, sorted(world.ids[k] for k in c), owner[c] + 1, i + 1)))
                owner.setdefault(c, i)
        # (c) taken together: every component exactly once, and the union is the single-pass result
        m, dup = merged(world, bs)
        if dup:
            fails.append((name, "%s without a broker: component(s) %s are reported by more than one broker" % (name, dup)))
        got = canon_plain(world, m)
        if got != ref:
            fails.append((name, "%s without a broker: the brokers taken together differ from the single pass:\n  dr.run:   %s\n  together: %s"
                          % (name, ref, got)))
        if calls != ref_calls:
            fails.append((name, "%s without a broker called the component bodies %s, the single pass %s" % (name, calls, ref_calls)))
        # (d) lazy consumption: the i-th broker is complete when it is yielded and is not touched afterwards
        if snaps:
            final = [canon_plain(world, x) for x in bs]
            for i, s in enumerate(snaps):
                if s != final[:i + 1]:
                    fails.append((name, "%s without a broker: at its yield #%d the brokers yielded so far held %s, at the end they hold %s"
                                  % (name, i + 1, s, final[:i + 1])))
                    break
        rows.append((name, False, answer(world, bs, None, subs)))
        known_before.extend(distinct)
    # the caller's broker: every sub-graph is evaluated on it and it is the object handed back every time
    for name in schedules:
        world.exc_cache.clear()
        pb = dr.Broker()
        pb.store_skips = store_skips
        for cid, v in seeds:
            pb[world.comps[cid]] = W.uncanon_val(v)
        try:
            bs = call_schedule(name, world, graph, pb, rng, targets)
        except Exception as ex:
            fails.append((name, "%s with a broker raised %r" % (name, ex)))
            continue
        if not isinstance(bs, list) or any(shape_problem(b) for b in bs):
            fails.append((name, "%s with a broker handed back %r" % (name, bs if not isinstance(bs, list) else [type(b).__name__ for b in bs])))
            continue
        if any(b is not pb for b in bs):
            fails.append((name, "%s with a broker handed back %d object(s) that are not the caller's broker" % (name, sum(1 for b in bs if b is not pb))))
        if len(bs) != len(comps):
            fails.append((name, "%s with a broker handed back %d brokers for %d connected sub-graphs" % (name, len(bs), len(comps))))
        rows.append((name, True, answer(world, bs, pb, subs)))
    return fails, rows


def answer(world, bs, pb, subs):
    """the form Drivers/C04 `incr` answers in: identity pattern, the keys of the sub-graphs evaluated on each object, contents"""
    distinct = []
    out = []
    for i, b in enumerate(bs):
        if pb is not None and b is pb:
            ref = 0
        else:
            if not any(b is d for d in distinct):
                distinct.append(b)
            ref = 1 + [j for j, d in enumerate(distinct) if d is b][0]
        keys = set()
        for j, b2 in enumerate(bs):
            if b2 is b and j < len(subs):
                keys |= subs[j]
        out.append("#%d[%s]%s" % (ref, ",".join(str(x) for x in sorted(world.ids[k] for k in keys)), canon_plain(world, b)))
    return " // ".join(out)


def incr_line(world, graph, passed, store_skips, sched="s"):
    ids = world.ids
    gkeys = list(graph)
    prio = lambda x: getattr(next(iter(dr.get_registry_points(x) or [object])), "prio", 0)
    return "incr\t%s\t%s\t%s\t%s\t%s\t%s\t%s\t%s" % (
        "1" if passed else "0", "1" if store_skips else "0",
        ",".join(str(ids[k]) for k in gkeys),
        ";".join("%d:%s" % (ids[k], ",".join(str(ids[d]) for d in dr.get_dependencies(k) if d in ids)) for k in gkeys) or "-",
        ";".join("%d:%s" % (ids[k], ",".join(str(ids[d]) for d in dr.get_dependents(k) if d in ids)) for k in gkeys) or "-",
        ";".join("%d:%d" % (ids[k], prio(k)) for k in gkeys if prio(k)) or "-",
        ",".join(map(str, range(world.n))), sched)


# ----------------------------------------------------------------------------------------------- observers (C03)

class global_observer(object):
    """`dr.add_observer(o, type)` for the time of a with-block (TYPE_OBSERVERS is process-global and additive)"""

    def __init__(self, o, ctype=dr.ComponentType, decorator=False):
        self.o, self.ctype, self.decorator = o, ctype, decorator

    def __enter__(self):
        if self.decorator:
            dr.observer(self.ctype)(self.o)
        else:
            dr.add_observer(self.o, self.ctype)
        return self

    def __exit__(self, *a):
        reg = getattr(dr, "TYPE_OBSERVERS", None)
        if isinstance(reg, dict) and self.ctype in reg:
            try:
                reg[self.ctype].discard(self.o)
            except AttributeError:
                try:
                    reg[self.ctype].remove(self.o)
                except ValueError:
                    pass
        return False


def attributing_observer(world):
    """what World.new_broker installs per broker, as ONE observer for every broker created while it is registered
    module-wide (dr.add_observer): fired components and, per recorded exception occurrence, the step that recorded it"""
    def obs(comp, broker):
        log = broker.__dict__.setdefault("vlog", {"fired": [], "src": {}, "attempts": []})
        cid = world.ids.get(comp)
        log["fired"].append(cid)
        for target, lst in list(broker.exceptions.items()):
            nth = {}
            for ex in lst:
                nth[id(ex)] = nth.get(id(ex), 0) + 1
                key = (id(ex), world.ids.get(target, target), nth[id(ex)])
                if key not in log["src"]:
                    log["src"][key] = cid
    return obs


ENTRIES = ("run_incremental()", "run_all()", "run_all(pool)", "run(Broker(seed))", "run_all(Broker(seed))",
           "run_incremental(Broker(seed))")


def entry_eval(world, seeds, store_skips, graph, entry, rng, failing=None):
    """
    One evaluation through an entry point other than dr.run / run_components, as a dr_world.Run whose `broker` is what the
    entry point leaves behind: for the entries without a broker the UNION of the brokers handed back (seeds: none, skip
    recording: off — that is what a new Broker() is), for the others the caller's broker, built with Broker(seed_broker).
    """
    r = W.Run()
    r.error, r.edges_changed, r.seed_changed = None, None, None
    r.graph = g2(graph)
    world.calls = []
    world.exc_cache.clear()
    del W.RAISED[:]
    edges = world.edge_snapshot()
    r.order = dr.run_order(g2(graph))
    r.order_ids = [world.ids[c] for c in r.order if c in world.ids]
    r.brokers = []
    try:
        if entry in ("run_incremental()", "run_all()", "run_all(pool)"):
            class _nothing(object):
                def __enter__(self):
                    return self

                def __exit__(self, *a):
                    return False
            # `failing`: a module-level observer that raises, taken over by every broker the engine creates
            with global_observer(attributing_observer(world), dr.ComponentType, decorator=(entry == "run_all()")), \
                    (global_observer(failing, dr.ComponentType) if failing is not None else _nothing()):
                if entry == "run_incremental()":
                    bs = list(dr.run_incremental(g2(graph)))
                elif entry == "run_all()":
                    bs = dr.run_all(g2(graph))
                else:
                    bs = dr.run_all(g2(graph), pool=W.DeferPool(rng))
            bad = [shape_problem(b) for b in (bs if isinstance(bs, list) else [bs]) if shape_problem(b)]
            if bad or not isinstance(bs, list):
                raise AssertionError("%s: %s" % (entry, bad[0] if bad else "handed back %r" % type(bs).__name__))
            r.brokers = bs
            m, dup = merged(world, bs)
            m.vlog = {"src": {}, "fired": [], "attempts": []}
            m.store_skips = any(getattr(b, "store_skips", False) for b in bs)
            for b in bs:
                m.vlog["src"].update(getattr(b, "vlog", {}).get("src", {}))
                m.tracebacks.update(b.tracebacks)
            m.duplicates = dup
            r.broker = m
        else:
            sb = world.new_broker(seeds, store_skips)
            pb = dr.Broker(sb)              # instances and observers are taken over from the seed broker
            pb.vlog, pb.vworld, pb.store_skips = sb.vlog, world, store_skips
            if entry == "run(Broker(seed))":
                out = [dr.run(g2(graph), broker=pb)]
            elif entry == "run_all(Broker(seed))":
                out = dr.run_all(g2(graph), broker=pb)
            else:
                out = list(dr.run_incremental(g2(graph), broker=pb))
            if any(o is not pb for o in out):
                raise AssertionError("%s handed back something else than the caller's broker" % entry)
            if any(sb.exceptions.values()) or sb.missing_requirements or len(sb.instances) != len(seeds):
                r.seed_changed = ("evaluating on Broker(seed_broker) also wrote into the SEED broker: it now holds %d values (seeded %d), "
                                  "failures recorded against %d keys, %d missing-dependency reports: results and failures are reported twice"
                                  % (len(sb.instances), len(seeds), sum(1 for v in sb.exceptions.values() if v), len(sb.missing_requirements)))
            r.broker = pb
            r.brokers = [pb]
    except Exception as ex:
        r.error = ex
        r.broker = None
    r.edges_changed = world.edges_changed(edges) or world.edges_inconsistent()
    r.calls = list(world.calls)
    r.raised = list(W.RAISED)
    r.text = canon_plain(world, r.broker) if r.error is None else "ERROR:%s" % type(r.error).__name__
    return r


class debug_logging(object):
    """the engine's loggers switched to DEBUG with a handler that formats every record (dr_world disables logging process-wide):
    the `log.debug(...)` / `log.info(...)` lines of the ladder and of the plugin handlers build their messages for real"""

    NAMES = ("insights.core.dr", "insights.core.plugins")

    def __enter__(self):
        import logging

        class Sink(logging.Handler):
            records, format_errors = 0, 0

            def emit(self, record):
                Sink.records += 1
                try:
                    self.format(record)
                except Exception:
                    Sink.format_errors += 1
        self.sink = Sink(level=logging.DEBUG)
        self.prev_disable = logging.root.manager.disable
        logging.disable(logging.NOTSET)
        self.saved = []
        for n in self.NAMES:
            lg = logging.getLogger(n)
            self.saved.append((lg, lg.level, lg.propagate))
            lg.setLevel(logging.DEBUG)
            lg.propagate = False
            lg.addHandler(self.sink)
        return self.sink

    def __exit__(self, *a):
        import logging
        for lg, level, prop in self.saved:
            lg.removeHandler(self.sink)
            lg.setLevel(level)
            lg.propagate = prop
        logging.disable(self.prev_disable)
        return False
