"""
C14 — base parsers accept well-formed content and reject bad content as documented.

Tie: fresh subclasses of the REAL CommandParser / JSONParser / YAMLParser / TextFileOutput /
LogFileOutput / Syslog (and a few shipped parsers) are constructed through
insights.tests.context_wrap on generated contents; outcome (exception class or the object's
data / lines) is compared with IV.BaseParsers (Drivers/C14.lean).  json / yaml / strptime are
parameters of the model: the driver receives the library's outcome for every text the parser may
hand to it, and the generated log's own time fields for every stamped line.
Oracle: direct statements of the property on the implementation's outcome (see `*_oracle`).
Before anything else the bad-line lists of the LIVE class are re-translated into
lean/IV/Gen/BadLines.lean (translate/badlines.py).
"""
import datetime
import glob
import json
import os

from harness.common import VERIF, REPO, enc, run_driver

from insights.core import (Parser, CommandParser, JSONParser, YAMLParser, TextFileOutput, LogFileOutput,
                           Syslog, SafeLoader)
from insights.core.exceptions import ContentException, ParseException, SkipComponent
from insights.tests import context_wrap
import yaml

# ------------------------------------------------------------------ reference data of the oracle
# the documented error phrases (CommandParser docstrings at the pinned tree); the oracle does NOT
# read them from the class, so dropping one from the class is seen as a violation
REF_SINGLE = ["no such file or directory", "not a directory", "command not found", "no module named",
              "no files found for"]
REF_MULTI = ["missing dependencies:"]

WORDS = ["kernel", "error", "started", "session", "eth0", "failed", "up", "link", "ERROR", "Error", "warn",
         "daemon", "x", "7", "ok", "err", "naïve", "日本", "a:b", "[1]", "{k}"]
SPACES = [" ", "\t", "\u00a0", "\u2003", "\x1c", "\x0b", "\u3000", "\x85"]


def fields_list(xs):
    return [str(len(xs))] + [enc(x) for x in xs]


def dec_lines(fs):
    """inverse of the driver's showLines on a list of fields: -> (lines, rest)"""
    from harness.common import dec
    n = int(fs[0])
    return [dec(f) for f in fs[1:1 + n]], fs[1 + n:]


# ------------------------------------------------------------------ primitives

def primitives(chk, n):
    rng = chk.rng
    cases, lines, impl = [], [], []
    alpha = list("abAZz {[:,\"") + SPACES + ["é", "日", "ß", "_", "0"]
    for _ in range(n):
        k = rng.randrange(3)
        s = "".join(rng.choice(alpha) for _ in range(rng.randint(0, 8)))
        if k == 0:
            cases.append(("lower", s))
            lines.append("lower\t" + enc(s))
            impl.append(enc(s.lower()))
        elif k == 1:
            cases.append(("strip", s))
            lines.append("strip\t" + enc(s))
            impl.append(enc(s.strip()))
        else:
            t = rng.choice([s[1:3], s[:2], "a", "", "ab", s, s + "x"])
            cases.append(("in", t, s))
            lines.append("in\t%s\t%s" % (enc(t), enc(s)))
            impl.append("1" if t in s else "0")
        chk.case(cases[-1], True)
    chk.compare("str-primitives", cases, impl, run_driver("C14", lines))


# ------------------------------------------------------------------ CommandParser

class PlainCmd(CommandParser):
    def parse_content(self, content):
        self.got = content


def extra_cmd(extra):
    class ExtraCmd(CommandParser):
        def __init__(self, context):
            super(ExtraCmd, self).__init__(context, extra_bad_lines=extra)

        def parse_content(self, content):
            self.got = content
    return ExtraCmd


EXTRAS = [None, None, [], ["timed out"], ["unable to establish connection", "invalid option"],
          ["Error:", "failed"], ["daemon"], [""]]
NEAR = ["command not  found", "no such file", "not a director", "missing dependencies", "no module",
        "nosuchfileordirectory", "files found for"]


def rand_case(rng, s):
    k = rng.randrange(4)
    if k == 0:
        return s
    if k == 1:
        return s.upper()
    if k == 2:
        return s.title()
    return "".join(c.upper() if rng.random() < 0.5 else c for c in s)


def gen_text(rng, nwords=4):
    return " ".join(rng.choice(WORDS) for _ in range(rng.randint(0, nwords)))


def gen_cmd_case(rng):
    extra = rng.choice(EXTRAS)
    n = rng.choice([0, 1, 1, 1, 1, 2, 2, 3, 4])
    content = []
    for _ in range(n):
        r = rng.random()
        if r < 0.45:
            pool = REF_SINGLE + REF_MULTI + (extra or []) + NEAR
            ph = rand_case(rng, rng.choice(pool))
            pre, post = gen_text(rng, 2), gen_text(rng, 2)
            sep1 = rng.choice(["", " ", ": ", "bash: "]) if pre else rng.choice(["", "bash: foo: "])
            sep2 = rng.choice(["", " ", "."]) if post else ""
            content.append(pre + sep1 + ph + sep2 + post)
        elif r < 0.5:
            content.append("")
        else:
            content.append(gen_text(rng, 5))
    return {"op": "cmd", "extra": extra, "content": content}


def cmd_impl(case):
    content = list(case["content"])
    cls = PlainCmd if case["extra"] is None else extra_cmd(list(case["extra"]))
    try:
        p = cls(context_wrap(content))
    except ContentException as e:
        return ("CE", str(e))
    except BaseException as e:  # noqa
        return ("EXC", type(e).__name__)
    return ("OK", p.got, cls.__name__)


def cmd_oracle(case, out):
    """None when the property holds, else a description"""
    content, extra = case["content"], case["extra"] or []
    low = [l.lower() for l in content]
    if len(content) == 1:
        bad = any(p in low[0] for p in REF_SINGLE + extra)
    elif len(content) > 1:
        bad = any(p in l for l in low for p in REF_MULTI + extra)
    else:
        bad = False
    if out[0] == "EXC":
        return "exception %s instead of ContentException / a parser object" % out[1]
    if bad and out[0] != "CE":
        return "an error-message output produced a parser object"
    if not bad and out[0] == "CE":
        return "a normal output was rejected with the content error"
    if not bad and out[1] != content:
        return "the content reached parse_content altered: %r" % (out[1],)
    return None


def cmd_canon(out):
    if out[0] == "CE":
        # message is "<class name>: <first line>"
        return "CE\t" + enc(out[1].split(": ", 1)[1] if ": " in out[1] else "\0no-colon")
    if out[0] == "OK":
        return "OK\t" + "\t".join(fields_list(out[1]))
    return "EXC:" + out[1]


def cmd_line(case):
    return "cmd\t" + "\t".join(fields_list(case["extra"] or []) + fields_list(case["content"]))


def shipped_command_parsers():
    out = []
    for mod, name in (("insights.parsers.uptime", "Uptime"), ("insights.parsers.hostname", "Hostname"),
                      ("insights.parsers.date", "Date"), ("insights.parsers.getenforce", "getenforcevalue"),
                      ("insights.parsers.uname", "Uname")):
        try:
            m = __import__(mod, fromlist=[name])
            c = getattr(m, name)
            if isinstance(c, type) and issubclass(c, CommandParser) and "__init__" not in c.__dict__:
                out.append(c)
        except Exception:
            pass
    return out


# ------------------------------------------------------------------ JSON / YAML

class PlainJson(JSONParser):
    pass


class PlainYaml(YAMLParser):
    pass


class IgnYaml(YAMLParser):
    ignore_lines = ("warning:", "note", "#!")


def canon(v, _stack=()):
    """canonical rendering of a loaded value (dict order ignored; recursive structures from YAML aliases closed
    with a marker)"""
    if isinstance(v, (dict, list, tuple, set, frozenset)):
        if id(v) in _stack:
            return "<cycle>"
        st = _stack + (id(v),)
        if isinstance(v, dict):
            return "{" + ",".join(sorted(canon(k, st) + ":" + canon(x, st) for k, x in v.items())) + "}"
        if isinstance(v, (list, tuple)):
            return type(v).__name__[0] + "[" + ",".join([canon(x, st) for x in v]) + "]"
        return "set(" + ",".join(sorted(canon(x, st) for x in v)) + ")"
    if v is None or isinstance(v, (bool, int, float)):
        try:
            return type(v).__name__[0] + repr(v)
        except ValueError:          # int too large to print (str conversion limit)
            return "i#%d" % v.bit_length()
    if isinstance(v, str):
        return json.dumps(v)
    return type(v).__name__ + ":" + repr(v)


def kind_of(v):
    return "N" if v is None else "M" if isinstance(v, dict) else "Q" if isinstance(v, list) else "S"


def lib_json(text):
    try:
        v = json.loads(text)
    except BaseException:  # noqa  (RecursionError included)
        return ("F", "")
    return (kind_of(v), canon(v))


def lib_yaml(text):
    try:
        v = yaml.load(text, Loader=SafeLoader)
    except BaseException:  # noqa
        return ("F", "")
    return (kind_of(v), canon(v))


def table_fields(entries):
    seen, out = set(), []
    for text, (k, r) in entries:
        if text in seen:
            continue
        seen.add(text)
        out += [enc(text), k, enc(r)]
    return [str(len(seen))] + out


KEYS = ["a", "b", "name", "items", "id", "k1", "x y", "0", "é"]
SCALARS = [0, 1, -5, 12345, 1.5, True, False, None, "", "abc", "x y", "{", "[1]", "naïve", "null", "007"]


def gen_value(rng, depth=0):
    r = rng.random()
    if depth >= 3 or r < 0.3:
        return rng.choice(SCALARS)
    if r < 0.65:
        return dict((rng.choice(KEYS), gen_value(rng, depth + 1)) for _ in range(rng.randint(0, 3)))
    return [gen_value(rng, depth + 1) for _ in range(rng.randint(0, 3))]


def gen_container(rng):
    v = gen_value(rng)
    while not isinstance(v, (dict, list)):
        v = gen_value(rng)
    return v


NOISE = ["Loading plugins...", "WARNING: running as root", "[INFO] starting up", "{not json", "  [warn] x",
         "12345", "", "   ", "--- output ---", "time=\"1\" level=info", "null", "\"quoted\"", "a {b} [c]"]


def corrupt(rng, text):
    k = rng.randrange(6)
    if not text:
        return "x"
    i = rng.randrange(len(text))
    if k == 0:
        return text[:i]
    if k == 1:
        return text[:i] + text[i + 1:]
    if k == 2:
        return text + rng.choice(["}", "]", " x", ",", "\n{}"])
    if k == 3:
        return text[:i] + rng.choice(["'", ":", ",,", "\t", "}"]) + text[i:]
    if k == 4:
        return rng.choice(["not json at all", "<xml/>", "{'a': 1}", "[1, 2", "{\"a\": }", "NaN", "Infinity", "-", "tru"])
    return text[i:]


def gen_json_case(rng):
    r = rng.random()
    intent = "plain"
    noise = []
    if r < 0.05:
        content = rng.choice([[], [""], ["   "], ["", ""], ["null"], [" null "], ["", "null"]])
        return {"op": "json", "content": content, "noise": 0, "intent": "empty"}
    if r < 0.50:
        v = gen_container(rng)
    elif r < 0.65:
        v = rng.choice(SCALARS)
    else:
        v = gen_value(rng)
    text = json.dumps(v, indent=rng.choice([None, None, 1, 2]), ensure_ascii=rng.random() < 0.5)
    if rng.random() < 0.15:
        text = rng.choice(["  ", "\t", "\u00a0"]) + text
    if r >= 0.8 or (r >= 0.65 and rng.random() < 0.3):
        text = corrupt(rng, text)
        intent = "corrupt"
    doc = text.split("\n")
    if rng.random() < 0.45:
        noise = [rng.choice(NOISE) for _ in range(rng.randint(1, 3))]
        if intent == "plain" and isinstance(v, (dict, list)):
            intent = "noise+doc"
    if rng.random() < 0.1:
        doc = doc + [""]
    if intent == "noise+doc" and lib_json("\n".join(doc))[0] not in "MQ":
        intent = "corrupt"      # e.g. a no-break space before the document: not JSON white space
    return {"op": "json", "content": noise + doc, "noise": len(noise), "intent": intent}


def doc_impl(cls, content, **kw):
    try:
        p = cls(context_wrap(content, **kw))
    except ContentException as e:  # a SkipComponent subclass: keep it apart
        return ("EXC", "ContentException")
    except SkipComponent:
        return ("SKIP",)
    except ParseException:
        return ("PE",)
    except BaseException as e:  # noqa
        return ("EXC", type(e).__name__)
    return ("DATA", p.data, getattr(p, "unparsed_lines", None))


def doc_canon(out):
    if out[0] == "DATA":
        return "DATA\t%s\t%s" % (enc(canon(out[1])), "none" if out[2] is None else "\t".join(fields_list(out[2])))
    if out[0] == "EXC":
        return "EXC:" + out[1]
    return out[0]


def json_line(case):
    c = case["content"]
    if isinstance(c, str):
        return "jsons\t" + enc(c) + "\t" + "\t".join(table_fields([(c, lib_json(c))]))
    entries = [("\n".join(c[i:]), lib_json("\n".join(c[i:]))) for i in range(len(c))]
    return "json\t" + "\t".join(fields_list(c) + table_fields(entries))


def json_noise_bracket(case):
    c = case["content"]
    return case.get("intent") == "noise+doc" and any(l.strip().startswith(("{", "[")) for l in c[:case["noise"]])


def json_oracle(case, out):
    """-> (description or None, finding id or None)"""
    c = case["content"]
    if out[0] == "EXC":
        return "exception type %s (neither SkipComponent nor ParseException)" % out[1], None
    if case.get("value") is not None and not (out[0] == "DATA" and canon(out[1]) == case["value"]):
        return "the document was rendered from a value the parser did not return (blank lines between tokens): %s" % doc_canon(out)[:60], None
    if isinstance(c, str):
        if not c:
            return (None if out[0] == "SKIP" else "empty document did not signal a skip"), None
        whole = lib_json(c)
        lines = None
    else:
        if not c:
            return (None if out[0] == "SKIP" else "empty content did not signal a skip"), None
        lines = c
        whole = lib_json("\n".join(c))
    if case.get("intent") == "noise+doc":
        k = case["noise"]
        want = lib_json("\n".join(c[k:]))
        assert want[0] in "MQ"
        if out[0] == "DATA" and canon(out[1]) == want[1] and out[2] == c[:k]:
            return None, None
        fid = "json-noise-bracket-line" if json_noise_bracket(case) else None
        return "a valid document preceded by %d noise line(s) gave %s instead of its value with the noise as unparsed_lines" % (
            k, doc_canon(out)[:60]), fid
    if whole[0] == "N":
        return (None if out[0] == "SKIP" else "null document did not signal a skip"), None
    if whole[0] in "MQ":
        if out[0] == "DATA" and canon(out[1]) == whole[1]:
            return None, None
        return "valid document: result differs from json.loads", None
    if whole[0] == "S":
        if out[0] == "PE":
            return None, None
        if out[0] == "DATA" and canon(out[1]) == whole[1]:
            return "scalar document returned as data instead of a parse error", "json-scalar-accepted"
        return "scalar document: neither parse error nor its value", None
    # not a document as a whole: parse error, unless a mapping/sequence document follows leading junk lines
    if out[0] == "PE":
        return None, None
    if out[0] == "DATA" and lines is not None and out[2] is not None:
        k = len(out[2])
        rest = lib_json("\n".join(lines[k:]))
        if out[2] == lines[:k] and rest[0] in "MQ" and canon(out[1]) == rest[1]:
            return None, None
    return "not a document, yet the parser answered %s" % doc_canon(out)[:60], None


YAML_JUNK = ["a: b: c", "[1, 2", "{a: 1", "key: value\n- item", "\tfoo: bar", "@foo", "hello", "123", "true", "3.14",
             "2020-01-01", "!!set {a, b}", "!!python/object:os.system {}", "&a [*a, *b]", "a: 1\na: 2", "- - - x",
             "? a\n: b", "x: !!binary aGk=", "'unterminated", "a:\n  - b\n c: d", "%YAML 3.0\n---\na: 1", "- 1\n- 2\n...\n- 3",
             "---\na: 1\n---\nb: 2", "a: 1 # c", "*undefined"]
YAML_EMPTY = [[], [""], ["# only a comment"], ["---"], ["~"], ["null"], ["   ", ""], ["..."], ["--- ~"]]
IGNORABLE = ["WARNING: something happened", "  Note that x", "warning:", "Notes: []", "#!/bin/sh", "NOTE"]


# ---- well-formed documents whose TYPED SCALARS cannot be constructed (PyYAML's constructors raise plain
# ValueError / AttributeError / KeyError, not YAMLError), plus neighbours that can, anchors / aliases / merge keys,
# tabs and flow edge cases, explicit tags, deep flow nesting.  The oracle never predicts: it asks the library.
YAML_TYPED_BAD = ["2019-02-30", "2019-13-01", "2001-12-14t25:61:61", "2001-12-14 21:59:43.10 -25:99", "0000-01-01",
                  "2019-02-29", "2023-04-31 10:00:00", "2023-01-01 24:00:00", "2023-01-01T23:59:60Z", "!!int abc",
                  "!!float abc", "!!timestamp nope", "!!bool maybe", "!!int 0b12", "!!int 0x", "!!float 1.2.3",
                  "!!timestamp 2019-02-30", "!!int ''", "!!int 1:99x", "9" * 5000, "!!int 1" + "0" * 4400, "-0b" + "1" * 20000]
YAML_TYPED_OK = ["2020-02-29", "2019-12-31 23:59:59", "2001-12-14t21:59:43.10-05:00", "!!binary aGk=", "!!binary '@@@'",
                 "1e999999", "!!float 1e99999999999", ".inf", "-.INF", ".nan", "1_000", "190:20:30", "0o8", "0x", "!!str 123",
                 "!!null x", "99999-01-01", "!!set {a}", "!!omap [a: 1]", "~", "!!int 0b11", "!!bool yes", "!!timestamp 2019-02-28",
                 "9" * 4000, "1.5e3", "0x1F", "010", "+12", "y", "No"]
YAML_STRUCT = ["a: &a [*a]", "&a [*a, *a]", "a: &x 1\nb: &x 2\nc: *x", "a: *undefined", "<<: 1", "a:\n  <<: [1, 2]",
               "b: &b {x: 1}\na:\n  <<: *b\n  y: 2", "b: &b {x: 1}\na:\n  <<: [*b, 3]", "a:\n  <<: *nope",
               "b: &b {x: 1}\nc: &c {y: 2}\na:\n  <<: [*b, *c]", "a: &a [x, x]\nb: &b [*a, *a]\nc: [*b, *b]",
               "a: &a {k: *a}", "a:\t1", "{a: 1,\t b: 2}", "a:\n\tb: 1", "- \t- x", "{a: 1, }", "[1, , 2]", "[1,2", "{a: [}",
               "{[1, 2]: x}", "? [1, 2]\n: x", "? {a: 1}\n: x", "{? a}", "[a: 1]", "{a}", "a: 'x'y", "x: !!seq {a: 1}",
               "x: !!map [1]", "!!python/tuple [1]", "x: !!python/object:os.system {}", "!!python/name:os.system ''",
               "x: !unknown y", "!!str\n- a", "x: !!pairs [a: 1, a: 2]", "x: !!set [a]", "x: !!omap {a: 1}", "x: !!omap [1]",
               "{a: 1, a: 2}", "? !!int abc\n: 1", "- !!float [1]", "x: !!int {a: 1}", "x: !!timestamp [2019]"]
YAML_PLACE = ["%s", "k: %s", "- %s", "a:\n  b:\n    - 1\n    - %s", "a:\n  - b: %s\n    c: 2", "{a: [1, {b: [2, {c: %s}]}]}",
              "[%s, 2]", "%s: v", "? %s\n: v", "- - - %s", "x: &a %s\ny: *a", "---\nk: %s\n...", "k: %s # comment",
              "a: 1\nb:\n  c: {d: %s}"]


def gen_yaml_typed_case(rng):
    r = rng.random()
    if r < 0.62:
        leaf = rng.choice(YAML_TYPED_BAD) if rng.random() < 0.65 else rng.choice(YAML_TYPED_OK)
        text = rng.choice(YAML_PLACE) % leaf
    elif r < 0.9:
        text = rng.choice(YAML_STRUCT)
    else:
        d = rng.choice([3, 40, 150])
        leaf = rng.choice(YAML_TYPED_BAD[:19] + YAML_TYPED_OK[:8])
        text = ("[" * d + leaf + "]" * d) if rng.random() < 0.5 else ("{a: " * d + leaf + "}" * d)
    if rng.random() < 0.35:
        return {"op": "yaml", "str": True, "ign": False, "base": text, "content": text, "intent": "typed-str"}
    base = text.split("\n")
    content = list(base)
    ign = rng.random() < 0.25
    if ign:
        for _ in range(rng.randint(1, 2)):
            content.insert(rng.randint(0, len(content)), rng.choice(IGNORABLE))
    return {"op": "yaml", "ign": ign, "base": base, "content": content, "intent": "typed"}


JSON_TYPED = ["9" * 5000, "-" + "9" * 4400, "9" * 4300, "1E400", "1e999999", "-1e-999999", "NaN", "-Infinity", "\"\\ud800\"",
              "\"\\u0000\"", "1.0e+", "0x10", "01", "1_000", "+1", ".5", "1.", "\"\\x41\"", "'a'", "True", "nul", "1" + "0" * 4299,
              "1." + "0" * 5000, "\"\\udc00\\ud800\"", "-", "--1", "1e", "\"\t\""]
JSON_PLACE = ["%s", "[%s]", "{\"a\": %s}", "{\"a\": [1, {\"b\": [%s]}]}", "{\"a\": 1, \"a\": %s}", "[\n  %s\n]",
              "{\n \"k\": [\n  %s,\n  2\n ]\n}", "[1, %s"]


def gen_json_typed_case(rng):
    leaf = rng.choice(JSON_TYPED)
    r = rng.random()
    if r < 0.85:
        text = rng.choice(JSON_PLACE) % leaf
    else:
        d = rng.choice([3, 40, 150])
        text = "[" * d + leaf + "]" * d
    if rng.random() < 0.35:
        return {"op": "json", "content": text, "noise": 0, "intent": "typed-str"}
    lines = text.split("\n")
    if rng.random() < 0.25:
        lines = [rng.choice(["Loading plugins...", "WARNING: running as root", "--- output ---"])] + lines
    return {"op": "json", "content": lines, "noise": 0, "intent": "typed"}


# ---- documents in which blank / whitespace-only LINES are content: literal and folded block scalars, multi-line
# quoted and plain scalars, blank lines and comments between entries.  Values carry strings with "\n", "\n\n",
# trailing newlines, lines of spaces, leading / trailing spaces; rendered by yaml.safe_dump in every scalar style
# and several widths, plus hand-written block forms; split into lines as the parser receives them.
STR_PIECES = ["a", "x y", " lead", "trail ", "  ", "", "", "note this", "Warning: w", "# not a comment", "k: v", "- item",
              "日本", "tab\there", "long " * 6 + "end", "'q' \"d\"", "   deep indent", "...", "---"]
BLOCK_FORMS = ["a: |\n  line1\n\n  line3\n", "a: |-\n  x\n\n\n", "a: |+\n  x\n\n\nb: 1", "a: >\n  folded\n  text\n\n  next para\n",
               "a: >-\n  x\n\n  y\n\n", "- |\n  x\n  \n  y", "a: \"first\n\n  second\"\n", "a: 'it''s\n\n  two'\n",
               "a: |2\n    indented\n\n  less\n", "k:\n  - >+\n    p\n\n  - z", "# comment\n\na: 1\n\n# c2\nb:\n\n  - 1\n\n  - 2\n",
               "a: |\n  x\n  # not a comment\n\n   \nb: 2", "---\n\na: |\n\n  x\n...\n", "a: plain\n  continued\n\n  after blank",
               "a: |\n\n\n  x\n\n", "a: >\n\n  x\n   more indented\n\n  y\n", "- \"a\\\n  \n  b\"", "a: |+\n\nb: |-\n\nc: |\n\n",
               "a: |\n  note this\n\n  Warning: w\nb: 1", "a:\n  b: >\n    WARNING: folded\n\n    x\n  c: |\n    \n    y\n",
               "a: 'x\n  \n  \n  y'", "? |\n  key\n\n  two\n: v", "a: [1,\n\n  2,\n   \n  3]", "{a: 1,\n\n b: \"x\n\n y\"}"]
BLANKS = ["", "", "   ", "\t", " \t "]


def gen_blank_string(rng):
    s = "\n".join(rng.choice(STR_PIECES) for _ in range(rng.randint(1, 5)))
    r = rng.random()
    return s + ("\n" if r < 0.25 else "\n\n" if r < 0.4 else "")


def gen_blank_value(rng):
    s = [gen_blank_string(rng) for _ in range(3)]
    return rng.choice([{"k": s[0]}, [s[0], s[1]], {"a": {"b": [s[0], 1]}}, {"a": s[0], "b": 1, "c": s[1]}, [[s[0]], {"x": s[1]}],
                       {"items": [{"name": s[0], "id": 1}, {"name": s[1], "id": 2}]}, [s[0]], {s[2][:12]: s[0]}])


def yaml_remaining(lines, prefixes):
    """the documented pre-processing, written independently: remove exactly the lines whose text after leading
    white space starts (case-insensitively) with one of the prefixes; keep every other line, blank ones included"""
    return [l for l in lines if not (prefixes and l.lstrip().lower().startswith(tuple(prefixes)))]


def gen_yaml_blank_case(rng):
    value = None
    if rng.random() < 0.7:
        v = gen_blank_value(rng)
        text = yaml.safe_dump(v, default_style=rng.choice([None, None, "|", ">", '"', "'"]), width=rng.choice([10, 20, 80, 1000]),
                              default_flow_style=rng.choice([False, False, None]), indent=rng.choice([2, 4]),
                              allow_unicode=rng.random() < 0.7)
        value = canon(v)
    else:
        text = rng.choice(BLOCK_FORMS)
    if rng.random() < 0.3:
        return {"op": "yaml", "str": True, "ign": False, "base": text, "content": text, "intent": "blank-str", "value": value}
    lines = text.split("\n") if rng.random() < 0.7 else text.splitlines()
    if value is not None and "\n".join(lines) != text:
        value = None            # splitlines() dropped a final empty line: the joined text is another document
    r = rng.random()
    if r < 0.35:                # comments / blank lines / ignorable lines around and inside: the reference follows the text
        value = None
        for _ in range(rng.randint(1, 3)):
            lines.insert(rng.randint(0, len(lines)), rng.choice(BLANKS + ["# comment", "  # indented comment"] + IGNORABLE))
    ign = rng.random() < 0.5
    base = yaml_remaining(lines, IgnYaml.ignore_lines if ign else ())
    if len(base) != len(lines):
        value = None            # a content line matches a prefix: the reference is the load of the remaining lines
    return {"op": "yaml", "ign": ign, "base": base, "content": lines, "intent": "blank", "value": value}


def gen_json_blank_case(rng):
    v = gen_container(rng) if rng.random() < 0.5 else gen_blank_value(rng)
    text = json.dumps(v, indent=rng.choice([1, 2, 4]), ensure_ascii=rng.random() < 0.5)
    doc = text.split("\n")
    for _ in range(rng.randint(1, 4)):
        doc.insert(rng.randint(1, len(doc)), rng.choice(BLANKS))
    if rng.random() < 0.25:
        t = "\n".join(doc)
        return {"op": "json", "content": t, "noise": 0, "intent": "blank-str", "value": canon(v)}
    noise = []
    if rng.random() < 0.4:
        noise = [rng.choice(BLANKS + ["Loading plugins...", "WARNING: running as root", "--- output ---"]) for _ in range(rng.randint(1, 3))]
    return {"op": "json", "content": noise + doc, "noise": len(noise), "intent": "noise+doc" if noise else "blank", "value": canon(v)}


def gen_yaml_case(rng):
    r = rng.random()
    ign = rng.random() < 0.4
    if r < 0.08:
        base = list(rng.choice(YAML_EMPTY))
    elif r < 0.3:
        base = rng.choice(YAML_JUNK).split("\n")
    else:
        v = gen_container(rng) if r < 0.8 else rng.choice(SCALARS)
        text = yaml.safe_dump(v, default_flow_style=rng.choice([False, True, None]), allow_unicode=rng.random() < 0.5)
        if r >= 0.9:
            text = corrupt(rng, text)
        base = text.split("\n")
        if base and base[-1] == "":
            base.pop()
    content = list(base)
    if ign:
        for _ in range(rng.randint(1, 3)):
            content.insert(rng.randint(0, len(content)), rng.choice(IGNORABLE))
    return {"op": "yaml", "ign": ign, "base": base, "content": content}


def yaml_line(case):
    ignore = list(IgnYaml.ignore_lines) if case["ign"] else []
    c = case["content"]
    if isinstance(c, str):
        return "yamls\t" + enc(c) + "\t" + "\t".join(table_fields([(c, lib_yaml(c))]))
    entries = [("\n".join(c), lib_yaml("\n".join(c))), ("\n".join(case["base"]), lib_yaml("\n".join(case["base"])))]
    return "yaml\t" + "\t".join(fields_list(ignore) + fields_list(c) + table_fields(entries))


def yaml_oracle(case, out):
    if out[0] == "EXC":
        return "exception type %s (neither SkipComponent nor ParseException)" % out[1]
    # with ignore_lines the inserted lines are dropped: the document is `base`
    want = lib_yaml(case["base"] if isinstance(case["base"], str) else "\n".join(case["base"]))
    if case.get("value") is not None and want[1] == case["value"] and not (out[0] == "DATA" and canon(out[1]) == case["value"]):
        # rendered from a generated value, no line matches an ignore prefix, the library round-trips it
        return "data differs from the value the document was rendered from (blank lines are content): %s" % doc_canon(out)[:80]
    if want[0] == "N":
        return None if out[0] == "SKIP" else "empty/null document did not signal a skip"
    if want[0] in "MQ":
        return None if (out[0] == "DATA" and canon(out[1]) == want[1]) else "valid document: result differs from yaml.load"
    return None if out[0] == "PE" else "neither mapping nor sequence (or not YAML), yet the parser answered %s" % doc_canon(out)[:60]


# ------------------------------------------------------------------ get / in

class PlainText(TextFileOutput):
    pass


class PlainLog(LogFileOutput):
    pass


class PlainSyslog(Syslog):
    pass


TERM_POOL = ["error", "kernel", "err", "k", "", "ERROR", "eth0", "rn", "l e", "failed", "zzz", "日本", " "]


def gen_term(rng, allow_empty_list=True):
    r = rng.random()
    if r < 0.45:
        return rng.choice(TERM_POOL)
    if r < 0.5 and allow_empty_list:
        return []
    return [rng.choice(TERM_POOL) for _ in range(rng.randint(1, 3))]


def term_fields(t):
    if isinstance(t, str):
        return ["1", enc(t)]
    return ["L"] + fields_list(t)


def plain_pred(term, check):
    if isinstance(term, str):
        return lambda l: term in l
    if check == "all":
        return lambda l: all(w in l for w in term)
    return lambda l: any(w in l for w in term)


def gen_get_case(rng):
    n = rng.choice([0, 1, 2, 4, 6, 9, 12])
    lines = [gen_text(rng, 5) for _ in range(n)]
    if n and rng.random() < 0.3:
        lines[rng.randrange(n)] = lines[rng.randrange(n)]  # duplicates
    term = gen_term(rng)
    src = [l for l in lines if l]
    if src and rng.random() < 0.6:      # terms taken from the text, so that most searches hit
        l = rng.choice(src)
        ws = l.split(" ")
        i = rng.randrange(len(l))
        pick = lambda: rng.choice([rng.choice(ws), l[i:i + rng.randint(1, 4)], rng.choice(ws)[:2]])  # noqa
        term = pick() if rng.random() < 0.5 else [pick() for _ in range(rng.randint(1, 3))]
        if not isinstance(term, str) and rng.random() < 0.3:
            term.append(rng.choice(TERM_POOL))
    return {"op": "get", "cls": rng.choice(["text", "log", "syslog"]), "lines": lines, "term": term,
            "check": rng.choice(["all", "all", "any"]), "num": rng.choice([None, None, None, -1, 0, 1, 1, 2, 3, 100]),
            "reverse": rng.random() < 0.4, "scan": rng.random() < 0.35}


GET_CLASSES = {"text": PlainText, "log": PlainLog, "syslog": PlainSyslog}


def get_impl(case):
    """-> (get result or 'TE', `in` result or 'TE', scanner attributes or None)"""
    base = GET_CLASSES[case["cls"]]
    chk_fn = all if case["check"] == "all" else any
    term = case["term"]
    term = list(term) if isinstance(term, list) else term
    scans = None
    cls = base
    if case.get("scan"):
        cls = type("Scanned", (base,), {})
        cls.keep_scan("kept", term, check=chk_fn, num=case["num"], reverse=case["reverse"])
        cls.last_scan("last", term, check=chk_fn)
        cls.token_scan("tok", term, check=chk_fn)
    try:
        obj = cls(context_wrap(list(case["lines"])))
    except TypeError:
        return ("TE", "TE", "TE")
    except BaseException as e:  # noqa
        return ("EXC:" + type(e).__name__,) * 3
    try:
        g = [d["raw_message"] for d in obj.get(term, check=chk_fn, num=case["num"], reverse=case["reverse"])]
    except TypeError:
        g = "TE"
    except BaseException as e:  # noqa
        g = "EXC:" + type(e).__name__
    try:
        h = term in obj
    except TypeError:
        h = "TE"
    except BaseException as e:  # noqa
        h = "EXC:" + type(e).__name__
    if case.get("scan"):
        scans = ([d["raw_message"] for d in obj.kept], obj.last.get("raw_message") if obj.last else None, obj.tok)
    return (g, h, scans)


def get_expected(case):
    """plain filtering, written without the implementation's helpers"""
    term = case["term"]
    if isinstance(term, list) and not term:
        return "TE", "TE"
    p = plain_pred(term, case["check"])
    hit = [l for l in case["lines"] if p(l)]
    num = case["num"]
    if num is not None:
        n = max(num, 0)
        hit = hit[max(len(hit) - n, 0):] if case["reverse"] else hit[:n]
    pa = plain_pred(term, "all")
    return hit, any(pa(l) for l in case["lines"])


def get_oracle(case, out):
    g, h, scans = out
    for x in (g, h):
        if isinstance(x, str) and x.startswith("EXC"):
            return "unexpected exception %s" % x
    wg, wh = get_expected(case)
    if g != wg:
        return "get() is not plain filtering: %r, expected %r" % (g, wg)
    if h != wh:
        return "`in` gave %r, expected %r" % (h, wh)
    if scans is not None and scans != "TE":
        p = plain_pred(case["term"], case["check"])
        hit = [l for l in case["lines"] if p(l)]
        if scans[0] != wg:
            return "keep_scan attribute differs from get(): %r" % (scans[0],)
        if scans[1] != (hit[-1] if hit else None):
            return "last_scan attribute is not the last matching line: %r" % (scans[1],)
        if scans[2] != bool(hit):
            return "token_scan attribute wrong: %r" % (scans[2],)
    return None


def get_lines(case):
    chkf = "A" if case["check"] == "all" else "O"
    num = "N" if case["num"] is None else str(case["num"])
    tf = term_fields(case["term"])
    ls = fields_list(case["lines"])
    out = ["get\t" + "\t".join([chkf, num, "1" if case["reverse"] else "0"] + tf + ls),
           "has\tA\t" + "\t".join(tf + ls)]
    if case.get("scan"):
        out.append("get\t" + "\t".join([chkf, "1", "1"] + tf + ls))
        out.append("has\t" + chkf + "\t" + "\t".join(tf + ls))
    return out


def get_canon_impl(case, out):
    g, h, scans = out

    def gl(x):
        return x if isinstance(x, str) else "OK\t" + "\t".join(fields_list(x))

    def hb(x):
        return x if isinstance(x, str) else ("1" if x else "0")
    res = [gl(g), hb(h)]
    if case.get("scan"):
        if scans == "TE" or scans is None:
            res += ["TE", "TE"]
        else:
            # kept is compared through the oracle (it equals get); last/tok against the model
            res += [gl([scans[1]] if scans[1] is not None else []), hb(scans[2])]
    return res


# ------------------------------------------------------------------ get_after

MONTHS = ["Jan", "Feb", "Mar", "Apr", "May", "Jun", "Jul", "Aug", "Sep", "Oct", "Nov", "Dec"]


def r_iso(t):
    return "%04d-%02d-%02d %02d:%02d:%02d" % (t.year, t.month, t.day, t.hour, t.minute, t.second)


def r_syslog(t):
    return "%s %2d %02d:%02d:%02d" % (MONTHS[t.month - 1], t.day, t.hour, t.minute, t.second)


def r_syslog0(t):
    return "%s %02d %02d:%02d:%02d" % (MONTHS[t.month - 1], t.day, t.hour, t.minute, t.second)


def r_apache(t):
    return "%02d/%s/%04d:%02d:%02d:%02d" % (t.day, MONTHS[t.month - 1], t.year, t.hour, t.minute, t.second)


def r_samba(t):
    return "%s %02d %02d:%02d:%02d %04d" % (MONTHS[t.month - 1], t.day, t.hour, t.minute, t.second, t.year)


def r_micro(t):
    return "%04d-%02d-%02dT%02d:%02d:%02d.%06d" % (t.year, t.month, t.day, t.hour, t.minute, t.second, t.microsecond)


def r_mysql(t):
    return "%02d%02d%02d %02d:%02d:%02d" % (t.year % 100, t.month, t.day, t.hour, t.minute, t.second)


def r_md(t):
    return "%02d-%02d %02d:%02d:%02d" % (t.month, t.day, t.hour, t.minute, t.second)


def r_time(t):
    return "%02d:%02d:%02d" % (t.hour, t.minute, t.second)


# name -> (time_format, [(renderer, has_year, has_date, has_micro)], base class name)
FORMATS = {
    "iso": ("%Y-%m-%d %H:%M:%S", [(r_iso, True, True, False)], "log"),
    "syslog": (None, [(r_syslog, False, True, False), (r_syslog0, False, True, False)], "syslog"),
    "messages": (None, [(r_syslog, False, True, False)], "messages"),
    "secure": (None, [(r_syslog, False, True, False)], "secure"),
    "apache": ("%d/%b/%Y:%H:%M:%S", [(r_apache, True, True, False)], "log"),
    "samba": ("%b %d %H:%M:%S %Y", [(r_samba, True, True, False)], "log"),
    "micro": ("%Y-%m-%dT%H:%M:%S.%f", [(r_micro, True, True, True)], "log"),
    "mariadb": ({"pre_10.1.5": "%y%m%d %H:%M:%S", "post_10.1.5": "%Y-%m-%d %H:%M:%S"},
                [(r_mysql, True, True, False), (r_iso, True, True, False)], "log"),
    "md": ("%m-%d %H:%M:%S", [(r_md, False, True, False)], "log"),
    "yearless-list": (["%b %d %H:%M:%S", "%m-%d %H:%M:%S"], [(r_syslog, False, True, False), (r_md, False, True, False)], "log"),
    # correspondence only (no oracle): time-only format, and a list mixing formats with and without year
    "timeonly": ("%H:%M:%S", [(r_time, False, False, False)], "log"),
    "mixed-list": (["%Y-%m-%d %H:%M:%S", "%b %d %H:%M:%S"], [(r_iso, True, True, False), (r_syslog, False, True, False)], "log"),
}
BASE_FORMATS = list(FORMATS)        # the formats of the one-call stream
# formats of the HISTORY stream: pairs under which the SAME stamp text is a valid but DIFFERENT date (day-first vs
# month-first, %y%m%d vs %d%m%y, with vs without year); lines are built by gen_history, not by a renderer
HIST_FORMATS = {
    "h-dmy": ("%d/%m/%Y %H:%M:%S", True), "h-mdy": ("%m/%d/%Y %H:%M:%S", True),
    "h-ymd6": ("%y%m%d %H:%M:%S", True), "h-dmy6": ("%d%m%y %H:%M:%S", True),
    "h-bd": ("%b %d %H:%M:%S", False), "h-bdY": ("%b %d %H:%M:%S %Y", True),
    "h-md": ("%m/%d %H:%M:%S", False), "h-dm": ("%d/%m %H:%M:%S", False),
}
HIST_PAIRS = [("h-dmy", "h-mdy"), ("h-ymd6", "h-dmy6"), ("h-bd", "h-bdY"), ("h-md", "h-dm")]
for _k, (_tf, _hy) in HIST_FORMATS.items():
    FORMATS[_k] = (_tf, [(None, _hy, True, False)], "log")
ORACLE_FORMATS = [k for k in FORMATS if k not in ("timeonly", "mixed-list")]
_CLS_CACHE = {}


def log_class(fmt):
    if fmt in _CLS_CACHE:
        return _CLS_CACHE[fmt]
    tf, _, base = FORMATS[fmt]
    if base == "syslog":
        c = PlainSyslog
    elif base == "messages":
        from insights.parsers.messages import Messages as c
    elif base == "secure":
        from insights.parsers.secure import Secure as c
    else:
        c = type("Log_" + fmt.replace("-", "_"), (LogFileOutput,), {"time_format": tf})
    _CLS_CACHE[fmt] = c
    return c


def pivot_year(yy):
    """what a two-digit year written with %y denotes (POSIX / _strptime pivot): 00-68 -> 2000-2068, 69-99 -> 1969-1999"""
    return 2000 + yy if yy <= 68 else 1900 + yy


Y2_RENDERERS = {"r_mysql": 0}      # renderers writing the year with two digits -> offset of the two digits in the rendered stamp


def denoted(rend, t):
    """(the time the rendered stamp DENOTES in its format, the two digits of the year or None).  For %y forms the
    year is read back from the rendered text with the pivot rule: a year outside 1969-2068 is not representable.
    None when the denoted date does not exist (Feb 29 moved to a non-leap year)."""
    off = Y2_RENDERERS.get(rend.__name__)
    if off is None:
        return t, None
    yy = int(rend(t)[off:off + 2])
    try:
        return t.replace(year=pivot_year(yy)), yy
    except ValueError:
        return None, yy


def fmt_has_year(fmt):
    return all(r[1] for r in FORMATS[fmt][1])


MSG = ["kernel: link up", "sshd[1]: error opening", "proc: started ok", "host app: failed at 10:5", "x", "port 8080 open",
       "error", "  at line 12", "\tcontinued error text", "", "Caused by: failed", "Jan", "retry 3 of 5: error"]
PREFIX = ["", "", "", "[", "host1 ", "<6>"]


def gen_threshold(rng):
    r = rng.random()
    y = rng.choice([1971, 1999, 2000, 2019, 2020, 2023, 2024, 2024, 2025, 2028, 2067])
    if r < 0.3:
        mo, d = rng.choice([(1, 1), (1, 2), (1, 5), (12, 27), (12, 31), (12, 30), (1, 25), (12, 5)])
    elif r < 0.5:
        mo, d = rng.choice([(2, 27), (2, 28), (3, 1), (3, 2), (2, 1)])
    else:
        mo, d = rng.randint(1, 12), rng.randint(1, 28)
    us = rng.choice([0, 0, 0, 0, 500000, 1])
    return datetime.datetime(y, mo, d, rng.choice([0, 0, 12, 23]), rng.choice([0, 30, 59]), rng.choice([0, 0, 59]), us)


def gen_after_case(rng, fmt=None, thr=None, far=False):
    fmt = fmt or rng.choice(BASE_FORMATS)
    rends = FORMATS[fmt][1]
    thr = thr or gen_threshold(rng)
    n = rng.choice([0, 1, 1, 2, 3, 5, 8, 12])
    lines = []
    cur = thr + datetime.timedelta(days=rng.choice([-40, -20, -3, -1, -1, 0, 0, 0, 1, 10]), seconds=rng.randint(-5000, 5000))
    chrono = rng.random() < 0.6
    for _ in range(n):
        if rng.random() < 0.62:
            r = rng.random()
            if chrono and not far:
                cur = cur + datetime.timedelta(seconds=rng.choice([0, 1, 60, 3600, 86400, 86400 * 3, 86400 * 9]))
                t = cur
            elif r < 0.2:
                t = thr
            elif r < 0.35:
                t = thr + datetime.timedelta(seconds=rng.choice([-1, 1]))
            elif r < 0.45:
                t = thr + datetime.timedelta(microseconds=rng.choice([-1, 1, -500000, 500000]))
            elif far and r < 0.7:   # years on both sides of the %y pivot window
                t = thr.replace(year=rng.choice([1967, 1968, 1969, 1970, 1999, 2000, 2001, 2067, 2068, 2069, 2070]), day=min(thr.day, 28))
            elif r < 0.85:
                t = thr + datetime.timedelta(seconds=rng.randint(-20 * 86400, 34 * 86400))
            else:
                t = thr + datetime.timedelta(seconds=rng.randint(-420 * 86400, 420 * 86400))
            if rng.random() < 0.08:
                t = t.replace(microsecond=0) if t == thr else t
            rend, hy, hd, hm = rng.choice(rends)
            if not hm:
                t = t.replace(microsecond=0)
            stamp_text = rend(t)
            t, yy = denoted(rend, t)         # what the text denotes: for %y forms the pivoted year
            if t is None:
                lines.append({"text": rng.choice(MSG), "t": None})
                continue
            text = rng.choice(PREFIX) + stamp_text + " " + rng.choice(MSG)
            if rng.random() < 0.05:
                t2 = t + datetime.timedelta(days=rng.choice([-50, 50]))
                text += " (was " + rend(t2) + ")"
            lines.append({"text": text, "t": [t.year, t.month, t.day, t.hour, t.minute, t.second, t.microsecond],
                          "hy": hy, "hd": hd, "yy": yy})
        else:
            lines.append({"text": rng.choice(MSG), "t": None})
    s = rng.choice([None, None, None, None, None, None, "error", "", ["error"], ["error", "failed"], "kernel", [], ["r", "e"], "o", " "])
    return {"op": "after", "fmt": fmt, "thr": [thr.year, thr.month, thr.day, thr.hour, thr.minute, thr.second, thr.microsecond],
            "s": s, "lines": lines}


def normalise_after(case):
    """records written before two-digit years were tracked (no "yy" key): read the two digits back from the text of
    a %y%m%d stamp and let the line denote the pivoted year"""
    import re
    if case.get("fmt") != "mariadb":
        return case
    for l in case["lines"]:
        if l.get("t") and "yy" not in l:
            m = re.search(r"(?<!\d)(\d{2})(\d{2})(\d{2}) \d{2}:\d{2}:\d{2}|\d{4}-\d{2}-\d{2} \d{2}:\d{2}:\d{2}", l["text"])
            if m and m.group(1) is not None:
                l["yy"] = int(m.group(1))
                l["t"] = [pivot_year(l["yy"])] + list(l["t"][1:])
            else:
                l["yy"] = None
    return case


def after_impl(case):
    cls = log_class(case["fmt"])
    thr = datetime.datetime(*case["thr"])
    s = case["s"]
    s = list(s) if isinstance(s, list) else s
    try:
        obj = cls(context_wrap([l["text"] for l in case["lines"]]))
        return [d["raw_message"] for d in obj.get_after(thr, s)]
    except (ValueError, UnboundLocalError):
        # the conversion of a matched stamp raised: ValueError from strptime / replace; with a list or dict
        # of formats every strptime fails and `return ts` raises UnboundLocalError (line 1351)
        return "VE"
    except TypeError:
        return "TE"
    except BaseException as e:  # noqa
        return "EXC:" + type(e).__name__


# ---- several parsers built one after the other from the SAME context object (all parsers of one spec): each outcome
# must be what it is when the parser is built alone from a fresh context; nothing is carried on the context

class PlainParser(Parser):
    def parse_content(self, content):
        self.got = content


CTX_EXTRAS = [["timed out"], ["invalid option"], ["unable to establish connection", "daemon"], ["failed"], [], None]


def gen_ctx_history(rng):
    ex = rng.sample(CTX_EXTRAS, 3)
    pool = [p_ for e in ex if e for p_ in e]
    content = []
    for _ in range(rng.choice([1, 1, 1, 2, 3])):
        r = rng.random()
        if r < 0.35 and pool:
            ph = rand_case(rng, rng.choice(pool))       # an extra bad line of only one (or two) of the parsers
        elif r < 0.55:
            ph = rand_case(rng, rng.choice(REF_SINGLE + REF_MULTI))
        elif r < 0.65:
            content.append(json.dumps(gen_container(rng)))
            continue
        else:
            ph = ""
        content.append((gen_text(rng, 2) + " " + ph + " " + gen_text(rng, 2)).strip())
    builds = [{"kind": "cmd", "extra": ex[0]}, {"kind": "cmd", "extra": ex[1]}]
    builds += [rng.choice([{"kind": "cmd", "extra": ex[2]}, {"kind": "plain"}, {"kind": "json"},
                           {"kind": "log", "term": rng.choice(TERM_POOL)}]) for _ in range(rng.randint(0, 2))]
    rng.shuffle(builds)                                  # either CommandParser goes first
    return {"op": "ctxseq", "content": content, "builds": builds}


def ctx_history_eval(case):
    content = case["content"]
    orig = list(content)
    ctx = context_wrap(list(content))
    held = ctx.content
    outs, canon_outs, lines, verdicts = [], [], [], []
    for i, b in enumerate(case["builds"]):
        where = "construction %d of %d (%s%s, after %s)" % (i + 1, len(case["builds"]), b["kind"],
                                                            " extra=%r" % (b["extra"],) if b["kind"] == "cmd" else "",
                                                            [x["kind"] for x in case["builds"][:i]] or "nothing")
        desc, fid = None, None
        if b["kind"] == "cmd":
            cls = PlainCmd if b["extra"] is None else extra_cmd(list(b["extra"]))
            try:
                out = ("OK", cls(ctx).got, cls.__name__)
            except ContentException as e:
                out = ("CE", str(e))
            except BaseException as e:  # noqa
                out = ("EXC", type(e).__name__)
            one = {"op": "cmd", "extra": b["extra"], "content": orig}
            canon_outs.append(cmd_canon(out))
            lines.append(cmd_line(one))
            desc = cmd_oracle(one, out)
        elif b["kind"] == "plain":
            try:
                out = ("OK", PlainParser(ctx).got)
                desc = None if out[1] == orig else "a plain Parser received altered content: %r" % (out[1],)
            except BaseException as e:  # noqa
                out = ("EXC", type(e).__name__)
                desc = "a plain Parser raised %s" % out[1]
        elif b["kind"] == "json":
            try:
                pj = PlainJson(ctx)
                out = ("DATA", pj.data, getattr(pj, "unparsed_lines", None))
            except ContentException:
                out = ("EXC", "ContentException")
            except SkipComponent:
                out = ("SKIP",)
            except ParseException:
                out = ("PE",)
            except BaseException as e:  # noqa
                out = ("EXC", type(e).__name__)
            one = {"op": "json", "content": orig, "noise": 0, "intent": "plain"}
            canon_outs.append(doc_canon(out))
            lines.append(json_line(one))
            desc, fid = json_oracle(one, out)
        else:
            try:
                obj = PlainLog(ctx)
                got = [d["raw_message"] for d in obj.get(b["term"])]
                out = ("OK", list(obj.lines), got)
                canon_outs.append("OK\t" + "\t".join(fields_list(got)))
                if out[1] != orig:
                    desc = "a LogFileOutput holds altered lines: %r" % (out[1],)
                elif got != [l for l in orig if b["term"] in l]:
                    desc = "get() is not plain filtering: %r" % (got,)
            except BaseException as e:  # noqa
                out = ("EXC", type(e).__name__)
                canon_outs.append("EXC:" + out[1])
                desc = "a LogFileOutput raised %s" % out[1]
            lines.append("get\tA\tN\t0\t" + "\t".join(term_fields(b["term"]) + fields_list(orig)))
        outs.append(out)
        if desc:
            verdicts.append((where + ": " + desc, fid))
        if ctx.content is not held or list(ctx.content) != orig:
            verdicts.append((where + ": the context's content was changed to %r" % (ctx.content,), None))
            break
    real = [v for v in verdicts if v[1] is None]
    verdict = real[0] if real else verdicts[0] if verdicts else (None, None)
    return outs, canon_outs, lines, verdict


# ---- histories: the result of a get_after call must not depend on the calls made before it in the same process

class FlexLog(LogFileOutput):
    """one class for every format: `time_format` is set on the INSTANCE before the call"""


class SwitchLog(LogFileOutput):
    """one class for every format: the CLASS attribute `time_format` is re-assigned before the call"""


_HIST_CLS = {}


def shaped(tf, form):
    return tf if form == "str" else [tf] if form == "list" else {"doc": tf}


def hist_readings(kind, rng, center):
    """one stamp text and what it denotes under each format of the pair: name -> (y or None, month, day, yy or None), or
    None when the text is not a stamp in that format (the field is out of the format's range, so the regular expression
    does not match and the line is a continuation line there).  Written from the formats' definitions, no strptime."""
    h, mi, sec = rng.choice([0, 9, 10, 23]), rng.choice([0, 30, 59]), rng.choice([0, 1, 59])
    hms = "%02d:%02d:%02d" % (h, mi, sec)
    if kind == "h-dmy":
        a = rng.randint(1, 12) if rng.random() < 0.85 else rng.randint(13, 28)
        b, y = rng.randint(1, 12), center.year + rng.choice([0, 0, 0, -1, 1])
        return "%02d/%02d/%04d %s" % (a, b, y, hms), (h, mi, sec), {
            "h-dmy": (y, b, a, None), "h-mdy": (y, a, b, None) if a <= 12 else None}
    if kind == "h-ymd6":
        p_, q, r = rng.randint(1, 28), rng.randint(1, 12), rng.randint(1, 28)
        return "%02d%02d%02d %s" % (p_, q, r, hms), (h, mi, sec), {
            "h-ymd6": (pivot_year(p_), q, r, p_), "h-dmy6": (pivot_year(r), q, p_, r)}
    if kind == "h-bd":
        t = center + datetime.timedelta(days=rng.randint(-20, 20))
        return "%s %02d %s %04d" % (MONTHS[t.month - 1], t.day, hms, t.year), (h, mi, sec), {
            "h-bd": (None, t.month, t.day, None, t.year), "h-bdY": (t.year, t.month, t.day, None)}
    a = rng.randint(1, 12) if rng.random() < 0.85 else rng.randint(13, 28)
    b = rng.randint(1, 12)
    return "%02d/%02d %s" % (a, b, hms), (h, mi, sec), {
        "h-md": (None, a, b, None) if a <= 12 else None, "h-dm": (None, b, a, None)}


def gen_history(rng):
    pair = rng.choice(HIST_PAIRS)
    center = gen_threshold(rng).replace(microsecond=0)
    if pair[0] == "h-ymd6":
        center = center.replace(year=rng.randint(2001, 2028))
    base = []
    for _ in range(rng.randint(2, 8)):
        if rng.random() < 0.7:
            stamp, hms, rd = hist_readings(pair[0], rng, center)
            base.append((rng.choice(PREFIX) + stamp + " " + rng.choice(MSG), hms, rd))
        else:
            base.append((rng.choice(MSG), None, None))
    order = list(pair)
    rng.shuffle(order)                       # each format goes first half of the time
    ncalls = rng.randint(2, 5)
    fmts = (order + [rng.choice(pair) for _ in range(3)])[:ncalls]
    calls = []
    for fmt in fmts:
        lines_src = base if rng.random() < 0.7 else [x for x in base if rng.random() < 0.7]
        stamped = [x for x in lines_src if x[2] and x[2].get(fmt)]
        if stamped and rng.random() < 0.8:       # threshold at / next to a date some line denotes IN THIS FORMAT
            _, hms, rd = rng.choice(stamped)
            r = rd[fmt]
            y = r[0] if r[0] is not None else (r[4] if len(r) > 4 else center.year)
            thr = datetime.datetime(y, r[1], r[2], *hms) + datetime.timedelta(
                seconds=rng.choice([0, 0, 1, -1, 86400, -86400, 3 * 86400, -3 * 86400, 40 * 86400, -40 * 86400]))
        else:
            thr = center + datetime.timedelta(days=rng.randint(-25, 25))
        lines = []
        for text, hms, rd in lines_src:
            r = rd.get(fmt) if rd else None
            if r is None:
                lines.append({"text": text, "t": None})
                continue
            # a yearless stamp denotes a date of the log's own year when the text carries one, else of the threshold's year
            y = r[0] if r[0] is not None else (r[4] if len(r) > 4 else thr.year)
            lines.append({"text": text, "t": [y, r[1], r[2], hms[0], hms[1], hms[2], 0], "hy": r[0] is not None, "hd": True, "yy": r[3]})
        calls.append({"op": "after", "fmt": fmt, "form": rng.choice(["str", "str", "list", "dict"]),
                      "mode": rng.choice(["sub", "sub", "flex", "switch"]), "reuse": rng.random() < 0.3,
                      "thr": [thr.year, thr.month, thr.day, thr.hour, thr.minute, thr.second, 0],
                      "s": rng.choice([None, None, None, None, "error", ["e"], ""]), "lines": lines})
    return {"op": "afterseq", "pair": list(pair), "calls": calls}


def history_impl(case):
    """the calls of one history, in order, in this process; instances are reused where the call says so"""
    outs, live = [], {}
    for c in case["calls"]:
        tf = shaped(HIST_FORMATS[c["fmt"]][0], c["form"])
        texts = [l["text"] for l in c["lines"]]
        key = (c["mode"], c["fmt"], c["form"], tuple(texts))
        try:
            obj = live.get(key) if c["reuse"] else None
            if obj is None:
                if c["mode"] == "sub":
                    k = (c["fmt"], c["form"])
                    if k not in _HIST_CLS:
                        _HIST_CLS[k] = type("Hist_%s_%s" % (c["fmt"][2:], c["form"]), (LogFileOutput,), {"time_format": tf})
                    obj = _HIST_CLS[k](context_wrap(texts))
                elif c["mode"] == "flex":
                    obj = FlexLog(context_wrap(texts))
                    obj.time_format = tf
                else:
                    SwitchLog.time_format = tf
                    obj = SwitchLog(context_wrap(texts))
                live[key] = obj
            elif c["mode"] == "switch":
                SwitchLog.time_format = tf
            s = c["s"]
            outs.append([d["raw_message"] for d in obj.get_after(datetime.datetime(*c["thr"]), list(s) if isinstance(s, list) else s)])
        except (ValueError, UnboundLocalError):
            outs.append("VE")
        except TypeError:
            outs.append("TE")
        except BaseException as e:  # noqa
            outs.append("EXC:" + type(e).__name__)
    return outs


def tod(t):
    return ((t[3] * 60 + t[4]) * 60 + t[5]) * 1000000 + t[6]


def after_line(case):
    thr = case["thr"]
    s = case["s"]
    fs = ["1" if fmt_has_year(case["fmt"]) else "0", str(thr[0]), str(thr[1]), str(thr[2]), str(tod(thr))]
    fs += ["N"] if s is None else term_fields(s)
    fs.append(str(len(case["lines"])))
    for l in case["lines"]:
        fs.append(enc(l["text"]))
        t = l["t"]
        if t is None:
            fs.append("-")
        else:
            # a two-digit year goes to the driver AS WRITTEN; the model applies its own pivot
            y = ("y%d" % l["yy"]) if l.get("yy") is not None else str(t[0]) if l["hy"] else "N"
            mo, d = (t[1], t[2]) if l["hd"] else (1, 1)
            fs.append("%s,%d,%d,%d" % (y, mo, d, tod(t)))
    return "after\t" + "\t".join(fs)


def after_considered(case):
    s = case["s"]
    if s:
        p = plain_pred(s, "all")
        return [l for l in case["lines"] if p(l["text"])]
    return list(case["lines"])


def after_feb29(case):
    """input predicate of known finding feb29-yearless: a considered line stamped Feb 29 in a format without year"""
    if fmt_has_year(case["fmt"]) or case["s"] == []:
        return False
    return any(l["t"] is not None and l["t"][1] == 2 and l["t"][2] == 29 for l in after_considered(case))


def after_oracle_applicable(case):
    if case["fmt"] not in ORACLE_FORMATS:
        return False
    if case["s"] == []:
        return False
    if fmt_has_year(case["fmt"]):
        return True
    thr = datetime.datetime(*case["thr"])
    for l in after_considered(case):
        if l["t"] is None:
            continue
        t = datetime.datetime(*l["t"])
        d = abs(t - thr)
        if not (d <= datetime.timedelta(days=34) or (t.year == thr.year and d <= datetime.timedelta(days=330))):
            return False     # a yearless stamp more than ~11 months away is ambiguous by nature
    return True


def after_oracle(case, out):
    """direct recomputation from the generated log's own timestamps"""
    if isinstance(out, str) and out.startswith("EXC"):
        return "unexpected exception %s" % out, None
    if not after_oracle_applicable(case):
        return None, None
    thr = datetime.datetime(*case["thr"])
    want, inc = [], False
    for l in after_considered(case):
        if l["t"] is not None:
            inc = datetime.datetime(*l["t"]) >= thr
        if inc:
            want.append(l["text"])
    if out == want:
        return None, None
    fid = "feb29-yearless" if (out == "VE" and after_feb29(case)) else None
    return "get_after gave %r, the log's own timestamps give %r" % (out, want), fid


# ------------------------------------------------------------------ witnesses of the known findings

WITNESSES = [
    {"id": "json-scalar-accepted", "case": {"op": "json", "content": ["123"], "noise": 0, "intent": "plain"}},
    {"id": "json-scalar-accepted", "case": {"op": "json", "content": ["\"abc\""], "noise": 0, "intent": "plain"}},
    {"id": "json-scalar-accepted", "case": {"op": "json", "content": ["true"], "noise": 0, "intent": "plain"}},
    {"id": "json-noise-bracket-line", "case": {"op": "json", "content": ["[INFO] starting up", "{\"a\": 1}"], "noise": 1,
                                               "intent": "noise+doc"}},
    {"id": "feb29-yearless", "case": {"op": "after", "fmt": "syslog", "thr": [2024, 2, 28, 0, 0, 0, 0], "s": None,
                                      "lines": [{"text": "Feb 29 10:00:00 host1 proc: started ok", "t": [2024, 2, 29, 10, 0, 0, 0],
                                                 "hy": False, "hd": True}]}},
]


def eval_case(case):
    """-> (impl outcome, canonical impl answers, driver lines, (oracle description, finding id))"""
    op = case["op"]
    if op == "cmd":
        out = cmd_impl(case)
        return out, [cmd_canon(out)], [cmd_line(case)], (cmd_oracle(case, out), None)
    if op == "json":
        c = case["content"]
        out = doc_impl(PlainJson, c, split=False, strip=False) if isinstance(c, str) else doc_impl(PlainJson, list(c))
        return out, [doc_canon(out)], [json_line(case)], json_oracle(case, out)
    if op == "yaml":
        c = case["content"]
        out = (doc_impl(PlainYaml, c, split=False, strip=False) if isinstance(c, str)
               else doc_impl(IgnYaml if case["ign"] else PlainYaml, list(c)))
        return out, [doc_canon(out)], [yaml_line(case)], (yaml_oracle(case, out), None)
    if op == "get":
        out = get_impl(case)
        return out, get_canon_impl(case, out), get_lines(case), (get_oracle(case, out), None)
    if op == "after":
        case = normalise_after(case)
        out = after_impl(case)
        ci = out if isinstance(out, str) else "OK\t" + "\t".join(fields_list(out))
        return out, [ci], [after_line(case)], after_oracle(case, out)
    if op == "ctxseq":
        return ctx_history_eval(case)
    if op == "afterseq":
        outs = history_impl(case)
        canon_outs, lines, verdict = [], [], (None, None)
        for i, (c, out) in enumerate(zip(case["calls"], outs)):
            canon_outs.append(out if isinstance(out, str) else "OK\t" + "\t".join(fields_list(out)))
            lines.append(after_line(c))           # the model is a function of THIS call's arguments only
            desc, fid = after_oracle(c, out)
            if desc and verdict[0] is None:
                verdict = ("call %d of %d (%s, after %s): %s" % (i + 1, len(outs), c["fmt"],
                                                                  [x["fmt"] for x in case["calls"][:i]] or "nothing", desc), fid)
        return outs, canon_outs, lines, verdict
    raise ValueError("unknown op %r" % op)


def run_stream(chk, name, cases, tagger=None):
    impl, lines, owner = [], [], []
    for idx, case in enumerate(cases):
        out, canon_out, dl, (desc, fid) = eval_case(case)
        impl += canon_out
        lines += dl
        owner += [case] * len(dl)
        if tagger:
            for t in tagger(case, out):
                chk.count(t)
        if desc:
            chk.failure(desc, case, finding=fid)
    model = run_driver("C14", lines)
    chk.compare(name, owner, impl, model)


def run(chk):
    rng = chk.rng
    quick = chk.tier == "quick"
    mult = 1 if quick else 25
    chk.rule = ("command outputs of 0-4 lines with documented / extra / near-miss error phrases in random letter case and position; "
                "JSON and YAML documents (compact, indented, flow/block), scalars, empties, corrupted documents, noise lines before JSON, "
                "ignorable lines inside YAML; text logs with overlapping word pools, string / list / empty-list terms, all/any, limits "
                "incl. 0 and negative, reverse, scanner registration; logs in 12 time formats (shipped ones included) with thresholds "
                "biased to year boundaries and Feb 28/29, stamps equal to / one second or microsecond around the threshold, "
                "continuation lines, two stamps in a line; non-trivial = distinct canonical input")
    chk.assumptions = [
        "json.loads / yaml.load(Loader=insights.core.SafeLoader) are parameters of the model (`loads`): the driver is given the library's outcome for every text the parser may pass",
        "time_re (the format-derived regular expression) and strptime's field extraction are a parameter (`stamp`): the driver is given the generated log's own fields per line; the arithmetic after that (datetime construction with year 1900, replace(year), the 330-day rule, >=) is modelled",
        "str.lower is a parameter of the theorems; the driver uses ASCII lower-casing and the generator keeps non-ASCII characters caseless",
        "error phrases of the oracle: the documented lists at the pinned tree, hard-coded in harness/c14.py",
    ]

    # ---- 0. re-translate the bad-line lists from the live class
    try:
        from translate import badlines as tr
        text = tr.generate(REPO)
        changed = tr.write_if_changed(text)
        single, multi = tr.live_lists(REPO)
        chk.extra["translator"] = {"source": "live class insights.core.CommandParser (%s)" % REPO, "rewrote_generated_file": changed,
                                   "generated": "lean/IV/Gen/BadLines.lean", "bad_single_lines": single, "bad_lines": multi}
    except Exception as e:
        chk.tie_broken("translator", "%s: %s" % (type(e).__name__, e), None)

    # ---- 1. theorems
    chk.lean()

    # ---- 2. corpus + witnesses of known findings
    corpus = []
    for p in sorted(glob.glob(os.path.join(VERIF, "corpus", "C14", "*.json"))):
        d = json.load(open(p, encoding="utf-8"))
        corpus += d["cases"] if "cases" in d else [d["case"]]
    for w in WITNESSES:
        out, _, _, (desc, fid) = eval_case(w["case"])
        rep = bool(desc) and fid == w["id"]
        chk.witnesses.append({"id": w["id"], "input": w["case"].get("content") or [l["text"] for l in w["case"]["lines"]],
                              "reproduces": rep, "impl": str(out)[:80]})
        if rep:
            chk.finding_reproduced(w["id"])
    for c in corpus:
        chk.case(("corpus", json.dumps(c, sort_keys=True)), True)
    run_stream(chk, "corpus", corpus + [w["case"] for w in WITNESSES])

    primitives(chk, 1500 * mult)

    # ---- 2b. several parsers built one after the other from ONE context object (before the one-parser streams, so that
    # a failure that depends on earlier constructions is reported with a replay that contains them)
    def ctx_tag(case, outs):
        tags = ["ctx-history:builds=%d,first=%s" % (len(outs), case["builds"][0]["kind"])]
        ce = [o[0] for b, o in zip(case["builds"], outs) if b["kind"] == "cmd"]
        tags.append("ctx-history:command-outcomes=%s" % ("all-CE" if set(ce) == {"CE"} else "all-OK" if set(ce) == {"OK"} else "mixed"))
        return tags + ["ctx-history:%s:%s" % (b["kind"], o[0]) for b, o in zip(case["builds"], outs)]
    cases = [gen_ctx_history(rng) for _ in range(1000 * mult)]
    for c in cases:
        chk.case(("ctxseq", json.dumps(c, sort_keys=True)), bool(c["content"]))
    run_stream(chk, "context-history", cases, ctx_tag)
    chk.sample(cases[0])

    # ---- 3. CommandParser
    def cmd_tag(case, out):
        n = len(case["content"])
        return ["cmd:%s-lines:%s" % ("0" if n == 0 else "1" if n == 1 else "n", out[0]),
                "cmd:extra=%s" % ("none" if case["extra"] is None else len(case["extra"]))]
    cases = [gen_cmd_case(rng) for _ in range(4000 * mult)]
    for c in cases:
        chk.case(("cmd", json.dumps(c, sort_keys=True)), bool(c["content"]))
    run_stream(chk, "command", cases, cmd_tag)
    chk.sample(cases[1])
    # shipped command parsers: the reject direction (their own parse_content decides the rest)
    shipped = shipped_command_parsers()
    chk.extra["shipped_command_parsers"] = [c.__name__ for c in shipped]
    for cls in shipped:
        for _ in range(40 * mult):
            ph = rand_case(rng, rng.choice(REF_SINGLE))
            line = rng.choice(["", "bash: ", "/bin/sh: foo: "]) + ph + rng.choice(["", ": x", " y"])
            chk.case(("shipped", cls.__name__, line), True)
            chk.count("cmd:shipped")
            try:
                cls(context_wrap([line]))
                res = "object"
            except ContentException:
                res = None
            except BaseException as e:  # noqa
                res = type(e).__name__
            if res:
                chk.failure("shipped %s given the error message %r produced %s instead of the content error" % (cls.__name__, line, res),
                            {"op": "shipped", "cls": cls.__module__ + ":" + cls.__name__, "line": line})

    # ---- 4. JSON
    def doc_tag(prefix):
        def f(case, out):
            tags = ["%s:%s" % (prefix, out[0]), "%s:intent=%s" % (prefix, case.get("intent", "ign" if case.get("ign") else "plain"))]
            if prefix == "yaml" and case.get("intent", "").startswith("blank"):
                b = case["base"]
                text = b if isinstance(b, str) else "\n".join(b)
                blank_inside = (not isinstance(b, str)) and any(not l.strip() for l in b[:-1])
                tags.append("yaml:blank:blank-lines-in-document=%s" % ("str" if isinstance(b, str) else blank_inside))
                if not isinstance(b, str):
                    tags.append("yaml:blank:lines-removed-by-prefix=%d" % min(len(case["content"]) - len(b), 3))
                ref = lib_yaml(text)
                try:
                    pure = (kind_of(yaml.safe_load(text)), canon(yaml.safe_load(text)))
                except BaseException:  # noqa
                    pure = ("F", "")
                tags.append("yaml:blank:safe_load-vs-insights-loader=%s" % ("same" if pure == ref else "DIFFER"))
                if case.get("value") is not None:
                    tags.append("yaml:blank:library-round-trips-generated-value=%s" % (ref[1] == case["value"]))
            if case.get("intent", "").startswith("typed"):
                c = case["content"] if prefix == "json" else case["base"]
                lib = (lib_json if prefix == "json" else lib_yaml)(c if isinstance(c, str) else "\n".join(c))
                tags.append("%s:typed:library=%s" % (prefix, {"F": "raises", "N": "null", "S": "scalar"}.get(lib[0], "container")))
                if lib[0] == "F":
                    text = c if isinstance(c, str) else "\n".join(c)
                    try:
                        json.loads(text) if prefix == "json" else yaml.load(text, Loader=SafeLoader)
                    except BaseException as e:  # noqa
                        base = ("YAMLError" if isinstance(e, yaml.YAMLError) else "JSONDecodeError"
                                if isinstance(e, json.JSONDecodeError) else "other")
                        tags.append("%s:typed:raises=%s/%s" % (prefix, base, type(e).__name__))
            return tags
        return f
    cases = [gen_json_case(rng) for _ in range(2500 * mult)]
    for _ in range(250 * mult):
        c = gen_json_case(rng)
        cases.append({"op": "json", "content": "\n".join(c["content"]), "noise": 0, "intent": "str"})
    cases.append({"op": "json", "content": ["[" * 100000], "noise": 0, "intent": "deep"})
    cases.append({"op": "json", "content": "[" * 100000, "noise": 0, "intent": "deep"})
    cases += [gen_json_typed_case(rng) for _ in range(400 * mult)]
    cases += [gen_json_blank_case(rng) for _ in range(500 * mult)]
    for c in cases:
        chk.case(("json", json.dumps(c, sort_keys=True)), bool(c["content"]))
    run_stream(chk, "json", cases, doc_tag("json"))
    chk.sample(cases[3])

    # ---- 5. YAML
    cases = [gen_yaml_case(rng) for _ in range(1500 * mult)]
    cases += [gen_yaml_typed_case(rng) for _ in range(1500 * mult)]
    cases += [gen_yaml_blank_case(rng) for _ in range(2000 * mult)]
    for _ in range(150 * mult):     # ordinary documents as str content
        c = gen_yaml_case(rng)
        t = "\n".join(c["base"])
        cases.append({"op": "yaml", "str": True, "ign": False, "base": t, "content": t, "intent": "str"})
    for c in cases:
        chk.case(("yaml", json.dumps(c, sort_keys=True)), bool(c["content"]))
    run_stream(chk, "yaml", cases, doc_tag("yaml"))
    chk.sample(cases[2])

    # ---- 6. get / in / scanners
    def get_tag(case, out):
        t = case["term"]
        return ["get:term=%s" % ("str" if isinstance(t, str) else "list%d" % min(len(t), 2)),
                "get:num=%s,rev=%d" % ("none" if case["num"] is None else "neg" if case["num"] < 0 else min(case["num"], 4), case["reverse"]),
                "get:hits=%s" % ("TE" if isinstance(out[0], str) else min(len(out[0]), 3))]
    cases = [gen_get_case(rng) for _ in range(3500 * mult)]
    for c in cases:
        chk.case(("get", json.dumps(c, sort_keys=True)), bool(c["lines"]))
    run_stream(chk, "get", cases, get_tag)
    chk.sample(cases[5])

    # ---- 6b. histories of get_after calls (before the one-call stream: a failure that depends on earlier calls is
    # then reported with a replay that contains the calls): ambiguous format pairs on logs that share stamp texts
    def hist_tag(case, outs):
        tags = ["history:pair=%s,first=%s" % (case["pair"][0][2:], case["calls"][0]["fmt"][2:]), "history:calls=%d" % len(outs)]
        for c, o in zip(case["calls"], outs):
            tags.append("history:call:%s/%s/%s%s" % (c["fmt"][2:], c["form"], c["mode"], "/reused" if c["reuse"] else ""))
            tags.append("history:result=%s,oracle=%s" % (o if isinstance(o, str) else "n%d" % min(len(o), 3),
                                                         "applied" if after_oracle_applicable(c) else "n/a"))
        both = [l for l in case["calls"][0]["lines"] if l["t"]]
        tags.append("history:stamped-lines-in-first-call=%d" % min(len(both), 4))
        return tags
    cases = [gen_history(rng) for _ in range(600 * mult)]
    for c in cases:
        chk.case(("afterseq", json.dumps(c, sort_keys=True)), len(set(x["fmt"] for x in c["calls"])) > 1)
    run_stream(chk, "get_after-history", cases, hist_tag)
    chk.sample({"history": [(c["fmt"], c["form"], c["mode"], c["thr"], [l["text"] for l in c["lines"]]) for c in cases[0]["calls"]]})

    # ---- 7. get_after
    def after_tag(case, out):
        yys = [l["yy"] for l in case["lines"] if l.get("t") and l.get("yy") is not None]
        extra = ["after:two-digit-year=%s" % ("00-68" if yy <= 68 else "69-99") for yy in yys[:2]]
        extra += ["after:two-digit-year=boundary-%d" % yy for yy in yys if yy in (68, 69)][:1]
        return extra + ["after:fmt=%s" % case["fmt"], "after:result=%s" % (out if isinstance(out, str) else "n%d" % min(len(out), 3)),
                "after:oracle=%s" % ("applied" if after_oracle_applicable(case) else "n/a")]
    cases = [gen_after_case(rng) for _ in range(5000 * mult)]
    # two-digit years: thresholds and lines on both sides of the %y pivot (1969-2068)
    for _ in range(700 * mult):
        y = rng.choice([1968, 1969, 1969, 1970, 1998, 1999, 2000, 2001, 2067, 2068, 2068, 2069])
        mo, d = rng.choice([(1, 1), (1, 2), (12, 31), (12, 30), (6, 15), (2, 28), (3, 1)])
        thr = datetime.datetime(y, mo, d, rng.choice([0, 12, 23]), rng.choice([0, 59]), rng.choice([0, 59]))
        cases.append(gen_after_case(rng, fmt="mariadb", thr=thr, far=rng.random() < 0.5))
    for c in cases:
        chk.case(("after", json.dumps(c, sort_keys=True)), any(l["t"] for l in c["lines"]))
    run_stream(chk, "get_after", cases, after_tag)
    chk.sample({k: (v if k != "lines" else [l["text"] for l in v]) for k, v in cases[7].items()})


def replay(data):
    if "case" not in data:      # a broken-tie replay: names the theorem / stream that no longer checks
        print(json.dumps(data.get("broken"), indent=1, ensure_ascii=False)[:4000])
        print("no failing input was recorded; re-run ./check C14 to see whether the tie is still broken")
        return 1
    c = data["case"]
    print("replaying", json.dumps(c, ensure_ascii=False)[:2000])
    if c.get("op") == "shipped":
        mod, name = c["cls"].split(":")
        cls = getattr(__import__(mod, fromlist=[name]), name)
        try:
            cls(context_wrap([c["line"]]))
            res = "object"
        except ContentException:
            res = None
        except BaseException as e:  # noqa
            res = type(e).__name__
        print("impl: %s" % (res or "ContentException"))
        bad = bool(res)
    else:
        out, canon_out, lines, (desc, fid) = eval_case(c)
        print("impl :", str(out)[:1500])
        try:
            model = run_driver("C14", lines)
            print("model:", model == canon_out and "agrees with impl" or model)
        except Exception as e:  # noqa
            print("model: driver failed: %s" % e)
        if desc:
            print("oracle:", desc, ("[known finding %s]" % fid) if fid else "")
        bad = bool(desc)
    print("property violated on this input" if bad else "property holds on this input")
    return 1 if bad else 0
