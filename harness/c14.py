"""
C14 — base parsers accept well-formed content and reject bad content as documented.

Tie: fresh subclasses of the REAL CommandParser / JSONParser / YAMLParser / TextFileOutput /
LogFileOutput / Syslog (and a few shipped parsers) are constructed through
insights.tests.context_wrap on generated contents; outcome (exception class or the object's
data / lines) is compared with IV.BaseParsers (Drivers/C14.lean).  json / yaml / strptime are
parameters of the model: the driver receives the library's outcome for every text the parser may
hand to it, and the generated log's own time fields for every stamped line.
Oracle: direct statements of the property on the implementation's outcome (see `*_oracle`).
Before anything else the bad-line lists of the LIVE class are re-translated into
lean/IV/Gen/BadLines.lean (translate/badlines.py).
"""
import datetime
import glob
import json
import os

from harness.common import VERIF, REPO, enc, run_driver

from insights.core import (Parser, CommandParser, ContainerParser, JSONParser, YAMLParser, TextFileOutput, LogFileOutput,
                           LazyLogFileOutput, Syslog, SafeLoader)
from insights.core.exceptions import ContentException, ParseException, SkipComponent
from insights.tests import context_wrap
import yaml

# ------------------------------------------------------------------ reference data of the oracle
# the documented error phrases (CommandParser docstrings at the pinned tree); the oracle does NOT
# read them from the class, so dropping one from the class is seen as a violation
REF_SINGLE = ["no such file or directory", "not a directory", "command not found", "no module named",
              "no files found for"]
REF_MULTI = ["missing dependencies:"]

WORDS = ["kernel", "error", "started", "session", "eth0", "failed", "up", "link", "ERROR", "Error", "warn",
         "daemon", "x", "7", "ok", "err", "naïve", "日本", "a:b", "[1]", "{k}"]
SPACES = [" ", "\t", "\u00a0", "\u2003", "\x1c", "\x0b", "\u3000", "\x85"]


def fields_list(xs):
    return [str(len(xs))] + [enc(x) for x in xs]


def dec_lines(fs):
    """inverse of the driver's showLines on a list of fields: -> (lines, rest)"""
    from harness.common import dec
    n = int(fs[0])
    return [dec(f) for f in fs[1:1 + n]], fs[1 + n:]


# ------------------------------------------------------------------ primitives

def primitives(chk, n):
    rng = chk.rng
    cases, lines, impl = [], [], []
    alpha = list("abAZz {[:,\"") + SPACES + ["é", "日", "ß", "_", "0"]
    for _ in range(n):
        k = rng.randrange(3)
        s = "".join(rng.choice(alpha) for _ in range(rng.randint(0, 8)))
        if k == 0:
            cases.append(("lower", s))
            lines.append("lower\t" + enc(s))
            impl.append(enc(s.lower()))
        elif k == 1:
            cases.append(("strip", s))
            lines.append("strip\t" + enc(s))
            impl.append(enc(s.strip()))
        else:
            t = rng.choice([s[1:3], s[:2], "a", "", "ab", s, s + "x"])
            cases.append(("in", t, s))
            lines.append("in\t%s\t%s" % (enc(t), enc(s)))
            impl.append("1" if t in s else "0")
        chk.case(cases[-1], True)
    chk.compare("str-primitives", cases, impl, run_driver("C14", lines))


# ------------------------------------------------------------------ CommandParser

class PlainCmd(CommandParser):
    def parse_content(self, content):
        self.got = content


class PlainContainer(ContainerParser):
    def parse_content(self, content):
        self.got = content


CONTAINER_KW = {"image": "registry.example/img:1", "engine": "podman", "container_id": "39e7c1aa21b2"}


def extra_cmd(extra):
    class ExtraCmd(CommandParser):
        def __init__(self, context):
            super(ExtraCmd, self).__init__(context, extra_bad_lines=extra)

        def parse_content(self, content):
            self.got = content
    return ExtraCmd


EXTRAS = [None, None, [], ["timed out"], ["unable to establish connection", "invalid option"],
          ["Error:", "failed"], ["daemon"], [""]]
NEAR = ["command not  found", "no such file", "not a director", "missing dependencies", "no module",
        "nosuchfileordirectory", "files found for"]


def rand_case(rng, s):
    k = rng.randrange(4)
    if k == 0:
        return s
    if k == 1:
        return s.upper()
    if k == 2:
        return s.title()
    return "".join(c.upper() if rng.random() < 0.5 else c for c in s)


def gen_text(rng, nwords=4):
    return " ".join(rng.choice(WORDS) for _ in range(rng.randint(0, nwords)))


def gen_cmd_case(rng):
    extra = rng.choice(EXTRAS)
    n = rng.choice([0, 1, 1, 1, 1, 2, 2, 3, 4])
    content = []
    for _ in range(n):
        r = rng.random()
        if r < 0.45:
            pool = REF_SINGLE + REF_MULTI + (extra or []) + NEAR
            ph = rand_case(rng, rng.choice(pool))
            pre, post = gen_text(rng, 2), gen_text(rng, 2)
            sep1 = rng.choice(["", " ", ": ", "bash: "]) if pre else rng.choice(["", "bash: foo: "])
            sep2 = rng.choice(["", " ", "."]) if post else ""
            content.append(pre + sep1 + ph + sep2 + post)
        elif r < 0.5:
            content.append("")
        else:
            content.append(gen_text(rng, 5))
    case = {"op": "cmd", "extra": extra, "content": content}
    if extra is None and rng.random() < 0.3:
        case["container"] = True
    elif extra is not None and rng.random() < 0.25:
        case["extra_form"] = "tuple"           # round 10: extra_bad_lines given as a tuple (also the empty tuple)
    return case


def cmd_impl(case):
    content = list(case["content"])
    container = bool(case.get("container"))
    shape = tuple if case.get("extra_form") == "tuple" else list
    cls = PlainContainer if container else PlainCmd if case["extra"] is None else extra_cmd(shape(case["extra"]))
    try:
        p = cls(context_wrap(content, **(CONTAINER_KW if container else {})))
    except ContentException as e:
        return ("CE", str(e))
    except BaseException as e:  # noqa
        return ("EXC", type(e).__name__)
    if container:
        got = {k: getattr(p, k, None) for k in CONTAINER_KW}
        if got != CONTAINER_KW:
            return ("EXC", "container-attributes:%r" % (got,))
    return ("OK", getattr(p, "got", "\0parse_content was not called"), cls.__name__)


def cmd_oracle(case, out):
    """None when the property holds, else a description"""
    content, extra = case["content"], case["extra"] or []
    low = [l.lower() for l in content]
    if len(content) == 1:
        bad = any(p in low[0] for p in REF_SINGLE + extra)
    elif len(content) > 1:
        bad = any(p in l for l in low for p in REF_MULTI + extra)
    else:
        bad = False
    if out[0] == "EXC":
        return "exception %s instead of ContentException / a parser object" % out[1]
    if bad and out[0] != "CE":
        return "an error-message output produced a parser object"
    if not bad and out[0] == "CE":
        return "a normal output was rejected with the content error"
    if not bad and out[1] != content:
        return "the content reached parse_content altered: %r" % (out[1],)
    return None


def cmd_canon(out):
    if out[0] == "CE":
        # message is "<class name>: <first line>"
        return "CE\t" + enc(out[1].split(": ", 1)[1] if ": " in out[1] else "\0no-colon")
    if out[0] == "OK":
        return "OK\t" + "\t".join(fields_list(out[1]))
    return "EXC:" + out[1]


def cmd_line(case):
    return "cmd\t" + "\t".join(fields_list(case["extra"] or []) + fields_list(case["content"]))


def shipped_command_parsers():
    out = []
    for mod, name in (("insights.parsers.uptime", "Uptime"), ("insights.parsers.hostname", "Hostname"),
                      ("insights.parsers.date", "Date"), ("insights.parsers.getenforce", "getenforcevalue"),
                      ("insights.parsers.uname", "Uname")):
        try:
            m = __import__(mod, fromlist=[name])
            c = getattr(m, name)
            if isinstance(c, type) and issubclass(c, CommandParser) and "__init__" not in c.__dict__:
                out.append(c)
        except Exception:
            pass
    return out


# ------------------------------------------------------------------ JSON / YAML

class PlainJson(JSONParser):
    pass


class PlainYaml(YAMLParser):
    pass


class IgnYaml(YAMLParser):
    ignore_lines = ("warning:", "note", "#!")


def canon(v, _stack=()):
    """canonical rendering of a loaded value (dict order ignored; recursive structures from YAML aliases closed
    with a marker)"""
    if isinstance(v, (dict, list, tuple, set, frozenset)):
        if id(v) in _stack:
            return "<cycle>"
        st = _stack + (id(v),)
        if isinstance(v, dict):
            return "{" + ",".join(sorted(canon(k, st) + ":" + canon(x, st) for k, x in v.items())) + "}"
        if isinstance(v, (list, tuple)):
            return type(v).__name__[0] + "[" + ",".join([canon(x, st) for x in v]) + "]"
        return "set(" + ",".join(sorted(canon(x, st) for x in v)) + ")"
    if v is None or isinstance(v, (bool, int, float)):
        try:
            return type(v).__name__[0] + repr(v)
        except ValueError:          # int too large to print (str conversion limit)
            return "i#%d" % v.bit_length()
    if isinstance(v, str):
        return json.dumps(v)
    return type(v).__name__ + ":" + repr(v)


def kind_of(v):
    return "N" if v is None else "M" if isinstance(v, dict) else "Q" if isinstance(v, list) else "S"


def lib_json(text):
    try:
        v = json.loads(text)
    except BaseException:  # noqa  (RecursionError included)
        return ("F", "")
    return (kind_of(v), canon(v))


def lib_yaml(text):
    try:
        v = yaml.load(text, Loader=SafeLoader)
    except BaseException:  # noqa
        return ("F", "")
    return (kind_of(v), canon(v))


def table_fields(entries):
    seen, out = set(), []
    for text, (k, r) in entries:
        if text in seen:
            continue
        seen.add(text)
        out += [enc(text), k, enc(r)]
    return [str(len(seen))] + out


KEYS = ["a", "b", "name", "items", "id", "k1", "x y", "0", "é"]
SCALARS = [0, 1, -5, 12345, 1.5, True, False, None, "", "abc", "x y", "{", "[1]", "naïve", "null", "007"]


def gen_value(rng, depth=0):
    r = rng.random()
    if depth >= 3 or r < 0.3:
        return rng.choice(SCALARS)
    if r < 0.65:
        return dict((rng.choice(KEYS), gen_value(rng, depth + 1)) for _ in range(rng.randint(0, 3)))
    return [gen_value(rng, depth + 1) for _ in range(rng.randint(0, 3))]


def gen_container(rng):
    v = gen_value(rng)
    while not isinstance(v, (dict, list)):
        v = gen_value(rng)
    return v


NOISE = ["Loading plugins...", "WARNING: running as root", "[INFO] starting up", "{not json", "  [warn] x",
         "12345", "", "   ", "--- output ---", "time=\"1\" level=info", "null", "\"quoted\"", "a {b} [c]"]


def corrupt(rng, text):
    k = rng.randrange(6)
    if not text:
        return "x"
    i = rng.randrange(len(text))
    if k == 0:
        return text[:i]
    if k == 1:
        return text[:i] + text[i + 1:]
    if k == 2:
        return text + rng.choice(["}", "]", " x", ",", "\n{}"])
    if k == 3:
        return text[:i] + rng.choice(["'", ":", ",,", "\t", "}"]) + text[i:]
    if k == 4:
        return rng.choice(["not json at all", "<xml/>", "{'a': 1}", "[1, 2", "{\"a\": }", "NaN", "Infinity", "-", "tru"])
    return text[i:]


def gen_json_case(rng):
    r = rng.random()
    intent = "plain"
    noise = []
    if r < 0.05:
        content = rng.choice([[], [""], ["   "], ["", ""], ["null"], [" null "], ["", "null"]])
        return {"op": "json", "content": content, "noise": 0, "intent": "empty"}
    if r < 0.50:
        v = gen_container(rng)
    elif r < 0.65:
        v = rng.choice(SCALARS)
    else:
        v = gen_value(rng)
    text = json.dumps(v, indent=rng.choice([None, None, 1, 2]), ensure_ascii=rng.random() < 0.5)
    if rng.random() < 0.15:
        text = rng.choice(["  ", "\t", "\u00a0"]) + text
    if r >= 0.8 or (r >= 0.65 and rng.random() < 0.3):
        text = corrupt(rng, text)
        intent = "corrupt"
    doc = text.split("\n")
    if rng.random() < 0.45:
        noise = [rng.choice(NOISE) for _ in range(rng.randint(1, 3))]
        if intent == "plain" and isinstance(v, (dict, list)):
            intent = "noise+doc"
    if rng.random() < 0.1:
        doc = doc + [""]
    if intent == "noise+doc" and lib_json("\n".join(doc))[0] not in "MQ":
        intent = "corrupt"      # e.g. a no-break space before the document: not JSON white space
    return {"op": "json", "content": noise + doc, "noise": len(noise), "intent": intent}


def doc_impl(cls, content, **kw):
    try:
        p = cls(context_wrap(content, **kw))
    except ContentException as e:  # a SkipComponent subclass: keep it apart
        return ("EXC", "ContentException")
    except SkipComponent:
        return ("SKIP",)
    except ParseException:
        return ("PE",)
    except BaseException as e:  # noqa
        return ("EXC", type(e).__name__)
    return ("DATA", p.data, getattr(p, "unparsed_lines", None), legacy_check(p))


def legacy_check(p):
    """LegacyItemAccess of JSONParser / YAMLParser: `p[k]`, `k in p`, `p.get(k[, default])` are the document's own"""
    d = p.data
    try:
        if isinstance(d, dict):
            for k in list(d)[:4]:
                if not (k in p):
                    return "key %r of the document is not `in` the parser" % (k,)
                if p[k] is not d[k] or p.get(k) is not d[k] or p.get(k, 7) is not d[k]:
                    return "parser[%r] / parser.get(%r) is not the document's value" % (k, k)
            miss = "\0no such key"
            if miss not in d and (miss in p or p.get(miss) is not None or p.get(miss, 7) != 7):
                return "a key that is not in the document is reported / the default of get() is not returned"
        elif isinstance(d, list) and d:
            if p[0] is not d[0] or p[len(d) - 1] is not d[-1]:
                return "parser[i] is not the i-th element of the document"
            if not (d[0] in p):
                return "an element of the document is not `in` the parser"
    except BaseException as e:  # noqa
        return "item access on the parser raised %s" % type(e).__name__
    return None


def doc_canon(out):
    if out[0] == "DATA":
        return "DATA\t%s\t%s" % (enc(canon(out[1])), "none" if out[2] is None else "\t".join(fields_list(out[2])))
    if out[0] == "EXC":
        return "EXC:" + out[1]
    return out[0]


def json_line(case):
    c = case["content"]
    if isinstance(c, str):
        return "jsons\t" + enc(c) + "\t" + "\t".join(table_fields([(c, lib_json(c))]))
    entries = [("\n".join(c[i:]), lib_json("\n".join(c[i:]))) for i in range(len(c))]
    return "json\t" + "\t".join(fields_list(c) + table_fields(entries))


def json_noise_bracket(case):
    c = case["content"]
    return case.get("intent") == "noise+doc" and any(l.strip().startswith(("{", "[")) for l in c[:case["noise"]])


def json_oracle(case, out):
    """-> (description or None, finding id or None)"""
    c = case["content"]
    if out[0] == "EXC":
        return "exception type %s (neither SkipComponent nor ParseException)" % out[1], None
    if out[0] == "DATA" and len(out) > 3 and out[3]:
        return out[3], None
    if case.get("value") is not None and not (out[0] == "DATA" and canon(out[1]) == case["value"]):
        return "the document was rendered from a value the parser did not return (blank lines between tokens): %s" % doc_canon(out)[:60], None
    if isinstance(c, str):
        if not c:
            return (None if out[0] == "SKIP" else "empty document did not signal a skip"), None
        whole = lib_json(c)
        lines = None
    else:
        if not c:
            return (None if out[0] == "SKIP" else "empty content did not signal a skip"), None
        lines = c
        whole = lib_json("\n".join(c))
    if case.get("intent") == "noise+doc":
        k = case["noise"]
        want = lib_json("\n".join(c[k:]))
        assert want[0] in "MQ"
        if out[0] == "DATA" and canon(out[1]) == want[1] and out[2] == c[:k]:
            return None, None
        fid = "json-noise-bracket-line" if json_noise_bracket(case) else None
        return "a valid document preceded by %d noise line(s) gave %s instead of its value with the noise as unparsed_lines" % (
            k, doc_canon(out)[:60]), fid
    if whole[0] == "N":
        return (None if out[0] == "SKIP" else "null document did not signal a skip"), None
    if whole[0] in "MQ":
        if out[0] == "DATA" and canon(out[1]) == whole[1]:
            return None, None
        return "valid document: result differs from json.loads", None
    if whole[0] == "S":
        if out[0] == "PE":
            return None, None
        if out[0] == "DATA" and canon(out[1]) == whole[1]:
            return "scalar document returned as data instead of a parse error", "json-scalar-accepted"
        return "scalar document: neither parse error nor its value", None
    # not a document as a whole: parse error, unless a mapping/sequence document follows leading junk lines
    if out[0] == "PE":
        return None, None
    if out[0] == "DATA" and lines is not None and out[2] is not None:
        k = len(out[2])
        rest = lib_json("\n".join(lines[k:]))
        if out[2] == lines[:k] and rest[0] in "MQ" and canon(out[1]) == rest[1]:
            return None, None
    return "not a document, yet the parser answered %s" % doc_canon(out)[:60], None


YAML_JUNK = ["a: b: c", "[1, 2", "{a: 1", "key: value\n- item", "\tfoo: bar", "@foo", "hello", "123", "true", "3.14",
             "2020-01-01", "!!set {a, b}", "!!python/object:os.system {}", "&a [*a, *b]", "a: 1\na: 2", "- - - x",
             "? a\n: b", "x: !!binary aGk=", "'unterminated", "a:\n  - b\n c: d", "%YAML 3.0\n---\na: 1", "- 1\n- 2\n...\n- 3",
             "---\na: 1\n---\nb: 2", "a: 1 # c", "*undefined"]
YAML_EMPTY = [[], [""], ["# only a comment"], ["---"], ["~"], ["null"], ["   ", ""], ["..."], ["--- ~"]]
IGNORABLE = ["WARNING: something happened", "  Note that x", "warning:", "Notes: []", "#!/bin/sh", "NOTE"]


# ---- well-formed documents whose TYPED SCALARS cannot be constructed (PyYAML's constructors raise plain
# ValueError / AttributeError / KeyError, not YAMLError), plus neighbours that can, anchors / aliases / merge keys,
# tabs and flow edge cases, explicit tags, deep flow nesting.  The oracle never predicts: it asks the library.
YAML_TYPED_BAD = ["2019-02-30", "2019-13-01", "2001-12-14t25:61:61", "2001-12-14 21:59:43.10 -25:99", "0000-01-01",
                  "2019-02-29", "2023-04-31 10:00:00", "2023-01-01 24:00:00", "2023-01-01T23:59:60Z", "!!int abc",
                  "!!float abc", "!!timestamp nope", "!!bool maybe", "!!int 0b12", "!!int 0x", "!!float 1.2.3",
                  "!!timestamp 2019-02-30", "!!int ''", "!!int 1:99x", "9" * 5000, "!!int 1" + "0" * 4400, "-0b" + "1" * 20000]
YAML_TYPED_OK = ["2020-02-29", "2019-12-31 23:59:59", "2001-12-14t21:59:43.10-05:00", "!!binary aGk=", "!!binary '@@@'",
                 "1e999999", "!!float 1e99999999999", ".inf", "-.INF", ".nan", "1_000", "190:20:30", "0o8", "0x", "!!str 123",
                 "!!null x", "99999-01-01", "!!set {a}", "!!omap [a: 1]", "~", "!!int 0b11", "!!bool yes", "!!timestamp 2019-02-28",
                 "9" * 4000, "1.5e3", "0x1F", "010", "+12", "y", "No"]
YAML_STRUCT = ["a: &a [*a]", "&a [*a, *a]", "a: &x 1\nb: &x 2\nc: *x", "a: *undefined", "<<: 1", "a:\n  <<: [1, 2]",
               "b: &b {x: 1}\na:\n  <<: *b\n  y: 2", "b: &b {x: 1}\na:\n  <<: [*b, 3]", "a:\n  <<: *nope",
               "b: &b {x: 1}\nc: &c {y: 2}\na:\n  <<: [*b, *c]", "a: &a [x, x]\nb: &b [*a, *a]\nc: [*b, *b]",
               "a: &a {k: *a}", "a:\t1", "{a: 1,\t b: 2}", "a:\n\tb: 1", "- \t- x", "{a: 1, }", "[1, , 2]", "[1,2", "{a: [}",
               "{[1, 2]: x}", "? [1, 2]\n: x", "? {a: 1}\n: x", "{? a}", "[a: 1]", "{a}", "a: 'x'y", "x: !!seq {a: 1}",
               "x: !!map [1]", "!!python/tuple [1]", "x: !!python/object:os.system {}", "!!python/name:os.system ''",
               "x: !unknown y", "!!str\n- a", "x: !!pairs [a: 1, a: 2]", "x: !!set [a]", "x: !!omap {a: 1}", "x: !!omap [1]",
               "{a: 1, a: 2}", "? !!int abc\n: 1", "- !!float [1]", "x: !!int {a: 1}", "x: !!timestamp [2019]"]
YAML_PLACE = ["%s", "k: %s", "- %s", "a:\n  b:\n    - 1\n    - %s", "a:\n  - b: %s\n    c: 2", "{a: [1, {b: [2, {c: %s}]}]}",
              "[%s, 2]", "%s: v", "? %s\n: v", "- - - %s", "x: &a %s\ny: *a", "---\nk: %s\n...", "k: %s # comment",
              "a: 1\nb:\n  c: {d: %s}"]


def gen_yaml_typed_case(rng):
    r = rng.random()
    if r < 0.62:
        leaf = rng.choice(YAML_TYPED_BAD) if rng.random() < 0.65 else rng.choice(YAML_TYPED_OK)
        text = rng.choice(YAML_PLACE) % leaf
    elif r < 0.9:
        text = rng.choice(YAML_STRUCT)
    else:
        d = rng.choice([3, 40, 150])
        leaf = rng.choice(YAML_TYPED_BAD[:19] + YAML_TYPED_OK[:8])
        text = ("[" * d + leaf + "]" * d) if rng.random() < 0.5 else ("{a: " * d + leaf + "}" * d)
    if rng.random() < 0.35:
        return {"op": "yaml", "str": True, "ign": False, "base": text, "content": text, "intent": "typed-str"}
    base = text.split("\n")
    content = list(base)
    ign = rng.random() < 0.25
    if ign:
        for _ in range(rng.randint(1, 2)):
            content.insert(rng.randint(0, len(content)), rng.choice(IGNORABLE))
    return {"op": "yaml", "ign": ign, "base": base, "content": content, "intent": "typed"}


JSON_TYPED = ["9" * 5000, "-" + "9" * 4400, "9" * 4300, "1E400", "1e999999", "-1e-999999", "NaN", "-Infinity", "\"\\ud800\"",
              "\"\\u0000\"", "1.0e+", "0x10", "01", "1_000", "+1", ".5", "1.", "\"\\x41\"", "'a'", "True", "nul", "1" + "0" * 4299,
              "1." + "0" * 5000, "\"\\udc00\\ud800\"", "-", "--1", "1e", "\"\t\""]
JSON_PLACE = ["%s", "[%s]", "{\"a\": %s}", "{\"a\": [1, {\"b\": [%s]}]}", "{\"a\": 1, \"a\": %s}", "[\n  %s\n]",
              "{\n \"k\": [\n  %s,\n  2\n ]\n}", "[1, %s"]


def gen_json_typed_case(rng):
    leaf = rng.choice(JSON_TYPED)
    r = rng.random()
    if r < 0.85:
        text = rng.choice(JSON_PLACE) % leaf
    else:
        d = rng.choice([3, 40, 150])
        text = "[" * d + leaf + "]" * d
    if rng.random() < 0.35:
        return {"op": "json", "content": text, "noise": 0, "intent": "typed-str"}
    lines = text.split("\n")
    if rng.random() < 0.25:
        lines = [rng.choice(["Loading plugins...", "WARNING: running as root", "--- output ---"])] + lines
    return {"op": "json", "content": lines, "noise": 0, "intent": "typed"}


# ---- documents in which blank / whitespace-only LINES are content: literal and folded block scalars, multi-line
# quoted and plain scalars, blank lines and comments between entries.  Values carry strings with "\n", "\n\n",
# trailing newlines, lines of spaces, leading / trailing spaces; rendered by yaml.safe_dump in every scalar style
# and several widths, plus hand-written block forms; split into lines as the parser receives them.
STR_PIECES = ["a", "x y", " lead", "trail ", "  ", "", "", "note this", "Warning: w", "# not a comment", "k: v", "- item",
              "日本", "tab\there", "long " * 6 + "end", "'q' \"d\"", "   deep indent", "...", "---"]
BLOCK_FORMS = ["a: |\n  line1\n\n  line3\n", "a: |-\n  x\n\n\n", "a: |+\n  x\n\n\nb: 1", "a: >\n  folded\n  text\n\n  next para\n",
               "a: >-\n  x\n\n  y\n\n", "- |\n  x\n  \n  y", "a: \"first\n\n  second\"\n", "a: 'it''s\n\n  two'\n",
               "a: |2\n    indented\n\n  less\n", "k:\n  - >+\n    p\n\n  - z", "# comment\n\na: 1\n\n# c2\nb:\n\n  - 1\n\n  - 2\n",
               "a: |\n  x\n  # not a comment\n\n   \nb: 2", "---\n\na: |\n\n  x\n...\n", "a: plain\n  continued\n\n  after blank",
               "a: |\n\n\n  x\n\n", "a: >\n\n  x\n   more indented\n\n  y\n", "- \"a\\\n  \n  b\"", "a: |+\n\nb: |-\n\nc: |\n\n",
               "a: |\n  note this\n\n  Warning: w\nb: 1", "a:\n  b: >\n    WARNING: folded\n\n    x\n  c: |\n    \n    y\n",
               "a: 'x\n  \n  \n  y'", "? |\n  key\n\n  two\n: v", "a: [1,\n\n  2,\n   \n  3]", "{a: 1,\n\n b: \"x\n\n y\"}"]
BLANKS = ["", "", "   ", "\t", " \t "]


def gen_blank_string(rng):
    s = "\n".join(rng.choice(STR_PIECES) for _ in range(rng.randint(1, 5)))
    r = rng.random()
    return s + ("\n" if r < 0.25 else "\n\n" if r < 0.4 else "")


def gen_blank_value(rng):
    s = [gen_blank_string(rng) for _ in range(3)]
    return rng.choice([{"k": s[0]}, [s[0], s[1]], {"a": {"b": [s[0], 1]}}, {"a": s[0], "b": 1, "c": s[1]}, [[s[0]], {"x": s[1]}],
                       {"items": [{"name": s[0], "id": 1}, {"name": s[1], "id": 2}]}, [s[0]], {s[2][:12]: s[0]}])


def yaml_remaining(lines, prefixes):
    """the documented pre-processing, written independently: remove exactly the lines whose text after leading
    white space starts (case-insensitively) with one of the prefixes; keep every other line, blank ones included"""
    return [l for l in lines if not (prefixes and l.lstrip().lower().startswith(tuple(prefixes)))]


def gen_yaml_blank_case(rng):
    value = None
    if rng.random() < 0.7:
        v = gen_blank_value(rng)
        text = yaml.safe_dump(v, default_style=rng.choice([None, None, "|", ">", '"', "'"]), width=rng.choice([10, 20, 80, 1000]),
                              default_flow_style=rng.choice([False, False, None]), indent=rng.choice([2, 4]),
                              allow_unicode=rng.random() < 0.7)
        value = canon(v)
    else:
        text = rng.choice(BLOCK_FORMS)
    if rng.random() < 0.3:
        return {"op": "yaml", "str": True, "ign": False, "base": text, "content": text, "intent": "blank-str", "value": value}
    lines = text.split("\n") if rng.random() < 0.7 else text.splitlines()
    if value is not None and "\n".join(lines) != text:
        value = None            # splitlines() dropped a final empty line: the joined text is another document
    r = rng.random()
    if r < 0.35:                # comments / blank lines / ignorable lines around and inside: the reference follows the text
        value = None
        for _ in range(rng.randint(1, 3)):
            lines.insert(rng.randint(0, len(lines)), rng.choice(BLANKS + ["# comment", "  # indented comment"] + IGNORABLE))
    ign = rng.random() < 0.5
    base = yaml_remaining(lines, IgnYaml.ignore_lines if ign else ())
    if len(base) != len(lines):
        value = None            # a content line matches a prefix: the reference is the load of the remaining lines
    return {"op": "yaml", "ign": ign, "base": base, "content": lines, "intent": "blank", "value": value}


def gen_json_blank_case(rng):
    v = gen_container(rng) if rng.random() < 0.5 else gen_blank_value(rng)
    text = json.dumps(v, indent=rng.choice([1, 2, 4]), ensure_ascii=rng.random() < 0.5)
    doc = text.split("\n")
    for _ in range(rng.randint(1, 4)):
        doc.insert(rng.randint(1, len(doc)), rng.choice(BLANKS))
    if rng.random() < 0.25:
        t = "\n".join(doc)
        return {"op": "json", "content": t, "noise": 0, "intent": "blank-str", "value": canon(v)}
    noise = []
    if rng.random() < 0.4:
        noise = [rng.choice(BLANKS + ["Loading plugins...", "WARNING: running as root", "--- output ---"]) for _ in range(rng.randint(1, 3))]
    return {"op": "json", "content": noise + doc, "noise": len(noise), "intent": "noise+doc" if noise else "blank", "value": canon(v)}


def gen_yaml_case(rng):
    r = rng.random()
    ign = rng.random() < 0.4
    if r < 0.08:
        base = list(rng.choice(YAML_EMPTY))
    elif r < 0.3:
        base = rng.choice(YAML_JUNK).split("\n")
    else:
        v = gen_container(rng) if r < 0.8 else rng.choice(SCALARS)
        text = yaml.safe_dump(v, default_flow_style=rng.choice([False, True, None]), allow_unicode=rng.random() < 0.5)
        if r >= 0.9:
            text = corrupt(rng, text)
        base = text.split("\n")
        if base and base[-1] == "":
            base.pop()
    content = list(base)
    if ign:
        for _ in range(rng.randint(1, 3)):
            content.insert(rng.randint(0, len(content)), rng.choice(IGNORABLE))
    return {"op": "yaml", "ign": ign, "base": base, "content": content}


def yaml_line(case):
    ignore = list(IgnYaml.ignore_lines) if case["ign"] else []
    c = case["content"]
    if isinstance(c, str):
        return "yamls\t" + enc(c) + "\t" + "\t".join(table_fields([(c, lib_yaml(c))]))
    entries = [("\n".join(c), lib_yaml("\n".join(c))), ("\n".join(case["base"]), lib_yaml("\n".join(case["base"])))]
    return "yaml\t" + "\t".join(fields_list(ignore) + fields_list(c) + table_fields(entries))


def yaml_oracle(case, out):
    if out[0] == "EXC":
        return "exception type %s (neither SkipComponent nor ParseException)" % out[1]
    if out[0] == "DATA" and len(out) > 3 and out[3]:
        return out[3]
    # with ignore_lines the inserted lines are dropped: the document is `base`
    want = lib_yaml(case["base"] if isinstance(case["base"], str) else "\n".join(case["base"]))
    if case.get("value") is not None and want[1] == case["value"] and not (out[0] == "DATA" and canon(out[1]) == case["value"]):
        # rendered from a generated value, no line matches an ignore prefix, the library round-trips it
        return "data differs from the value the document was rendered from (blank lines are content): %s" % doc_canon(out)[:80]
    if want[0] == "N":
        return None if out[0] == "SKIP" else "empty/null document did not signal a skip"
    if want[0] in "MQ":
        return None if (out[0] == "DATA" and canon(out[1]) == want[1]) else "valid document: result differs from yaml.load"
    return None if out[0] == "PE" else "neither mapping nor sequence (or not YAML), yet the parser answered %s" % doc_canon(out)[:60]


# ------------------------------------------------------------------ get / in

class PlainText(TextFileOutput):
    pass


class PlainLog(LogFileOutput):
    pass


class PlainSyslog(Syslog):
    pass


TERM_POOL = ["error", "kernel", "err", "k", "", "ERROR", "eth0", "rn", "l e", "failed", "zzz", "日本", " "]


def gen_term(rng, allow_empty_list=True):
    r = rng.random()
    if r < 0.45:
        return rng.choice(TERM_POOL)
    if r < 0.5 and allow_empty_list:
        return []
    return [rng.choice(TERM_POOL) for _ in range(rng.randint(1, 3))]


def term_fields(t):
    if isinstance(t, str):
        return ["1", enc(t)]
    return ["L"] + fields_list(t)


def plain_pred(term, check):
    if isinstance(term, str):
        return lambda l: term in l
    if check == "all":
        return lambda l: all(w in l for w in term)
    return lambda l: any(w in l for w in term)


def gen_get_case(rng):
    n = rng.choice([0, 1, 2, 4, 6, 9, 12])
    lines = [gen_text(rng, 5) for _ in range(n)]
    if n and rng.random() < 0.3:
        lines[rng.randrange(n)] = lines[rng.randrange(n)]  # duplicates
    term = gen_term(rng)
    src = [l for l in lines if l]
    if src and rng.random() < 0.6:      # terms taken from the text, so that most searches hit
        l = rng.choice(src)
        ws = l.split(" ")
        i = rng.randrange(len(l))
        pick = lambda: rng.choice([rng.choice(ws), l[i:i + rng.randint(1, 4)], rng.choice(ws)[:2]])  # noqa
        term = pick() if rng.random() < 0.5 else [pick() for _ in range(rng.randint(1, 3))]
        if not isinstance(term, str) and rng.random() < 0.3:
            term.append(rng.choice(TERM_POOL))
    return {"op": "get", "cls": rng.choice(["text", "log", "syslog"]), "lines": lines, "term": term,
            "check": rng.choice(["all", "all", "any"]), "num": rng.choice([None, None, None, -1, 0, 1, 1, 2, 3, 100]),
            "reverse": rng.random() < 0.4, "scan": rng.random() < 0.35}


GET_CLASSES = {"text": PlainText, "log": PlainLog, "syslog": PlainSyslog}


def get_impl(case):
    """-> (get result or 'TE', `in` result or 'TE', scanner attributes or None)"""
    base = GET_CLASSES[case["cls"]]
    chk_fn = all if case["check"] == "all" else any
    term = case["term"]
    term = list(term) if isinstance(term, list) else term
    scans = None
    cls = base
    if case.get("scan"):
        cls = type("Scanned", (base,), {})
        cls.keep_scan("kept", term, check=chk_fn, num=case["num"], reverse=case["reverse"])
        cls.last_scan("last", term, check=chk_fn)
        cls.token_scan("tok", term, check=chk_fn)
    try:
        obj = cls(context_wrap(list(case["lines"])))
    except TypeError:
        return ("TE", "TE", "TE")
    except BaseException as e:  # noqa
        return ("EXC:" + type(e).__name__,) * 3
    try:
        g = [d["raw_message"] for d in obj.get(term, check=chk_fn, num=case["num"], reverse=case["reverse"])]
    except TypeError:
        g = "TE"
    except BaseException as e:  # noqa
        g = "EXC:" + type(e).__name__
    try:
        h = term in obj
    except TypeError:
        h = "TE"
    except BaseException as e:  # noqa
        h = "EXC:" + type(e).__name__
    if case.get("scan"):
        scans = ([d["raw_message"] for d in obj.kept], obj.last.get("raw_message") if obj.last else None, obj.tok)
    return (g, h, scans)


def get_expected(case):
    """plain filtering, written without the implementation's helpers"""
    term = case["term"]
    if isinstance(term, list) and not term:
        return "TE", "TE"
    p = plain_pred(term, case["check"])
    hit = [l for l in case["lines"] if p(l)]
    num = case["num"]
    if num is not None:
        n = max(num, 0)
        hit = hit[max(len(hit) - n, 0):] if case["reverse"] else hit[:n]
    pa = plain_pred(term, "all")
    return hit, any(pa(l) for l in case["lines"])


def get_oracle(case, out):
    g, h, scans = out
    for x in (g, h):
        if isinstance(x, str) and x.startswith("EXC"):
            return "unexpected exception %s" % x
    wg, wh = get_expected(case)
    if g != wg:
        return "get() is not plain filtering: %r, expected %r" % (g, wg)
    if h != wh:
        return "`in` gave %r, expected %r" % (h, wh)
    if scans is not None and scans != "TE":
        p = plain_pred(case["term"], case["check"])
        hit = [l for l in case["lines"] if p(l)]
        if scans[0] != wg:
            return "keep_scan attribute differs from get(): %r" % (scans[0],)
        if scans[1] != (hit[-1] if hit else None):
            return "last_scan attribute is not the last matching line: %r" % (scans[1],)
        if scans[2] != bool(hit):
            return "token_scan attribute wrong: %r" % (scans[2],)
    return None


def get_lines(case):
    chkf = "A" if case["check"] == "all" else "O"
    num = "N" if case["num"] is None else str(case["num"])
    tf = term_fields(case["term"])
    ls = fields_list(case["lines"])
    out = ["get\t" + "\t".join([chkf, num, "1" if case["reverse"] else "0"] + tf + ls),
           "has\tA\t" + "\t".join(tf + ls)]
    if case.get("scan"):
        out.append("get\t" + "\t".join([chkf, "1", "1"] + tf + ls))
        out.append("has\t" + chkf + "\t" + "\t".join(tf + ls))
    return out


def get_canon_impl(case, out):
    g, h, scans = out

    def gl(x):
        return x if isinstance(x, str) else "OK\t" + "\t".join(fields_list(x))

    def hb(x):
        return x if isinstance(x, str) else ("1" if x else "0")
    res = [gl(g), hb(h)]
    if case.get("scan"):
        if scans == "TE" or scans is None:
            res += ["TE", "TE"]
        else:
            # kept is compared through the oracle (it equals get); last/tok against the model
            res += [gl([scans[1]] if scans[1] is not None else []), hb(scans[2])]
    return res


# ------------------------------------------------------------------ get_after

MONTHS = ["Jan", "Feb", "Mar", "Apr", "May", "Jun", "Jul", "Aug", "Sep", "Oct", "Nov", "Dec"]


def r_iso(t):
    return "%04d-%02d-%02d %02d:%02d:%02d" % (t.year, t.month, t.day, t.hour, t.minute, t.second)


def r_syslog(t):
    return "%s %2d %02d:%02d:%02d" % (MONTHS[t.month - 1], t.day, t.hour, t.minute, t.second)


def r_syslog0(t):
    return "%s %02d %02d:%02d:%02d" % (MONTHS[t.month - 1], t.day, t.hour, t.minute, t.second)


def r_apache(t):
    return "%02d/%s/%04d:%02d:%02d:%02d" % (t.day, MONTHS[t.month - 1], t.year, t.hour, t.minute, t.second)


def r_samba(t):
    return "%s %02d %02d:%02d:%02d %04d" % (MONTHS[t.month - 1], t.day, t.hour, t.minute, t.second, t.year)


def r_micro(t):
    return "%04d-%02d-%02dT%02d:%02d:%02d.%06d" % (t.year, t.month, t.day, t.hour, t.minute, t.second, t.microsecond)


def r_mysql(t):
    return "%02d%02d%02d %02d:%02d:%02d" % (t.year % 100, t.month, t.day, t.hour, t.minute, t.second)


def r_md(t):
    return "%02d-%02d %02d:%02d:%02d" % (t.month, t.day, t.hour, t.minute, t.second)


def r_time(t):
    return "%02d:%02d:%02d" % (t.hour, t.minute, t.second)


# name -> (time_format, [(renderer, has_year, has_date, has_micro)], base class name)
FORMATS = {
    "iso": ("%Y-%m-%d %H:%M:%S", [(r_iso, True, True, False)], "log"),
    "syslog": (None, [(r_syslog, False, True, False), (r_syslog0, False, True, False)], "syslog"),
    "messages": (None, [(r_syslog, False, True, False)], "messages"),
    "secure": (None, [(r_syslog, False, True, False)], "secure"),
    "apache": ("%d/%b/%Y:%H:%M:%S", [(r_apache, True, True, False)], "log"),
    "samba": ("%b %d %H:%M:%S %Y", [(r_samba, True, True, False)], "log"),
    "micro": ("%Y-%m-%dT%H:%M:%S.%f", [(r_micro, True, True, True)], "log"),
    "mariadb": ({"pre_10.1.5": "%y%m%d %H:%M:%S", "post_10.1.5": "%Y-%m-%d %H:%M:%S"},
                [(r_mysql, True, True, False), (r_iso, True, True, False)], "log"),
    "md": ("%m-%d %H:%M:%S", [(r_md, False, True, False)], "log"),
    "yearless-list": (["%b %d %H:%M:%S", "%m-%d %H:%M:%S"], [(r_syslog, False, True, False), (r_md, False, True, False)], "log"),
    # correspondence only (no oracle): time-only format, and a list mixing formats with and without year
    "timeonly": ("%H:%M:%S", [(r_time, False, False, False)], "log"),
    "mixed-list": (["%Y-%m-%d %H:%M:%S", "%b %d %H:%M:%S"], [(r_iso, True, True, False), (r_syslog, False, True, False)], "log"),
}
BASE_FORMATS = list(FORMATS)        # the formats of the one-call stream
# formats of the HISTORY stream: pairs under which the SAME stamp text is a valid but DIFFERENT date (day-first vs
# month-first, %y%m%d vs %d%m%y, with vs without year); lines are built by gen_history, not by a renderer
HIST_FORMATS = {
    "h-dmy": ("%d/%m/%Y %H:%M:%S", True), "h-mdy": ("%m/%d/%Y %H:%M:%S", True),
    "h-ymd6": ("%y%m%d %H:%M:%S", True), "h-dmy6": ("%d%m%y %H:%M:%S", True),
    "h-bd": ("%b %d %H:%M:%S", False), "h-bdY": ("%b %d %H:%M:%S %Y", True),
    "h-md": ("%m/%d %H:%M:%S", False), "h-dm": ("%d/%m %H:%M:%S", False),
}
HIST_PAIRS = [("h-dmy", "h-mdy"), ("h-ymd6", "h-dmy6"), ("h-bd", "h-bdY"), ("h-md", "h-dm")]
for _k, (_tf, _hy) in HIST_FORMATS.items():
    FORMATS[_k] = (_tf, [(None, _hy, True, False)], "log")
ORACLE_FORMATS = [k for k in FORMATS if k not in ("timeonly", "mixed-list")]
_CLS_CACHE = {}


# ---- round 10: the time formats of EVERY shipped LogFileOutput subclass (read at import; rendered with strftime, which is
# independent of the code under test).  name = "ship:" + the format as JSON, so that a replay finds it again
SHIPPED_FORMATS = {}          # name -> {"tf": format, "classes": [qualified names], "cls": a shipped class that can be used as is or None}


def strf_renderer(f):
    def r(t):
        return t.strftime(f)
    r.__name__ = "strf:" + f
    r.y2 = "%y" in f
    return r


def _scan_shipped_formats():
    import importlib
    import pkgutil
    import warnings
    try:
        import insights.parsers as pkg
    except Exception:  # noqa
        return
    with warnings.catch_warnings():
        warnings.simplefilter("ignore")
        for m in pkgutil.walk_packages(pkg.__path__, "insights.parsers."):
            try:
                mod = importlib.import_module(m.name)
            except BaseException:  # noqa
                continue
            for k, v in sorted(vars(mod).items()):
                if not (isinstance(v, type) and issubclass(v, LogFileOutput) and v.__module__ == m.name):
                    continue
                tf = v.__dict__.get("time_format", getattr(v, "time_format", None))
                texts = [tf] if isinstance(tf, str) else list(tf.values()) if isinstance(tf, dict) else list(tf) if isinstance(tf, list) else None
                if texts is None or not all(isinstance(x, str) and "%" in x for x in texts):
                    continue      # None / not a strptime format at all: see the get_after-format stream and the report
                name = "ship:" + json.dumps(tf, sort_keys=True)
                e = SHIPPED_FORMATS.setdefault(name, {"tf": tf, "classes": [], "cls": None})
                e["classes"].append(m.name + "." + k)
                plain = (v.parse_content is TextFileOutput.parse_content and v.__init__ is Parser.__init__
                         and v._handle_content is Parser._handle_content and v.get_after is LogFileOutput.get_after
                         and v._parse_line is LogFileOutput._parse_line and v.get is TextFileOutput.get
                         and v._valid_search is TextFileOutput._valid_search and not v.scanners)
                if plain and e["cls"] is None:
                    e["cls"] = v
    for name, e in SHIPPED_FORMATS.items():
        texts = [e["tf"]] if isinstance(e["tf"], str) else list(e["tf"].values()) if isinstance(e["tf"], dict) else list(e["tf"])
        rends = []
        for f in texts:
            hy = "%Y" in f or "%y" in f
            hd = "%d" in f and ("%m" in f or "%b" in f or "%B" in f)
            rends.append((strf_renderer(f), hy, hd, "%f" in f))
        FORMATS[name] = (e["tf"], rends, "shipped")
        if all(r[2] for r in rends) and len(set(r[1] for r in rends)) == 1:
            ORACLE_FORMATS.append(name)


_scan_shipped_formats()



def log_class(fmt):
    if fmt in _CLS_CACHE:
        return _CLS_CACHE[fmt]
    tf, _, base = FORMATS[fmt]
    if base == "syslog":
        c = PlainSyslog
    elif base == "messages":
        from insights.parsers.messages import Messages as c
    elif base == "secure":
        from insights.parsers.secure import Secure as c
    elif base == "shipped":
        # the shipped class itself where it adds nothing to the base class, else a fresh subclass with its format
        c = SHIPPED_FORMATS[fmt]["cls"] or type("Log_shipped", (LogFileOutput,), {"time_format": tf})
    else:
        c = type("Log_" + fmt.replace("-", "_"), (LogFileOutput,), {"time_format": tf})
    _CLS_CACHE[fmt] = c
    return c


def pivot_year(yy):
    """what a two-digit year written with %y denotes (POSIX / _strptime pivot): 00-68 -> 2000-2068, 69-99 -> 1969-1999"""
    return 2000 + yy if yy <= 68 else 1900 + yy


Y2_RENDERERS = {"r_mysql": 0}      # renderers writing the year with two digits -> offset of the two digits in the rendered stamp


def denoted(rend, t):
    """(the time the rendered stamp DENOTES in its format, the two digits of the year or None).  For %y forms the
    year is read back from the rendered text with the pivot rule: a year outside 1969-2068 is not representable.
    None when the denoted date does not exist (Feb 29 moved to a non-leap year)."""
    if getattr(rend, "y2", False):          # strftime renderers of shipped formats with %y
        yy = t.year % 100
        try:
            return t.replace(year=pivot_year(yy)), yy
        except ValueError:
            return None, yy
    off = Y2_RENDERERS.get(rend.__name__)
    if off is None:
        return t, None
    yy = int(rend(t)[off:off + 2])
    try:
        return t.replace(year=pivot_year(yy)), yy
    except ValueError:
        return None, yy


def fmt_has_year(fmt):
    return all(r[1] for r in FORMATS[fmt][1])


MSG = ["kernel: link up", "sshd[1]: error opening", "proc: started ok", "host app: failed at 10:5", "x", "port 8080 open",
       "error", "  at line 12", "\tcontinued error text", "", "Caused by: failed", "Jan", "retry 3 of 5: error"]
PREFIX = ["", "", "", "[", "host1 ", "<6>"]


def gen_threshold(rng):
    r = rng.random()
    y = rng.choice([1971, 1999, 2000, 2019, 2020, 2023, 2024, 2024, 2025, 2028, 2067])
    if r < 0.3:
        mo, d = rng.choice([(1, 1), (1, 2), (1, 5), (12, 27), (12, 31), (12, 30), (1, 25), (12, 5)])
    elif r < 0.5:
        mo, d = rng.choice([(2, 27), (2, 28), (3, 1), (3, 2), (2, 1)])
    else:
        mo, d = rng.randint(1, 12), rng.randint(1, 28)
    us = rng.choice([0, 0, 0, 0, 500000, 1])
    return datetime.datetime(y, mo, d, rng.choice([0, 0, 12, 23]), rng.choice([0, 30, 59]), rng.choice([0, 0, 59]), us)


def gen_after_case(rng, fmt=None, thr=None, far=False):
    fmt = fmt or rng.choice(BASE_FORMATS)
    rends = FORMATS[fmt][1]
    thr = thr or gen_threshold(rng)
    n = rng.choice([0, 1, 1, 2, 3, 5, 8, 12])
    lines = []
    cur = thr + datetime.timedelta(days=rng.choice([-40, -20, -3, -1, -1, 0, 0, 0, 1, 10]), seconds=rng.randint(-5000, 5000))
    chrono = rng.random() < 0.6
    for _ in range(n):
        if rng.random() < 0.62:
            r = rng.random()
            if chrono and not far:
                cur = cur + datetime.timedelta(seconds=rng.choice([0, 1, 60, 3600, 86400, 86400 * 3, 86400 * 9]))
                t = cur
            elif r < 0.2:
                t = thr
            elif r < 0.35:
                t = thr + datetime.timedelta(seconds=rng.choice([-1, 1]))
            elif r < 0.45:
                t = thr + datetime.timedelta(microseconds=rng.choice([-1, 1, -500000, 500000]))
            elif far and r < 0.7:   # years on both sides of the %y pivot window
                t = thr.replace(year=rng.choice([1967, 1968, 1969, 1970, 1999, 2000, 2001, 2067, 2068, 2069, 2070]), day=min(thr.day, 28))
            elif r < 0.85:
                t = thr + datetime.timedelta(seconds=rng.randint(-20 * 86400, 34 * 86400))
            else:
                t = thr + datetime.timedelta(seconds=rng.randint(-420 * 86400, 420 * 86400))
            if rng.random() < 0.08:
                t = t.replace(microsecond=0) if t == thr else t
            rend, hy, hd, hm = rng.choice(rends)
            if not hm:
                t = t.replace(microsecond=0)
            stamp_text = rend(t)
            t, yy = denoted(rend, t)         # what the text denotes: for %y forms the pivoted year
            if t is None:
                lines.append({"text": rng.choice(MSG), "t": None})
                continue
            text = rng.choice(PREFIX) + stamp_text + " " + rng.choice(MSG)
            if rng.random() < 0.05:
                t2 = t + datetime.timedelta(days=rng.choice([-50, 50]))
                text += " (was " + rend(t2) + ")"
            lines.append({"text": text, "t": [t.year, t.month, t.day, t.hour, t.minute, t.second, t.microsecond],
                          "hy": hy, "hd": hd, "yy": yy})
        else:
            lines.append({"text": rng.choice(MSG), "t": None})
    s = rng.choice([None, None, None, None, None, None, "error", "", ["error"], ["error", "failed"], "kernel", [], ["r", "e"], "o", " "])
    return {"op": "after", "fmt": fmt, "thr": [thr.year, thr.month, thr.day, thr.hour, thr.minute, thr.second, thr.microsecond],
            "s": s, "lines": lines}


def normalise_after(case):
    """records written before two-digit years were tracked (no "yy" key): read the two digits back from the text of
    a %y%m%d stamp and let the line denote the pivoted year"""
    import re
    if case.get("fmt") != "mariadb":
        return case
    for l in case["lines"]:
        if l.get("t") and "yy" not in l:
            m = re.search(r"(?<!\d)(\d{2})(\d{2})(\d{2}) \d{2}:\d{2}:\d{2}|\d{4}-\d{2}-\d{2} \d{2}:\d{2}:\d{2}", l["text"])
            if m and m.group(1) is not None:
                l["yy"] = int(m.group(1))
                l["t"] = [pivot_year(l["yy"])] + list(l["t"][1:])
            else:
                l["yy"] = None
    return case


def after_impl(case):
    cls = log_class(case["fmt"])
    thr = datetime.datetime(*case["thr"])
    s = case["s"]
    s = list(s) if isinstance(s, list) else s
    try:
        obj = cls(context_wrap([l["text"] for l in case["lines"]]))
        return [d["raw_message"] for d in obj.get_after(thr, s)]
    except (ValueError, UnboundLocalError):
        # the conversion of a matched stamp raised: ValueError from strptime / replace; with a list or dict
        # of formats every strptime fails and `return ts` raises UnboundLocalError (line 1351)
        return "VE"
    except TypeError:
        return "TE"
    except BaseException as e:  # noqa
        return "EXC:" + type(e).__name__


# ---- several parsers built one after the other from the SAME context object (all parsers of one spec): each outcome
# must be what it is when the parser is built alone from a fresh context; nothing is carried on the context

class PlainParser(Parser):
    def parse_content(self, content):
        self.got = content


CTX_EXTRAS = [["timed out"], ["invalid option"], ["unable to establish connection", "daemon"], ["failed"], [], None]


def gen_ctx_history(rng):
    ex = rng.sample(CTX_EXTRAS, 3)
    pool = [p_ for e in ex if e for p_ in e]
    content = []
    for _ in range(rng.choice([1, 1, 1, 2, 3])):
        r = rng.random()
        if r < 0.35 and pool:
            ph = rand_case(rng, rng.choice(pool))       # an extra bad line of only one (or two) of the parsers
        elif r < 0.55:
            ph = rand_case(rng, rng.choice(REF_SINGLE + REF_MULTI))
        elif r < 0.65:
            content.append(json.dumps(gen_container(rng)))
            continue
        else:
            ph = ""
        content.append((gen_text(rng, 2) + " " + ph + " " + gen_text(rng, 2)).strip())
    builds = [{"kind": "cmd", "extra": ex[0]}, {"kind": "cmd", "extra": ex[1]}]
    builds += [rng.choice([{"kind": "cmd", "extra": ex[2]}, {"kind": "plain"}, {"kind": "json"},
                           {"kind": "log", "term": rng.choice(TERM_POOL)}]) for _ in range(rng.randint(0, 2))]
    rng.shuffle(builds)                                  # either CommandParser goes first
    return {"op": "ctxseq", "content": content, "builds": builds}


def ctx_history_eval(case):
    content = case["content"]
    orig = list(content)
    ctx = context_wrap(list(content))
    held = ctx.content
    outs, canon_outs, lines, verdicts = [], [], [], []
    for i, b in enumerate(case["builds"]):
        where = "construction %d of %d (%s%s, after %s)" % (i + 1, len(case["builds"]), b["kind"],
                                                            " extra=%r" % (b["extra"],) if b["kind"] == "cmd" else "",
                                                            [x["kind"] for x in case["builds"][:i]] or "nothing")
        desc, fid = None, None
        if b["kind"] == "cmd":
            cls = PlainCmd if b["extra"] is None else extra_cmd(list(b["extra"]))
            try:
                out = ("OK", cls(ctx).got, cls.__name__)
            except ContentException as e:
                out = ("CE", str(e))
            except BaseException as e:  # noqa
                out = ("EXC", type(e).__name__)
            one = {"op": "cmd", "extra": b["extra"], "content": orig}
            canon_outs.append(cmd_canon(out))
            lines.append(cmd_line(one))
            desc = cmd_oracle(one, out)
        elif b["kind"] == "plain":
            try:
                out = ("OK", PlainParser(ctx).got)
                desc = None if out[1] == orig else "a plain Parser received altered content: %r" % (out[1],)
            except BaseException as e:  # noqa
                out = ("EXC", type(e).__name__)
                desc = "a plain Parser raised %s" % out[1]
        elif b["kind"] == "json":
            try:
                pj = PlainJson(ctx)
                out = ("DATA", pj.data, getattr(pj, "unparsed_lines", None))
            except ContentException:
                out = ("EXC", "ContentException")
            except SkipComponent:
                out = ("SKIP",)
            except ParseException:
                out = ("PE",)
            except BaseException as e:  # noqa
                out = ("EXC", type(e).__name__)
            one = {"op": "json", "content": orig, "noise": 0, "intent": "plain"}
            canon_outs.append(doc_canon(out))
            lines.append(json_line(one))
            desc, fid = json_oracle(one, out)
        else:
            try:
                obj = PlainLog(ctx)
                got = [d["raw_message"] for d in obj.get(b["term"])]
                out = ("OK", list(obj.lines), got)
                canon_outs.append("OK\t" + "\t".join(fields_list(got)))
                if out[1] != orig:
                    desc = "a LogFileOutput holds altered lines: %r" % (out[1],)
                elif got != [l for l in orig if b["term"] in l]:
                    desc = "get() is not plain filtering: %r" % (got,)
            except BaseException as e:  # noqa
                out = ("EXC", type(e).__name__)
                canon_outs.append("EXC:" + out[1])
                desc = "a LogFileOutput raised %s" % out[1]
            lines.append("get\tA\tN\t0\t" + "\t".join(term_fields(b["term"]) + fields_list(orig)))
        outs.append(out)
        if desc:
            verdicts.append((where + ": " + desc, fid))
        if ctx.content is not held or list(ctx.content) != orig:
            verdicts.append((where + ": the context's content was changed to %r" % (ctx.content,), None))
            break
    real = [v for v in verdicts if v[1] is None]
    verdict = real[0] if real else verdicts[0] if verdicts else (None, None)
    return outs, canon_outs, lines, verdict


# ---- histories: the result of a get_after call must not depend on the calls made before it in the same process

class FlexLog(LogFileOutput):
    """one class for every format: `time_format` is set on the INSTANCE before the call"""


class SwitchLog(LogFileOutput):
    """one class for every format: the CLASS attribute `time_format` is re-assigned before the call"""


_HIST_CLS = {}


def shaped(tf, form):
    return tf if form == "str" else [tf] if form == "list" else {"doc": tf}


def hist_readings(kind, rng, center):
    """one stamp text and what it denotes under each format of the pair: name -> (y or None, month, day, yy or None), or
    None when the text is not a stamp in that format (the field is out of the format's range, so the regular expression
    does not match and the line is a continuation line there).  Written from the formats' definitions, no strptime."""
    h, mi, sec = rng.choice([0, 9, 10, 23]), rng.choice([0, 30, 59]), rng.choice([0, 1, 59])
    hms = "%02d:%02d:%02d" % (h, mi, sec)
    if kind == "h-dmy":
        a = rng.randint(1, 12) if rng.random() < 0.85 else rng.randint(13, 28)
        b, y = rng.randint(1, 12), center.year + rng.choice([0, 0, 0, -1, 1])
        return "%02d/%02d/%04d %s" % (a, b, y, hms), (h, mi, sec), {
            "h-dmy": (y, b, a, None), "h-mdy": (y, a, b, None) if a <= 12 else None}
    if kind == "h-ymd6":
        p_, q, r = rng.randint(1, 28), rng.randint(1, 12), rng.randint(1, 28)
        return "%02d%02d%02d %s" % (p_, q, r, hms), (h, mi, sec), {
            "h-ymd6": (pivot_year(p_), q, r, p_), "h-dmy6": (pivot_year(r), q, p_, r)}
    if kind == "h-bd":
        t = center + datetime.timedelta(days=rng.randint(-20, 20))
        return "%s %02d %s %04d" % (MONTHS[t.month - 1], t.day, hms, t.year), (h, mi, sec), {
            "h-bd": (None, t.month, t.day, None, t.year), "h-bdY": (t.year, t.month, t.day, None)}
    a = rng.randint(1, 12) if rng.random() < 0.85 else rng.randint(13, 28)
    b = rng.randint(1, 12)
    return "%02d/%02d %s" % (a, b, hms), (h, mi, sec), {
        "h-md": (None, a, b, None) if a <= 12 else None, "h-dm": (None, b, a, None)}


def gen_history(rng):
    pair = rng.choice(HIST_PAIRS)
    center = gen_threshold(rng).replace(microsecond=0)
    if pair[0] == "h-ymd6":
        center = center.replace(year=rng.randint(2001, 2028))
    base = []
    for _ in range(rng.randint(2, 8)):
        if rng.random() < 0.7:
            stamp, hms, rd = hist_readings(pair[0], rng, center)
            base.append((rng.choice(PREFIX) + stamp + " " + rng.choice(MSG), hms, rd))
        else:
            base.append((rng.choice(MSG), None, None))
    order = list(pair)
    rng.shuffle(order)                       # each format goes first half of the time
    ncalls = rng.randint(2, 5)
    fmts = (order + [rng.choice(pair) for _ in range(3)])[:ncalls]
    calls = []
    for fmt in fmts:
        lines_src = base if rng.random() < 0.7 else [x for x in base if rng.random() < 0.7]
        stamped = [x for x in lines_src if x[2] and x[2].get(fmt)]
        if stamped and rng.random() < 0.8:       # threshold at / next to a date some line denotes IN THIS FORMAT
            _, hms, rd = rng.choice(stamped)
            r = rd[fmt]
            y = r[0] if r[0] is not None else (r[4] if len(r) > 4 else center.year)
            thr = datetime.datetime(y, r[1], r[2], *hms) + datetime.timedelta(
                seconds=rng.choice([0, 0, 1, -1, 86400, -86400, 3 * 86400, -3 * 86400, 40 * 86400, -40 * 86400]))
        else:
            thr = center + datetime.timedelta(days=rng.randint(-25, 25))
        lines = []
        for text, hms, rd in lines_src:
            r = rd.get(fmt) if rd else None
            if r is None:
                lines.append({"text": text, "t": None})
                continue
            # a yearless stamp denotes a date of the log's own year when the text carries one, else of the threshold's year
            y = r[0] if r[0] is not None else (r[4] if len(r) > 4 else thr.year)
            lines.append({"text": text, "t": [y, r[1], r[2], hms[0], hms[1], hms[2], 0], "hy": r[0] is not None, "hd": True, "yy": r[3]})
        calls.append({"op": "after", "fmt": fmt, "form": rng.choice(["str", "str", "list", "dict"]),
                      "mode": rng.choice(["sub", "sub", "flex", "switch", "lazy"]), "reuse": rng.random() < 0.3,
                      "thr": [thr.year, thr.month, thr.day, thr.hour, thr.minute, thr.second, 0],
                      "s": rng.choice([None, None, None, None, "error", ["e"], ""]), "lines": lines})
    return {"op": "afterseq", "pair": list(pair), "calls": calls}


def history_impl(case):
    """the calls of one history, in order, in this process; instances are reused where the call says so"""
    outs, live = [], {}
    for c in case["calls"]:
        tf = shaped(HIST_FORMATS[c["fmt"]][0], c["form"])
        texts = [l["text"] for l in c["lines"]]
        key = (c["mode"], c["fmt"], c["form"], tuple(texts))
        try:
            obj = live.get(key) if c["reuse"] else None
            if obj is None:
                if c["mode"] in ("sub", "lazy"):
                    k = (c["fmt"], c["form"], c["mode"])
                    if k not in _HIST_CLS:
                        base = LazyLogFileOutput if c["mode"] == "lazy" else LogFileOutput      # round 10: lazy content loading
                        _HIST_CLS[k] = type("Hist_%s_%s" % (c["fmt"][2:], c["form"]), (base,), {"time_format": tf})
                    obj = _HIST_CLS[k](context_wrap(texts))
                elif c["mode"] == "flex":
                    obj = FlexLog(context_wrap(texts))
                    obj.time_format = tf
                else:
                    SwitchLog.time_format = tf
                    obj = SwitchLog(context_wrap(texts))
                live[key] = obj
            elif c["mode"] == "switch":
                SwitchLog.time_format = tf
            s = c["s"]
            outs.append([d["raw_message"] for d in obj.get_after(datetime.datetime(*c["thr"]), list(s) if isinstance(s, list) else s)])
        except (ValueError, UnboundLocalError):
            outs.append("VE")
        except TypeError:
            outs.append("TE")
        except BaseException as e:  # noqa
            outs.append("EXC:" + type(e).__name__)
    return outs


def tod(t):
    return ((t[3] * 60 + t[4]) * 60 + t[5]) * 1000000 + t[6]


def after_line(case):
    thr = case["thr"]
    s = case["s"]
    # round 10: the model derives logs_have_year from the time_format itself (fmtCheck); it is no longer handed over
    fs = fmt_fields(case_time_format(case)) + [str(thr[0]), str(thr[1]), str(thr[2]), str(tod(thr))]
    fs += ["N"] if s is None else term_fields(s)
    fs.append(str(len(case["lines"])))
    for l in case["lines"]:
        fs.append(enc(l["text"]))
        t = l["t"]
        if t is None:
            fs.append("-")
        else:
            # a two-digit year goes to the driver AS WRITTEN; the model applies its own pivot
            y = ("y%d" % l["yy"]) if l.get("yy") is not None else str(t[0]) if l["hy"] else "N"
            mo, d = (t[1], t[2]) if l["hd"] else (1, 1)
            fs.append("%s,%d,%d,%d" % (y, mo, d, tod(t)))
    return "afterf\t" + "\t".join(fs)


def after_considered(case):
    s = case["s"]
    if s:
        p = plain_pred(s, "all")
        return [l for l in case["lines"] if p(l["text"])]
    return list(case["lines"])


def after_feb29(case):
    """input predicate of known finding feb29-yearless: a considered line stamped Feb 29 in a format without year"""
    if fmt_has_year(case["fmt"]) or case["s"] == []:
        return False
    return any(l["t"] is not None and l["t"][1] == 2 and l["t"][2] == 29 for l in after_considered(case))


def after_oracle_applicable(case):
    if case["fmt"] not in ORACLE_FORMATS:
        return False
    if case["s"] == []:
        return False
    if fmt_has_year(case["fmt"]):
        return True
    thr = datetime.datetime(*case["thr"])
    for l in after_considered(case):
        if l["t"] is None:
            continue
        t = datetime.datetime(*l["t"])
        d = abs(t - thr)
        if not (d <= datetime.timedelta(days=34) or (t.year == thr.year and d <= datetime.timedelta(days=330))):
            return False     # a yearless stamp more than ~11 months away is ambiguous by nature
    return True


def after_oracle(case, out):
    """direct recomputation from the generated log's own timestamps"""
    if isinstance(out, str) and out.startswith("EXC"):
        return "unexpected exception %s" % out, None
    if not after_oracle_applicable(case):
        return None, None
    thr = datetime.datetime(*case["thr"])
    want, inc = [], False
    for l in after_considered(case):
        if l["t"] is not None:
            inc = datetime.datetime(*l["t"]) >= thr
        if inc:
            want.append(l["text"])
    if out == want:
        return None, None
    fid = "feb29-yearless" if (out == "VE" and after_feb29(case)) else None
    return "get_after gave %r, the log's own timestamps give %r" % (out, want), fid


# ------------------------------------------------------------------ round 10: argument checks of get / in

class PlainLazy(LazyLogFileOutput):
    pass


GET_CLASSES["lazy"] = PlainLazy

BAD_TERMS = {"int": 5, "float": 1.5, "bytes": b"error", "tuple": ("error",), "dict": {"error": 1}, "set": {"error"},
             "list-int": ["error", 5], "list-none": ["error", None], "list-bytes": [b"error"], "list-list": [["error"]],
             "true": True, "zero": 0}
BAD_NUMS = {"str": "1", "float": 1.0, "list": [1], "float-half": 0.5, "tuple": (1,), "none-str": "None"}


def gen_getargs_case(rng):
    base = gen_get_case(rng)
    r = rng.random()
    if r < 0.4:
        term = {"k": "bad", "v": rng.choice(sorted(BAD_TERMS))}
    elif r < 0.6:
        term = {"k": "none"}
    else:
        term = {"k": "ok", "v": base["term"]}
    r = rng.random()
    if r < 0.3:
        num = {"k": "bad", "v": rng.choice(sorted(BAD_NUMS))}
    elif r < 0.45:
        num = {"k": "bool", "v": rng.random() < 0.5}
    else:
        num = {"k": "ok", "v": base["num"]}
    return {"op": "getargs", "cls": rng.choice(["text", "log", "syslog", "lazy"]), "lines": base["lines"], "term": term, "num": num,
            "check": base["check"], "reverse": base["reverse"]}


def getargs_values(case):
    t, n = case["term"], case["num"]
    term = BAD_TERMS[t["v"]] if t["k"] == "bad" else None if t["k"] == "none" else (list(t["v"]) if isinstance(t["v"], list) else t["v"])
    num = BAD_NUMS[n["v"]] if n["k"] == "bad" else n["v"]
    return term, num


def getargs_impl(case):
    term, num = getargs_values(case)
    chk_fn = all if case["check"] == "all" else any
    try:
        obj = GET_CLASSES[case["cls"]](context_wrap(list(case["lines"])))
    except BaseException as e:  # noqa
        return ("EXC:" + type(e).__name__,) * 2
    try:
        res = obj.get(term, check=chk_fn, num=num, reverse=case["reverse"])
        if isinstance(res, list) and all(isinstance(d, dict) and "raw_message" in d for d in res):
            g = [d["raw_message"] for d in res]
        else:
            g = "EXC:shape:%s" % type(res).__name__
    except TypeError:
        g = "TE"
    except BaseException as e:  # noqa
        g = "EXC:" + type(e).__name__
    try:
        h = term in obj
        h = h if isinstance(h, bool) else "EXC:shape:%s" % type(h).__name__
    except TypeError:
        h = "TE"
    except BaseException as e:  # noqa
        h = "EXC:" + type(e).__name__
    return (g, h)


def getargs_oracle(case, out):
    """documented: TypeError when `s` is not a string or a list of strings, or `num` is not an integer; otherwise plain
    filtering.  (`s=None` is not documented for get: correspondence only.)"""
    g, h = out
    for x in out:
        if isinstance(x, str) and x.startswith("EXC"):
            return "unexpected outcome %s" % x
    t, n = case["term"], case["num"]
    if n["k"] == "bad" and g != "TE":
        return "num=%r is not an integer, yet get() answered %r instead of TypeError" % (BAD_NUMS[n["v"]], g)
    if t["k"] == "bad":
        if g != "TE":
            return "search item %r is neither a string nor a list of strings, yet get() answered %r" % (BAD_TERMS[t["v"]], g)
        if h != "TE":
            return "search item %r is neither a string nor a list of strings, yet `in` answered %r" % (BAD_TERMS[t["v"]], h)
    if t["k"] == "ok" and n["k"] != "bad":
        num = n["v"]
        num = int(num) if isinstance(num, bool) else num
        wg, wh = get_expected({"term": t["v"], "check": case["check"], "lines": case["lines"], "num": num, "reverse": case["reverse"]})
        if g != wg:
            return "get() is not plain filtering: %r, expected %r" % (g, wg)
        if h != wh:
            return "`in` gave %r, expected %r" % (h, wh)
    return None


def termarg_fields(t):
    return ["B"] if t["k"] == "bad" else ["N"] if t["k"] == "none" else term_fields(t["v"])


def getargs_lines(case):
    n = case["num"]
    num = "B" if n["k"] == "bad" else "N" if n["v"] is None else str(int(n["v"]))
    tf = termarg_fields(case["term"])
    ls = fields_list(case["lines"])
    return ["getpy\t" + "\t".join(["A" if case["check"] == "all" else "O", num, "1" if case["reverse"] else "0"] + tf + ls),
            "haspy\t" + "\t".join(tf + ls)]


def getargs_canon(out):
    g, h = out
    return [g if isinstance(g, str) else "OK\t" + "\t".join(fields_list(g)), h if isinstance(h, str) else ("1" if h else "0")]


# ------------------------------------------------------------------ round 10: time_format (format-level part of get_after)

SYSLOG_FORMAT = "%b %d %H:%M:%S"          # Syslog / Messages / Secure at the pinned tree (reference, not read from the class)
KNOWN_DIRECTIVES = "aAwdbBmyYHIpMSf"      # documented table of get_after (reference of the oracle)


def fmt_fields(tf):
    if tf is None:
        return ["N"]
    if isinstance(tf, str):
        return ["S", enc(tf)]
    if isinstance(tf, dict):
        tf = list(tf.values())
    if isinstance(tf, list) and all(isinstance(x, str) for x in tf):
        return ["L"] + fields_list(tf)
    return ["O"]


def case_time_format(case):
    """the time_format the object of this call has (an input of the model since round 10)"""
    fmt = case["fmt"]
    if fmt in HIST_FORMATS:
        return shaped(HIST_FORMATS[fmt][0], case.get("form", "str"))
    tf = FORMATS[fmt][0]
    return SYSLOG_FORMAT if tf is None else tf


FMT_BAD_DIRECTIVES = ["%j", "%z", "%Z", "%U", "%c", "%x", "%X", "%G", "%e", "%1", "%_", "%T", "%s", "%D", "%F"]
FMT_GOOD = ["%Y-%m-%d %H:%M:%S", "%b %d %H:%M:%S", "%a %b %d %H:%M:%S %Y", "%A, %B %d %Y %I:%M:%S %p", "%w %y%m%d %H:%M:%S.%f",
            "%%Y-%m-%d", "100%% %H:%M", "%d/%b/%Y:%H:%M:%S", "no directive at all", "% Y", "%", "%%", "%-Y"]
FMT_OTHER = {"int": 5, "tuple": ("%Y-%m-%d %H:%M:%S",), "bytes": b"%Y-%m-%d", "set": {"%Y"}, "false": False, "zero": 0}


def gen_fmt_text(rng):
    r = rng.random()
    if r < 0.45:
        return rng.choice(FMT_GOOD)
    g = rng.choice(FMT_GOOD[:8])
    b = rng.choice(FMT_BAD_DIRECTIVES)
    if r < 0.7:
        return g + " " + b
    if r < 0.85:
        return b + g
    i = rng.randrange(len(g) + 1)
    return g[:i] + b + g[i:]


def gen_afterfmt_case(rng):
    r = rng.random()
    if r < 0.12:
        tf = {"k": "none"}
    elif r < 0.27:
        tf = {"k": "other", "v": rng.choice(sorted(FMT_OTHER))}
    elif r < 0.62:
        tf = {"k": "str", "v": gen_fmt_text(rng)}
    elif r < 0.82:
        tf = {"k": "list", "v": [gen_fmt_text(rng) for _ in range(rng.randint(1, 3))]}
    else:
        tf = {"k": "dict", "v": dict(("v%d" % i, gen_fmt_text(rng)) for i in range(rng.randint(1, 3)))}
    thr = gen_threshold(rng)
    lines = [rng.choice(MSG) for _ in range(rng.choice([0, 1, 2, 4]))]       # no line carries a stamp in any of these formats
    s = rng.choice([None, None, None, "error", [], ["e"], ""])
    return {"op": "afterfmt", "tf": tf, "mode": rng.choice(["class", "class", "instance"]),
            "thr": [thr.year, thr.month, thr.day, thr.hour, thr.minute, thr.second, thr.microsecond], "s": s, "lines": lines}


def afterfmt_value(tf):
    return None if tf["k"] == "none" else FMT_OTHER[tf["v"]] if tf["k"] == "other" else tf["v"]


def afterfmt_impl(case):
    tf = afterfmt_value(case["tf"])
    tf = list(tf) if isinstance(tf, list) else dict(tf) if isinstance(tf, dict) else tf
    s = case["s"]
    try:
        if case["mode"] == "class":
            obj = type("FmtLog", (LogFileOutput,), {"time_format": tf})(context_wrap(list(case["lines"])))
        else:
            obj = FlexLog(context_wrap(list(case["lines"])))
            obj.time_format = tf
    except BaseException as e:  # noqa
        return "EXC:construct:" + type(e).__name__
    try:
        gen = obj.get_after(datetime.datetime(*case["thr"]), list(s) if isinstance(s, list) else s)
    except BaseException as e:  # noqa
        return "EXC:call:" + type(e).__name__          # get_after is a generator function: the call itself never raises
    try:
        return [d["raw_message"] for d in gen]
    except RuntimeError:
        return "RE"
    except ParseException:
        return "PE"
    except (ValueError, UnboundLocalError):
        return "VE"
    except TypeError:
        return "TE"
    except BaseException as e:  # noqa
        return "EXC:" + type(e).__name__


def fmt_unknown_directive(text):
    """reference reading of the documentation: a `%` followed by a letter/digit/underscore outside the table"""
    i, n = 0, len(text)
    while i < n - 1:
        if text[i] == "%" and (text[i + 1].isalnum() or text[i + 1] == "_"):
            if text[i + 1] not in KNOWN_DIRECTIVES:
                return True
            i += 2
        else:
            i += 1
    return False


def afterfmt_oracle(case, out):
    if isinstance(out, str) and out.startswith("EXC"):
        return "unexpected outcome %s" % out
    tf = case["tf"]
    texts = [tf["v"]] if tf["k"] == "str" else list(tf["v"]) if tf["k"] == "list" else list(tf["v"].values()) if tf["k"] == "dict" else []
    if any(fmt_unknown_directive(t) for t in texts) and out != "PE":
        return "time_format %r has a directive get_after does not understand, yet the call answered %r instead of ParseException" % (texts, out)
    if tf["k"] == "none" and not isinstance(out, str):
        return "time_format None, yet get_after returned lines %r" % (out,)
    return None


def afterfmt_line(case):
    thr, s = case["thr"], case["s"]
    fs = fmt_fields(afterfmt_value(case["tf"])) + [str(thr[0]), str(thr[1]), str(thr[2]), str(tod(thr))]
    fs += ["N"] if s is None else term_fields(s)
    fs.append(str(len(case["lines"])))
    for l in case["lines"]:
        fs += [enc(l), "-"]
    return "afterf\t" + "\t".join(fs)


# ------------------------------------------------------------------ round 10: scanner registration histories

SCAN_KEYS = ["k0", "k1", "k2", "k3"]
SCAN_BASES = {"text": TextFileOutput, "log": LogFileOutput, "syslog": Syslog, "lazy": LazyLogFileOutput}


def gen_scanhist(rng):
    ncls = rng.randint(1, 4)
    ops, classes, nlazy = [], [], 0
    lines_pool = [[gen_text(rng, 5) for _ in range(rng.choice([0, 1, 3, 5]))] for _ in range(2)]

    def add_class():
        i = len(classes)
        if classes and rng.random() < 0.6:
            parent = rng.randrange(len(classes))
            classes.append({"base": parent, "lazy": classes[parent]["lazy"]})
        else:
            b = rng.choice(["text", "log", "syslog", "lazy", "lazy"])
            classes.append({"base": b, "lazy": b == "lazy"})
        ops.append({"o": "C", "c": i, "base": classes[i]["base"]})
    add_class()
    objs = []           # lazy objects: (class)
    for _ in range(rng.randint(3, 12)):
        r = rng.random()
        if r < 0.15 and len(classes) < ncls:
            add_class()
        elif r < 0.55:
            c = rng.randrange(len(classes))
            term = gen_term(rng, allow_empty_list=rng.random() < 0.3)
            src = [l for ls in lines_pool for l in ls if l]
            if src and rng.random() < 0.6:
                term = rng.choice(rng.choice(src).split(" "))
            ops.append({"o": "R", "c": c, "key": rng.choice(SCAN_KEYS), "kind": rng.choice(["K", "K", "L", "T"]), "term": term,
                        "check": rng.choice(["all", "any"]), "num": rng.choice([None, None, 0, 1, 2, -1]), "rev": rng.random() < 0.4})
        elif r < 0.85 or not objs:
            c = rng.randrange(len(classes))
            ops.append({"o": "B", "c": c, "lines": list(rng.choice(lines_pool))})
            if classes[c]["lazy"]:
                objs.append(c)
        else:
            j = rng.randrange(len(objs))
            if rng.random() < 0.5:
                ops.append({"o": "A", "obj": j})
            else:
                ops.append({"o": "K", "obj": j, "key": rng.choice(SCAN_KEYS + ["", "nokey"])})
    for j in range(len(objs)):          # every lazy object is scanned completely at the end, then once more
        ops.append({"o": "A", "obj": j})
        ops.append({"o": "K", "obj": j, "key": rng.choice(SCAN_KEYS)})
    return {"op": "scanhist", "ops": ops}


def render_attr(v):
    if isinstance(v, bool):
        return "F1" if v else "F0"
    if isinstance(v, list) and all(isinstance(d, dict) and isinstance(d.get("raw_message"), str) for d in v):
        return "L(" + ",".join(enc(d["raw_message"]) for d in v) + ")"
    if isinstance(v, dict):
        if not v:
            return "D(~)"
        if isinstance(v.get("raw_message"), str):
            return "D(" + enc(v["raw_message"]) + ")"
    return "?" + type(v).__name__


def scan_attrs(obj):
    """the scanner attributes of the object in the order they were set"""
    return [(k, v) for k, v in vars(obj).items() if k in SCAN_KEYS or k in ("nokey", "")]


def show_attrs(attrs):
    return "A[" + ";".join(enc(k) + "=" + render_attr(v) for k, v in attrs) + "]"


def scan_expected(reg, lines):
    """plain statement of what a scanner attribute holds (independent of get / _valid_search)"""
    p = plain_pred(reg["term"], reg["check"])
    hit = [l for l in lines if p(l)]
    if reg["kind"] == "T":
        return "F1" if hit else "F0"
    if reg["kind"] == "L":
        return "D(" + enc(hit[-1]) + ")" if hit else "D(~)"
    num = reg["num"]
    if num is not None:
        n = max(num, 0)
        hit = hit[max(len(hit) - n, 0):] if reg["rev"] else hit[:n]
    return "L(" + ",".join(enc(l) for l in hit) + ")"


def scanhist_eval(case):
    """-> (outcomes, [canonical answer], [driver line], (oracle description, None))"""
    classes, regs, lazies = {}, {}, []
    outs, dl, verdict = [], [], None
    for idx, op in enumerate(case["ops"]):
        where = "operation %d of %d (%s)" % (idx + 1, len(case["ops"]), json.dumps(op, ensure_ascii=False)[:120])
        desc = None
        try:
            if op["o"] == "C":
                base = SCAN_BASES[op["base"]] if isinstance(op["base"], str) else classes[op["base"]]
                classes[op["c"]] = type("Hist%d" % op["c"], (base,), {})
                regs[op["c"]] = {}
                outs.append("created")
                dl += ["C", str(op["c"])]
            elif op["o"] == "R":
                cls = classes[op["c"]]
                chk_fn = all if op["check"] == "all" else any
                term = list(op["term"]) if isinstance(op["term"], list) else op["term"]
                try:
                    if op["kind"] == "K":
                        cls.keep_scan(op["key"], term, check=chk_fn, num=op["num"], reverse=op["rev"])
                    elif op["kind"] == "L":
                        cls.last_scan(op["key"], term, check=chk_fn)
                    else:
                        cls.token_scan(op["key"], term, check=chk_fn)
                    outs.append("registered")
                    regs[op["c"]].setdefault(op["key"], op)
                except ValueError:
                    outs.append("VE")
                kind = ["K", "N" if op["num"] is None else str(op["num"]), "1" if op["rev"] else "0"] if op["kind"] == "K" else [op["kind"]]
                dl += ["R", str(op["c"]), enc(op["key"])] + kind + ["A" if op["check"] == "all" else "O"] + term_fields(op["term"])
            elif op["o"] == "B":
                cls = classes[op["c"]]
                is_lazy = issubclass(cls, LazyLogFileOutput)
                dl += ["Z" if is_lazy else "B", str(op["c"])] + fields_list(op["lines"])
                try:
                    obj = cls(context_wrap(list(op["lines"])))
                except TypeError:
                    obj = None
                if is_lazy:
                    lazies.append({"obj": obj, "c": op["c"], "lines": op["lines"]})
                    outs.append("lazy" if obj is not None else "TE")
                    if obj is not None and scan_attrs(obj):
                        desc = "a lazy parser carries scanner attributes before do_scan: %s" % show_attrs(scan_attrs(obj))
                elif obj is None:
                    outs.append("TE")
                    if not any(r["term"] == [] for r in regs[op["c"]].values()):
                        desc = "construction raised TypeError although every registered search item is a string or a non-empty list of strings"
                else:
                    attrs = scan_attrs(obj)
                    outs.append(show_attrs(attrs))
                    have = dict(attrs)
                    for k, reg in regs[op["c"]].items():
                        if k not in have:
                            desc = "scanner %r registered on the class left no attribute on the object" % k
                        elif render_attr(have[k]) != scan_expected(reg, op["lines"]):
                            desc = "scanner attribute %s = %s, the lines containing the requested strings give %s" % (
                                k, render_attr(have[k]), scan_expected(reg, op["lines"]))
            else:
                z = lazies[op["obj"]]
                dl += [op["o"], str(op["obj"])] + ([enc(op["key"])] if op["o"] == "K" else [])
                if z["obj"] is None:
                    outs.append("dead")
                else:
                    try:
                        if op["o"] == "K":
                            z["obj"].do_scan(op["key"])
                        else:
                            z["obj"].do_scan()
                        attrs = scan_attrs(z["obj"])
                        outs.append(show_attrs(attrs))
                        have = dict(attrs)
                        for k, reg in regs[z["c"]].items():
                            if k in have and render_attr(have[k]) != scan_expected(reg, z["lines"]):
                                desc = "scanner attribute %s = %s, the lines containing the requested strings give %s" % (
                                    k, render_attr(have[k]), scan_expected(reg, z["lines"]))
                            elif k not in have and op["o"] == "A":
                                desc = "do_scan() left scanner %r registered on the class without an attribute" % k
                    except TypeError:
                        outs.append("TE")
                        z["obj"] = None
        except BaseException as e:  # noqa
            outs.append("EXC:" + type(e).__name__)
            desc = "unexpected exception %s" % type(e).__name__
            # keep the driver line aligned: an operation that could not be rendered ends the history
            if verdict is None:
                verdict = where + ": " + desc
            break
        if desc and verdict is None:
            verdict = where + ": " + desc
    n_ops = len(outs)
    # the driver receives as many operations as were carried out
    line = "scanhist\t%d\t%s" % (n_ops, "\t".join(dl))
    return outs, ["\t".join(outs)], [line], (verdict, None)


# ------------------------------------------------------------------ round 10: plugins.parser.invoke through dr.run

_INVOKE = {}


def invoke_components():
    """a dummy datasource and parser components registered ONCE per process (the registries of dr are additive)"""
    if _INVOKE:
        return _INVOKE
    from insights.core import dr
    from insights.core.plugins import parser, datasource

    @datasource()
    def c14_ds(broker):
        raise RuntimeError("never evaluated: the broker is pre-populated")

    def mk(name, base, coe, extra=None):
        if extra is None:
            body = {"parse_content": lambda self, content: setattr(self, "got", content)} if base is CommandParser else {}
        else:
            def init(self, context):
                CommandParser.__init__(self, context, extra_bad_lines=list(extra))
            body = {"__init__": init, "parse_content": lambda self, content: setattr(self, "got", content)}
        cls = type(name, (base,), body)
        parser(c14_ds, continue_on_error=coe)(cls)
        return cls
    _INVOKE.update({"ds": c14_ds, "dr": dr, "comps": [
        ("cmd", mk("C14InvCmd", CommandParser, True), True, None),
        ("cmd", mk("C14InvCmdStrict", CommandParser, False), False, None),
        ("cmd", mk("C14InvCmdExtra", CommandParser, True, ["timed out"]), True, ["timed out"]),
        ("json", mk("C14InvJson", JSONParser, True), True, None),
        ("json", mk("C14InvJsonStrict", JSONParser, False), False, None),
        ("log", mk("C14InvLog", LogFileOutput, True), True, None)]})
    g = {}
    for _, cls, _, _ in _INVOKE["comps"]:
        g.update(dr.get_dependency_graph(cls))
    _INVOKE["graph"] = g
    return _INVOKE


def gen_invoke_case(rng):
    many = rng.random() < 0.7
    n = rng.choice([0, 1, 1, 2, 3, 4]) if many else 1
    contents = []
    for _ in range(n):
        r = rng.random()
        if r < 0.3:
            ph = rand_case(rng, rng.choice(REF_SINGLE + REF_MULTI + ["timed out"]))
            c = [(gen_text(rng, 2) + " " + ph + " " + gen_text(rng, 2)).strip()]
            if rng.random() < 0.4:
                c.insert(rng.randrange(2), gen_text(rng, 3))
        elif r < 0.5:
            c = json.dumps(gen_container(rng), indent=rng.choice([None, 1])).split("\n")
        elif r < 0.6:
            c = rng.choice([[], [""], ["null"], ["123"]])
        else:
            c = [gen_text(rng, 4) for _ in range(rng.randint(1, 3))]
        contents.append(c)
    return {"op": "invoke", "many": many, "contents": contents}


def built_alone(kind, cls, content):
    """the outcome of ONE construction outside the framework: ('O', object) / ('C',) / ('S',) / ('F',)"""
    try:
        return ("O", cls(context_wrap(list(content))))
    except ContentException:
        return ("C",)
    except SkipComponent:
        return ("S",)
    except Exception:  # noqa
        return ("F",)


def obj_payload(kind, obj):
    if kind == "cmd":
        return getattr(obj, "got", "\0none")
    if kind == "json":
        return canon(getattr(obj, "data", "\0none"))
    return getattr(obj, "lines", "\0none")


def invoke_eval(case):
    import logging
    env = invoke_components()
    dr = env["dr"]
    contents = case["contents"]
    ctxs = [context_wrap(list(c), path="elem%d" % i) for i, c in enumerate(contents)]
    lg = logging.getLogger("insights.core.plugins")
    lg2 = logging.getLogger("insights.core.dr")
    old, old2 = lg.level, lg2.level
    lg.setLevel(logging.CRITICAL + 1)
    lg2.setLevel(logging.CRITICAL + 1)
    outs, canon_outs, lines, verdict = [], [], [], None
    try:
        broker = dr.Broker()
        broker[env["ds"]] = ctxs if case["many"] else ctxs[0]
        try:
            broker = dr.run(env["graph"], broker=broker)
        except BaseException as e:  # noqa
            return [("EXC", type(e).__name__)], ["EXC:" + type(e).__name__], ["invoke\t1\t1\t0"], ("dr.run raised %s" % type(e).__name__, None)
        for kind, cls, coe, extra in env["comps"]:
            stored = broker.get(cls)
            recorded = sorted(type(e).__name__ for e in broker.exceptions.get(cls, []))
            alone = [built_alone(kind, cls, c) for c in contents]
            # canonical rendering of what is stored: indices of the elements the objects stem from (by file_path)
            desc = None
            if stored is None:
                co = "NONE"
                objs = []
            elif case["many"]:
                objs = stored if isinstance(stored, list) else None
                if objs is None or not all(isinstance(o, cls) for o in objs):
                    co, objs = "EXC:shape:%s" % type(stored).__name__, []
                    desc = "the broker holds %r for a list datasource" % (stored,)
                else:
                    co = "VS\t" + "\t".join(str(o.file_path).replace("/elem", "") for o in objs)
            else:
                objs = [stored] if isinstance(stored, cls) else []
                co = ("V\t" + str(stored.file_path).replace("/elem", "")) if objs else "EXC:shape:%s" % type(stored).__name__
                if not objs:
                    desc = "the broker holds %r instead of a parser object" % (stored,)
            outs.append((cls.__name__, co, recorded))
            canon_outs.append(co)
            lines.append("\t".join(["invoke", str(int(case["many"])), str(int(coe)), str(len(alone))] + [
                ("O\t%d" % i) if a[0] == "O" else a[0] for i, a in enumerate(alone)]))
            # ---- oracle (property level, independent of the model)
            for o in objs:
                i = int(str(o.file_path).replace("/elem", "")) if str(o.file_path).replace("/elem", "").isdigit() else -1
                if not (0 <= i < len(contents)):
                    desc = desc or "a stored object does not stem from any element of the datasource"
                    continue
                if kind == "cmd":
                    one = {"op": "cmd", "extra": extra, "content": contents[i]}
                    bad = cmd_oracle(one, ("OK", obj_payload(kind, o), cls.__name__))
                    if bad:
                        desc = desc or "element %d through the framework: %s" % (i, bad)
                elif alone[i][0] == "O" and obj_payload(kind, o) != obj_payload(kind, alone[i][1]):
                    desc = desc or "element %d: the object stored by the framework differs from the one built directly" % i
            if kind == "cmd":
                got_idx = set(str(o.file_path) for o in objs)
                for i, c in enumerate(contents):
                    one = {"op": "cmd", "extra": extra, "content": c}
                    is_bad = cmd_oracle(one, ("OK", c, "")) is not None       # the reference lists say: error message
                    if is_bad and "ContentException" not in recorded and (coe or not any(a[0] in "CF" for a in alone[:i])):
                        desc = desc or "element %d is an error message, yet no ContentException was recorded for %s" % (i, cls.__name__)
                    if not is_bad and coe and ("/elem%d" % i) not in got_idx:
                        desc = desc or "element %d is a normal output, yet %s (continue_on_error) stored no object for it" % (i, cls.__name__)
            if desc and verdict is None:
                verdict = desc
    finally:
        lg.setLevel(old)
        lg2.setLevel(old2)
    return outs, canon_outs, lines, (verdict, None)


# ------------------------------------------------------------------ round 10b: every kind of YAML ROOT the safe loader can build

YAML_ROOTS = [
    # bytes
    "!!binary aGk=", "!!binary |\n  aGVsbG8gd29ybGQ=\n", "!!binary \"aGk=\"", "--- !!binary aGk=", "!!binary ''", "&b !!binary aGk=",
    # dates / datetimes
    "2020-02-29", "!!timestamp 2001-12-14", "2001-12-14t21:59:43.10-05:00", "2019-12-31 23:59:59", "!!timestamp '2020-01-01 00:00:00'",
    "--- 2002-12-14", "2001-12-14 21:59:43.10 -5",
    # sets, ordered maps, pairs
    "!!set {a, b}", "!!set {}", "!!set\n? a\n? b", "--- !!set\n? x", "!!omap [a: 1, b: 2]", "!!omap\n- a: 1\n- b: 2", "!!omap []",
    "!!pairs [a: 1, a: 2]", "!!pairs\n- a: 1\n- a: 2", "!!pairs []",
    # python tags: the safe loader refuses
    "!!python/tuple [1, 2]", "!!python/object:os.system {}", "!!python/name:os.system", "!!python/object/apply:os.system [ls]",
    "!!python/dict {a: 1}", "!!python/list [1]", "!!python/str abc", "!!python/none ~", "!!python/bytes aGk=", "a: !!python/tuple [1]",
    "!python/tuple [1]", "!foo bar", "!!unknown x", "!<tag:yaml.org,2002:python/tuple> [1]",
    # plain scalars of every resolver kind
    "abc", "123", "-0x1F", "0o17", "1_000", "3.14", "1e3", ".inf", "-.INF", ".nan", "true", "False", "yes", "off", "~", "null", "Null", "",
    "'quoted'", "\"dq\"", "|\n  block\n  text\n", ">\n  folded\n", "!!str 123", "!!int '7'", "!!float 1", "!!bool yes", "!!null ''",
    "= ", "<<", "!!merge <<", "!!value =",
    # anchors / aliases at the root
    "&a abc", "&a 1", "&a [1, 2]", "&a {k: v}", "&a [*a]", "*a", "&a\n", "--- &r\n- *r",
    # empty containers, document markers, several documents
    "{}", "[]", "--- {}", "--- []", "{}\n...", "---", "--- ", "...", "---\n...", "---\n---", "--- ~", "--- |\n  x", "a: 1\n---\nb: 2",
    "---\na: 1\n---\nb: 2", "a: 1\n...\n---\nb: 2", "- 1\n--- \n- 2", "a: 1\n...", "--- a: 1", "%YAML 1.1\n---\na: 1", "%YAML 1.1\n--- !!binary aGk=",
    "%TAG ! tag:yaml.org,2002:\n--- !set {a}", "# only\n# comments", "--- # c\n", "﻿a: 1", "a: 1\n\x00",
    # nested: typed scalars INSIDE a container still load
    "k: !!binary aGk=", "- !!binary |\n    aGk=", "d: 2020-02-29", "s: !!set {a, b}", "o: !!omap [a: 1]", "p: !!pairs [a: 1, a: 2]",
    "- !!set {x}\n- 2001-12-14", "{k: !!binary aGk=, t: 2001-12-14t21:59:43Z}", "? !!binary aGk=\n: v", "? 2020-01-01\n: v", "? [a, b]\n: v",
    "? {a: 1}\n: v", "!!map {a: 1}", "!!seq [1]", "!!map []", "!!seq {}",
]
YAML_ROOT_WRAP = ["%s", "---\n%s", "%s\n...", "# comment\n%s", "%s\n# trailing", "\n%s\n", "--- # doc\n%s"]


def yaml_root_cases(rng, nrandom):
    """EVERY root once as list content and once as str content, then random wrappers / ignorable lines"""
    out = []
    for text in YAML_ROOTS:
        base = text.split("\n")
        out.append({"op": "yaml", "ign": False, "base": base, "content": list(base), "intent": "root"})
        out.append({"op": "yaml", "str": True, "ign": False, "base": text, "content": text, "intent": "root-str"})
    for _ in range(nrandom):
        text = rng.choice(YAML_ROOT_WRAP) % rng.choice(YAML_ROOTS)
        if rng.random() < 0.3:
            out.append({"op": "yaml", "str": True, "ign": False, "base": text, "content": text, "intent": "root-str"})
            continue
        base = text.split("\n")
        content = list(base)
        ign = rng.random() < 0.3
        if ign:
            content.insert(rng.randint(0, len(content)), rng.choice(IGNORABLE))
        out.append({"op": "yaml", "ign": ign, "base": base, "content": content, "intent": "root"})
    return out


def yaml_root_kind(case):
    b = case["base"]
    try:
        v = yaml.load(b if isinstance(b, str) else "\n".join(b), Loader=SafeLoader)
    except BaseException as e:  # noqa
        return "raises:" + type(e).__name__
    return "root=" + type(v).__name__ + ("(empty)" if isinstance(v, (dict, list, set, bytes, str)) and not v else "")


# ------------------------------------------------------------------ round 10b: stamps that touch further digits / word characters
# REFERENCE of the oracle for "where is the stamp": the documented table of get_after at the pinned tree, hard-coded here (not read from
# the implementation): first match of the format's expression in the line, no token boundary

REF_CONVERSION = {
    'a': r'\w{3}', 'A': r'\w+', 'w': r'[0123456]', 'd': r'([0 ][123456789]|[12]\d|3[01])', 'b': r'\w{3}', 'B': r'\w+',
    'm': r'([0 ]\d|1[012])', 'y': r'\d{2}', 'Y': r'\d{4}', 'H': r'([01 ]\d|2[0123])', 'I': r'([0 ]?\d|1[012])', 'p': r'\w{2}',
    'M': r'([012345]\d)', 'S': r'([012345]\d|60)', 'f': r'\d{1,6}',
}
_REF_RE = {}


def ref_formats(tf):
    return [tf] if isinstance(tf, str) else list(tf.values()) if isinstance(tf, dict) else list(tf)


def ref_stamp(tf, line):
    """-> None (no stamp in the line) or (matched text, datetime or None when the matched text is no date, the format that read it)"""
    import re
    fmts = ref_formats(tf)
    key = tuple(fmts)
    if key not in _REF_RE:
        _REF_RE[key] = re.compile("(" + "|".join(re.sub(r"%(\w)", lambda m: REF_CONVERSION[m.group(1)], f) for f in fmts) + ")")
    m = _REF_RE[key].search(line)
    if not m:
        return None
    got = (None, None)
    for f in fmts:                      # the last format that reads the text (documented: "given to strptime in order")
        try:
            got = (datetime.datetime.strptime(m.group(0), f), f)
        except ValueError:
            pass
    return (m.group(0), got[0], got[1])


GLUE_LEFT = ["", "", "id", "pid12", "x", "7", "00", "_", "é", "T", "2023", "v1."]
GLUE_RIGHT = ["", "143+00:00", "7", "pid123", "Z", "_x", "0", "123456789", "ms", "99", "+0000", "é"]
GLUE_FORMATS = []


def gen_glued_case(rng):
    if not GLUE_FORMATS:
        GLUE_FORMATS.extend(k for k in FORMATS if k not in HIST_FORMATS and k != "timeonly" and FORMATS[k][1][0][0] is not None
                            and all(r[2] for r in FORMATS[k][1]))
    fmt = rng.choice(GLUE_FORMATS) if rng.random() < 0.7 else rng.choice([k for k in GLUE_FORMATS if "%f" in json.dumps(FORMATS[k][0]) or k == "micro"] or GLUE_FORMATS)
    tf = case_time_format({"fmt": fmt})
    thr = gen_threshold(rng)
    lines, kinds = [], []
    cur = thr + datetime.timedelta(days=rng.choice([-20, -3, -1, 0, 0, 1]), seconds=rng.randint(-5000, 5000))
    for _ in range(rng.choice([1, 2, 3, 5, 8])):
        if rng.random() < 0.7:
            cur = cur + datetime.timedelta(seconds=rng.choice([0, 1, 60, 3600, 86400, -86400, 86400 * 3]))
            t = rng.choice([cur, cur, thr, thr + datetime.timedelta(seconds=rng.choice([-1, 1]))])
            rend, hy, hd, hm = rng.choice(FORMATS[fmt][1])
            if not hm:
                t = t.replace(microsecond=0)
            stamp_text = rend(t)
            t2, yy = denoted(rend, t)
            alone = ref_stamp(tf, stamp_text)
            if t2 is None or alone is None or alone[1] is None:
                lines.append({"text": "x", "t": None})
                continue
            left, right = rng.choice(GLUE_LEFT), rng.choice(GLUE_RIGHT)
            pre, msg = rng.choice(PREFIX), rng.choice(MSG)
            text = pre + left + stamp_text + right + " " + msg
            got = ref_stamp(tf, text)
            # the glue may move the first match (digits before %y%m%d ...): keep it only when the reference still reads the SAME
            # date out of the line, so that the line's own time stamp is known
            if got is None or got[1] != alone[1] or got[2] != alone[2]:
                left, right = "", ""
                text = pre + stamp_text + " " + msg
                got = ref_stamp(tf, text)
                if got is None or got[1] != alone[1]:
                    lines.append({"text": "x", "t": None})
                    continue
            kinds.append(("L" if left else "-") + ("R" if right else "-") + ("f" if "%f" in alone[2] and right[:1].isdigit() else ""))
            lines.append({"text": text, "t": [t2.year, t2.month, t2.day, t2.hour, t2.minute, t2.second, t2.microsecond],
                          "hy": hy, "hd": hd, "yy": yy})
        else:
            msg = rng.choice(MSG)
            lines.append({"text": msg if ref_stamp(tf, msg) is None else "x", "t": None})
    s = rng.choice([None, None, None, None, "error", "", ["e"]])
    return {"op": "after", "fmt": fmt, "thr": [thr.year, thr.month, thr.day, thr.hour, thr.minute, thr.second, thr.microsecond],
            "s": s, "lines": lines, "glue": kinds}


# ------------------------------------------------------------------ witnesses of the known findings

WITNESSES = [
    {"id": "json-scalar-accepted", "case": {"op": "json", "content": ["123"], "noise": 0, "intent": "plain"}},
    {"id": "json-scalar-accepted", "case": {"op": "json", "content": ["\"abc\""], "noise": 0, "intent": "plain"}},
    {"id": "json-scalar-accepted", "case": {"op": "json", "content": ["true"], "noise": 0, "intent": "plain"}},
    {"id": "json-noise-bracket-line", "case": {"op": "json", "content": ["[INFO] starting up", "{\"a\": 1}"], "noise": 1,
                                               "intent": "noise+doc"}},
    {"id": "feb29-yearless", "case": {"op": "after", "fmt": "syslog", "thr": [2024, 2, 28, 0, 0, 0, 0], "s": None,
                                      "lines": [{"text": "Feb 29 10:00:00 host1 proc: started ok", "t": [2024, 2, 29, 10, 0, 0, 0],
                                                 "hy": False, "hd": True}]}},
]


def eval_case(case):
    """-> (impl outcome, canonical impl answers, driver lines, (oracle description, finding id))"""
    op = case["op"]
    if op == "cmd":
        out = cmd_impl(case)
        return out, [cmd_canon(out)], [cmd_line(case)], (cmd_oracle(case, out), None)
    if op == "json":
        c = case["content"]
        out = doc_impl(PlainJson, c, split=False, strip=False) if isinstance(c, str) else doc_impl(PlainJson, list(c))
        return out, [doc_canon(out)], [json_line(case)], json_oracle(case, out)
    if op == "yaml":
        c = case["content"]
        out = (doc_impl(PlainYaml, c, split=False, strip=False) if isinstance(c, str)
               else doc_impl(IgnYaml if case["ign"] else PlainYaml, list(c)))
        return out, [doc_canon(out)], [yaml_line(case)], (yaml_oracle(case, out), None)
    if op == "get":
        out = get_impl(case)
        return out, get_canon_impl(case, out), get_lines(case), (get_oracle(case, out), None)
    if op == "after":
        case = normalise_after(case)
        out = after_impl(case)
        ci = out if isinstance(out, str) else "OK\t" + "\t".join(fields_list(out))
        return out, [ci], [after_line(case)], after_oracle(case, out)
    if op == "ctxseq":
        return ctx_history_eval(case)
    if op == "getargs":
        out = getargs_impl(case)
        return out, getargs_canon(out), getargs_lines(case), (getargs_oracle(case, out), None)
    if op == "afterfmt":
        out = afterfmt_impl(case)
        ci = out if isinstance(out, str) else "OK\t" + "\t".join(fields_list(out))
        return out, [ci], [afterfmt_line(case)], (afterfmt_oracle(case, out), None)
    if op == "scanhist":
        return scanhist_eval(case)
    if op == "invoke":
        return invoke_eval(case)
    if op == "afterseq":
        outs = history_impl(case)
        canon_outs, lines, verdict = [], [], (None, None)
        for i, (c, out) in enumerate(zip(case["calls"], outs)):
            canon_outs.append(out if isinstance(out, str) else "OK\t" + "\t".join(fields_list(out)))
            lines.append(after_line(c))           # the model is a function of THIS call's arguments only
            desc, fid = after_oracle(c, out)
            if desc and verdict[0] is None:
                verdict = ("call %d of %d (%s, after %s): %s" % (i + 1, len(outs), c["fmt"],
                                                                  [x["fmt"] for x in case["calls"][:i]] or "nothing", desc), fid)
        return outs, canon_outs, lines, verdict
    raise ValueError("unknown op %r" % op)


def run_stream(chk, name, cases, tagger=None):
    impl, lines, owner = [], [], []
    for idx, case in enumerate(cases):
        out, canon_out, dl, (desc, fid) = eval_case(case)
        impl += canon_out
        lines += dl
        owner += [case] * len(dl)
        if tagger:
            for t in tagger(case, out):
                chk.count(t)
        if desc:
            chk.failure(desc, case, finding=fid)
    model = run_driver("C14", lines)
    chk.compare(name, owner, impl, model)


def run(chk):
    rng = chk.rng
    quick = chk.tier == "quick"
    mult = 1 if quick else 25
    chk.rule = ("command outputs of 0-4 lines with documented / extra / near-miss error phrases in random letter case and position; "
                "JSON and YAML documents (compact, indented, flow/block), scalars, empties, corrupted documents, noise lines before JSON, "
                "ignorable lines inside YAML; text logs with overlapping word pools, string / list / empty-list terms, all/any, limits "
                "incl. 0 and negative, reverse, scanner registration; logs in 12 time formats (shipped ones included) with thresholds "
                "biased to year boundaries and Feb 28/29, stamps equal to / one second or microsecond around the threshold, "
                "continuation lines, two stamps in a line; round 10: search items and limits of every wrong type (None, int, bytes, tuple, "
                "lists with a non-string, bool / float / str limits) on text / log / syslog / lazy parsers; time_format None, of a wrong type, "
                "with directives outside the table at any position, as str / list / dict, on the class or the instance; every time format "
                "a shipped LogFileOutput subclass declares, rendered with strftime; histories of 3-14 operations over 1-4 classes "
                "(parent / subclass / sibling, keep_scan / last_scan / token_scan with duplicate keys and empty term lists, registration "
                "after objects were built, lazy parsers with do_scan(key) / do_scan() / do_scan('')); parser components run by dr.run on a "
                "pre-populated broker (single value or list of 0-4 outputs, continue_on_error on and off); ContainerParser; "
                "extra_bad_lines as a tuple; LegacyItemAccess on every document parser; non-trivial = distinct canonical input")
    chk.assumptions = [
        "json.loads / yaml.load(Loader=insights.core.SafeLoader) are parameters of the model (`loads`): the driver is given the library's outcome for every text the parser may pass",
        "time_re (the format-derived regular expression) and strptime's field extraction are a parameter (`stamp`): the driver is given the generated log's own fields per line; the arithmetic after that (datetime construction with year 1900, replace(year), the 330-day rule, >=) is modelled; since round 10 the format itself is an input of the model (fmtCheck: None / wrong type / unknown directive, and logs_have_year derived from the text)",
        "round 10b: WHERE the stamp is in a line is computed by the harness's reference (ref_stamp: the documented conversion table hard-coded in harness/c14.py, first match of the format's expression, no token boundary, then strptime) for the get_after-adjacent stream, whose stamps touch further digits (7-9 digit fractions behind %f), PIDs and letters on either side; the model still receives the fields",
        "parser.invoke: the outcome of each single construction (object / ContentException / SkipComponent / other exception) is taken from the implementation's own direct construction and handed to the model; the model says what the broker must hold; dr.run's own scheduling is C01-C04's subject",
        "str.lower is a parameter of the theorems; the driver uses ASCII lower-casing and the generator keeps non-ASCII characters caseless",
        "error phrases of the oracle: the documented lists at the pinned tree, hard-coded in harness/c14.py",
    ]

    # ---- 0. re-translate the bad-line lists from the live class
    try:
        from translate import badlines as tr
        text = tr.generate(REPO)
        changed = tr.write_if_changed(text)
        single, multi = tr.live_lists(REPO)
        chk.extra["translator"] = {"source": "live class insights.core.CommandParser (%s)" % REPO, "rewrote_generated_file": changed,
                                   "generated": "lean/IV/Gen/BadLines.lean", "bad_single_lines": single, "bad_lines": multi}
    except Exception as e:
        chk.tie_broken("translator", "%s: %s" % (type(e).__name__, e), None)

    # ---- 1. theorems
    chk.lean()

    # ---- 2. corpus + witnesses of known findings
    corpus = []
    for p in sorted(glob.glob(os.path.join(VERIF, "corpus", "C14", "*.json"))):
        d = json.load(open(p, encoding="utf-8"))
        corpus += d["cases"] if "cases" in d else [d["case"]]
    for w in WITNESSES:
        out, _, _, (desc, fid) = eval_case(w["case"])
        rep = bool(desc) and fid == w["id"]
        chk.witnesses.append({"id": w["id"], "input": w["case"].get("content") or [l["text"] for l in w["case"]["lines"]],
                              "reproduces": rep, "impl": str(out)[:80]})
        if rep:
            chk.finding_reproduced(w["id"])
    for c in corpus:
        chk.case(("corpus", json.dumps(c, sort_keys=True)), True)
    run_stream(chk, "corpus", corpus + [w["case"] for w in WITNESSES])

    primitives(chk, 1500 * mult)

    # ---- 2b. several parsers built one after the other from ONE context object (before the one-parser streams, so that
    # a failure that depends on earlier constructions is reported with a replay that contains them)
    def ctx_tag(case, outs):
        tags = ["ctx-history:builds=%d,first=%s" % (len(outs), case["builds"][0]["kind"])]
        ce = [o[0] for b, o in zip(case["builds"], outs) if b["kind"] == "cmd"]
        tags.append("ctx-history:command-outcomes=%s" % ("all-CE" if set(ce) == {"CE"} else "all-OK" if set(ce) == {"OK"} else "mixed"))
        return tags + ["ctx-history:%s:%s" % (b["kind"], o[0]) for b, o in zip(case["builds"], outs)]
    cases = [gen_ctx_history(rng) for _ in range(1000 * mult)]
    for c in cases:
        chk.case(("ctxseq", json.dumps(c, sort_keys=True)), bool(c["content"]))
    run_stream(chk, "context-history", cases, ctx_tag)
    chk.sample(cases[0])

    # ---- 3. CommandParser
    def cmd_tag(case, out):
        n = len(case["content"])
        return ["cmd:%s-lines:%s" % ("0" if n == 0 else "1" if n == 1 else "n", out[0]),
                "cmd:extra=%s" % ("none" if case["extra"] is None else len(case["extra"]))]
    cases = [gen_cmd_case(rng) for _ in range(4000 * mult)]
    for c in cases:
        chk.case(("cmd", json.dumps(c, sort_keys=True)), bool(c["content"]))
    run_stream(chk, "command", cases, cmd_tag)
    chk.sample(cases[1])
    # shipped command parsers: the reject direction (their own parse_content decides the rest)
    shipped = shipped_command_parsers()
    chk.extra["shipped_command_parsers"] = [c.__name__ for c in shipped]
    for cls in shipped:
        for _ in range(40 * mult):
            ph = rand_case(rng, rng.choice(REF_SINGLE))
            line = rng.choice(["", "bash: ", "/bin/sh: foo: "]) + ph + rng.choice(["", ": x", " y"])
            chk.case(("shipped", cls.__name__, line), True)
            chk.count("cmd:shipped")
            try:
                cls(context_wrap([line]))
                res = "object"
            except ContentException:
                res = None
            except BaseException as e:  # noqa
                res = type(e).__name__
            if res:
                chk.failure("shipped %s given the error message %r produced %s instead of the content error" % (cls.__name__, line, res),
                            {"op": "shipped", "cls": cls.__module__ + ":" + cls.__name__, "line": line})

    # ---- 4. JSON
    def doc_tag(prefix):
        def f(case, out):
            tags = ["%s:%s" % (prefix, out[0]), "%s:intent=%s" % (prefix, case.get("intent", "ign" if case.get("ign") else "plain"))]
            if prefix == "yaml" and case.get("intent", "").startswith("blank"):
                b = case["base"]
                text = b if isinstance(b, str) else "\n".join(b)
                blank_inside = (not isinstance(b, str)) and any(not l.strip() for l in b[:-1])
                tags.append("yaml:blank:blank-lines-in-document=%s" % ("str" if isinstance(b, str) else blank_inside))
                if not isinstance(b, str):
                    tags.append("yaml:blank:lines-removed-by-prefix=%d" % min(len(case["content"]) - len(b), 3))
                ref = lib_yaml(text)
                try:
                    pure = (kind_of(yaml.safe_load(text)), canon(yaml.safe_load(text)))
                except BaseException:  # noqa
                    pure = ("F", "")
                tags.append("yaml:blank:safe_load-vs-insights-loader=%s" % ("same" if pure == ref else "DIFFER"))
                if case.get("value") is not None:
                    tags.append("yaml:blank:library-round-trips-generated-value=%s" % (ref[1] == case["value"]))
            if case.get("intent", "").startswith("typed"):
                c = case["content"] if prefix == "json" else case["base"]
                lib = (lib_json if prefix == "json" else lib_yaml)(c if isinstance(c, str) else "\n".join(c))
                tags.append("%s:typed:library=%s" % (prefix, {"F": "raises", "N": "null", "S": "scalar"}.get(lib[0], "container")))
                if lib[0] == "F":
                    text = c if isinstance(c, str) else "\n".join(c)
                    try:
                        json.loads(text) if prefix == "json" else yaml.load(text, Loader=SafeLoader)
                    except BaseException as e:  # noqa
                        base = ("YAMLError" if isinstance(e, yaml.YAMLError) else "JSONDecodeError"
                                if isinstance(e, json.JSONDecodeError) else "other")
                        tags.append("%s:typed:raises=%s/%s" % (prefix, base, type(e).__name__))
            return tags
        return f
    cases = [gen_json_case(rng) for _ in range(2500 * mult)]
    for _ in range(250 * mult):
        c = gen_json_case(rng)
        cases.append({"op": "json", "content": "\n".join(c["content"]), "noise": 0, "intent": "str"})
    cases.append({"op": "json", "content": ["[" * 100000], "noise": 0, "intent": "deep"})
    cases.append({"op": "json", "content": "[" * 100000, "noise": 0, "intent": "deep"})
    cases += [gen_json_typed_case(rng) for _ in range(400 * mult)]
    cases += [gen_json_blank_case(rng) for _ in range(500 * mult)]
    for c in cases:
        chk.case(("json", json.dumps(c, sort_keys=True)), bool(c["content"]))
    run_stream(chk, "json", cases, doc_tag("json"))
    chk.sample(cases[3])

    # ---- 5. YAML
    cases = [gen_yaml_case(rng) for _ in range(1500 * mult)]
    cases += [gen_yaml_typed_case(rng) for _ in range(1500 * mult)]
    cases += [gen_yaml_blank_case(rng) for _ in range(2000 * mult)]
    for _ in range(150 * mult):     # ordinary documents as str content
        c = gen_yaml_case(rng)
        t = "\n".join(c["base"])
        cases.append({"op": "yaml", "str": True, "ign": False, "base": t, "content": t, "intent": "str"})
    roots = yaml_root_cases(rng, 600 * mult)          # round 10b: every kind of root the safe loader can build
    for c in roots:
        chk.count("yaml:root:" + yaml_root_kind(c))
    cases += roots
    for c in cases:
        chk.case(("yaml", json.dumps(c, sort_keys=True)), bool(c["content"]))
    run_stream(chk, "yaml", cases, doc_tag("yaml"))
    chk.sample(cases[2])

    # ---- 6. get / in / scanners
    def get_tag(case, out):
        t = case["term"]
        return ["get:term=%s" % ("str" if isinstance(t, str) else "list%d" % min(len(t), 2)),
                "get:num=%s,rev=%d" % ("none" if case["num"] is None else "neg" if case["num"] < 0 else min(case["num"], 4), case["reverse"]),
                "get:hits=%s" % ("TE" if isinstance(out[0], str) else min(len(out[0]), 3))]
    cases = [gen_get_case(rng) for _ in range(3500 * mult)]
    for c in cases:
        chk.case(("get", json.dumps(c, sort_keys=True)), bool(c["lines"]))
    run_stream(chk, "get", cases, get_tag)
    chk.sample(cases[5])

    # ---- 6c. round 10: argument checks of get / in (types of the search item and of num; None; bool; lazy class)
    def getargs_tag(case, out):
        return ["getargs:term=%s,num=%s" % (case["term"]["k"], case["num"]["k"]), "getargs:cls=%s" % case["cls"],
                "getargs:get=%s,in=%s" % ("TE" if out[0] == "TE" else "list" if isinstance(out[0], list) else "other",
                                          "TE" if out[1] == "TE" else "bool" if isinstance(out[1], bool) else "other")]
    cases = [gen_getargs_case(rng) for _ in range(1500 * mult)]
    for c in cases:
        chk.case(("getargs", json.dumps(c, sort_keys=True)), bool(c["lines"]))
    run_stream(chk, "get-arguments", cases, getargs_tag)
    chk.sample(cases[0])

    # ---- 6d. round 10: histories of scanner registrations over several classes (parent / subclass / sibling, registration
    # after first use, duplicate keys, empty term lists, lazy parsers with do_scan(key) / do_scan())
    def scan_tag(case, outs):
        tags = ["scanhist:classes=%d" % sum(1 for o in case["ops"] if o["o"] == "C")]
        for o, r in zip(case["ops"], outs):
            tags.append("scanhist:%s:%s" % (o["o"], r if r in ("created", "registered", "VE", "TE", "lazy", "dead") else
                                            "attrs%d" % min(r.count("="), 3) if r.startswith("A[") else "other"))
        subs = [o for o in case["ops"] if o["o"] == "C" and not isinstance(o["base"], str)]
        tags.append("scanhist:subclass-after-parent-registration=%s" % any(
            any(q["o"] == "R" and q["c"] == o["base"] for q in case["ops"][:case["ops"].index(o)]) for o in subs))
        return tags
    cases = [gen_scanhist(rng) for _ in range(1200 * mult)]
    for c in cases:
        chk.case(("scanhist", json.dumps(c, sort_keys=True)), any(o["o"] == "R" for o in c["ops"]))
    run_stream(chk, "scanner-history", cases, scan_tag)
    chk.sample(cases[0])

    # ---- 6e. round 10: the framework's entry point: plugins.parser.invoke through dr.run on a pre-populated broker
    def invoke_tag(case, outs):
        tags = ["invoke:%s,n=%d" % ("list" if case["many"] else "single", len(case["contents"]))]
        for o in outs:
            if len(o) == 3:
                tags.append("invoke:%s:%s" % (o[0], o[1].split("\t")[0]))
                for e in set(o[2]):
                    tags.append("invoke:recorded:%s" % e)
        return tags
    cases = [gen_invoke_case(rng) for _ in range(700 * mult)]
    for c in cases:
        chk.case(("invoke", json.dumps(c, sort_keys=True)), bool(c["contents"]))
    run_stream(chk, "parser-invoke", cases, invoke_tag)
    chk.sample(cases[0])

    # ---- 6f. round 10: time_format itself (None, wrong type, unknown directives, str / list / dict, class / instance)
    def fmt_tag(case, out):
        return ["afterfmt:format=%s/%s" % (case["tf"]["k"], case["mode"]), "afterfmt:result=%s" % (out if isinstance(out, str) else "lines")]
    cases = [gen_afterfmt_case(rng) for _ in range(1200 * mult)]
    for c in cases:
        chk.case(("afterfmt", json.dumps(c, sort_keys=True)), True)
    run_stream(chk, "get_after-format", cases, fmt_tag)
    chk.sample(cases[0])

    # ---- 6b. histories of get_after calls (before the one-call stream: a failure that depends on earlier calls is
    # then reported with a replay that contains the calls): ambiguous format pairs on logs that share stamp texts
    def hist_tag(case, outs):
        tags = ["history:pair=%s,first=%s" % (case["pair"][0][2:], case["calls"][0]["fmt"][2:]), "history:calls=%d" % len(outs)]
        for c, o in zip(case["calls"], outs):
            tags.append("history:call:%s/%s/%s%s" % (c["fmt"][2:], c["form"], c["mode"], "/reused" if c["reuse"] else ""))
            tags.append("history:result=%s,oracle=%s" % (o if isinstance(o, str) else "n%d" % min(len(o), 3),
                                                         "applied" if after_oracle_applicable(c) else "n/a"))
        both = [l for l in case["calls"][0]["lines"] if l["t"]]
        tags.append("history:stamped-lines-in-first-call=%d" % min(len(both), 4))
        return tags
    cases = [gen_history(rng) for _ in range(600 * mult)]
    for c in cases:
        chk.case(("afterseq", json.dumps(c, sort_keys=True)), len(set(x["fmt"] for x in c["calls"])) > 1)
    run_stream(chk, "get_after-history", cases, hist_tag)
    chk.sample({"history": [(c["fmt"], c["form"], c["mode"], c["thr"], [l["text"] for l in c["lines"]]) for c in cases[0]["calls"]]})

    # ---- 7. get_after
    def after_tag(case, out):
        yys = [l["yy"] for l in case["lines"] if l.get("t") and l.get("yy") is not None]
        extra = ["after:two-digit-year=%s" % ("00-68" if yy <= 68 else "69-99") for yy in yys[:2]]
        extra += ["after:two-digit-year=boundary-%d" % yy for yy in yys if yy in (68, 69)][:1]
        return extra + ["after:fmt=%s" % case["fmt"], "after:result=%s" % (out if isinstance(out, str) else "n%d" % min(len(out), 3)),
                "after:oracle=%s" % ("applied" if after_oracle_applicable(case) else "n/a")]
    cases = [gen_after_case(rng) for _ in range(5000 * mult)]
    # two-digit years: thresholds and lines on both sides of the %y pivot (1969-2068)
    for _ in range(700 * mult):
        y = rng.choice([1968, 1969, 1969, 1970, 1998, 1999, 2000, 2001, 2067, 2068, 2068, 2069])
        mo, d = rng.choice([(1, 1), (1, 2), (12, 31), (12, 30), (6, 15), (2, 28), (3, 1)])
        thr = datetime.datetime(y, mo, d, rng.choice([0, 12, 23]), rng.choice([0, 59]), rng.choice([0, 59]))
        cases.append(gen_after_case(rng, fmt="mariadb", thr=thr, far=rng.random() < 0.5))
    for c in cases:
        chk.case(("after", json.dumps(c, sort_keys=True)), any(l["t"] for l in c["lines"]))
    run_stream(chk, "get_after", cases, after_tag)
    # round 10: every time format a shipped LogFileOutput subclass declares, rendered with strftime
    chk.extra["shipped_time_formats"] = {k: {"classes": len(v["classes"]), "driven_through": (v["cls"].__module__ + "." + v["cls"].__name__) if v["cls"] else "fresh subclass"}
                                         for k, v in sorted(SHIPPED_FORMATS.items())}
    names = sorted(SHIPPED_FORMATS)
    cases = []
    for i in range((1500 if quick else 20000) if names else 0):
        cases.append(gen_after_case(rng, fmt=names[i % len(names)]))
    for c in cases:
        chk.case(("after", json.dumps(c, sort_keys=True)), any(l["t"] for l in c["lines"]))
    run_stream(chk, "get_after-shipped-formats", cases, after_tag)
    # round 10b: stamps directly adjacent to further digits / letters (longer fractions behind %f, PIDs, serial numbers)
    def glue_tag(case, out):
        return after_tag(case, out) + ["glue:%s" % k for k in case.get("glue", [])] + ["glue:format-kind=%s" % type(FORMATS[case["fmt"]][0]).__name__]
    cases = [gen_glued_case(rng) for _ in range(2000 * mult)]
    for c in cases:
        chk.case(("after", json.dumps(c, sort_keys=True)), any(l["t"] for l in c["lines"]))
    run_stream(chk, "get_after-adjacent", cases, glue_tag)
    chk.sample({k: (v if k != "lines" else [l["text"] for l in v]) for k, v in cases[0].items()})
    chk.sample({k: (v if k != "lines" else [l["text"] for l in v]) for k, v in cases[7].items()})


def replay(data):
    if "case" not in data:      # a broken-tie replay: names the theorem / stream that no longer checks
        print(json.dumps(data.get("broken"), indent=1, ensure_ascii=False)[:4000])
        print("no failing input was recorded; re-run ./check C14 to see whether the tie is still broken")
        return 1
    c = data["case"]
    print("replaying", json.dumps(c, ensure_ascii=False)[:2000])
    if c.get("op") == "shipped":
        mod, name = c["cls"].split(":")
        cls = getattr(__import__(mod, fromlist=[name]), name)
        try:
            cls(context_wrap([c["line"]]))
            res = "object"
        except ContentException:
            res = None
        except BaseException as e:  # noqa
            res = type(e).__name__
        print("impl: %s" % (res or "ContentException"))
        bad = bool(res)
    else:
        out, canon_out, lines, (desc, fid) = eval_case(c)
        print("impl :", str(out)[:1500])
        try:
            model = run_driver("C14", lines)
            print("model:", model == canon_out and "agrees with impl" or model)
        except Exception as e:  # noqa
            print("model: driver failed: %s" % e)
        if desc:
            print("oracle:", desc, ("[known finding %s]" % fid) if fid else "")
        bad = bool(desc)
    print("property violated on this input" if bad else "property holds on this input")
    return 1 if bad else 0
