"""
C08 — nothing configured or recognised as sensitive survives cleaning.

Tie: a REAL `insights.cleaner.Cleaner` (built from an InsightsConfig and an rm_conf dict) is run
in-process through `clean_content` (list and single string, with allow lists and width mode),
`clean_file` (scratch file) and `DatasourceProvider.write` under a HostContext (the path of
core/spec_factory.py that passes no_obfuscate / no_redact); the cleaned lines are compared with
IV.CleanLine.cleanContent / cleanLine / specClean (Drivers/C08.lean).  The substitutes (address
numbering, hashed names: C09's business) are read from the obfuscators' `mapping()` and handed to
the model as tables; the IPv6 recogniser is a parameter of the model (the addresses the live
pattern finds on the line the IPv6 stage actually receives are recorded and handed over).
Each hand-written recogniser of the model (findIPv4, findMac, findHost, the password expressions,
the exclusion-pattern matcher, str.replace, the \\w / \\s tables) has its own stream against the
live pattern strings / objects, so an edited pattern is exercised immediately.

Round 10: specs DECLARED on a RegistryPoint of a fresh SpecSet and collected with dr.run + the Hydration
persister (stream clean:declared, model cfgPats / declCall / preFilter / specCleanDecl through the driver op
`cleand`, rm_conf in its odd shapes, keyword lists beyond 10 and 100 entries), and several live cleaners used in
another order than they were built (clean:interleaved).

Oracle (independent of the implementation's patterns): see `Oracle`.
"""
import json
import logging
import os
import re
import shutil
import socket
import tempfile
import types

from harness.common import VERIF, enc, dec, run_driver

import insights.cleaner as cleaner_mod
import insights.util.hostname as hostname_util
from insights.cleaner import Cleaner
from insights.cleaner.ip import IPv4
from insights.cleaner.mac import Mac
from insights.cleaner.hostname import Hostname
from insights.cleaner.password import Password
from insights.client.config import InsightsConfig
from insights.core.context import HostContext
from insights.core.exceptions import ContentException
from insights.core import dr as insights_dr
from insights.core import spec_factory as sf
from insights.core.spec_factory import DatasourceProvider
from insights.core import filters as insights_filters
from insights.core.serde import Hydration
from insights.core.plugins import datasource as insights_datasource

logging.getLogger("insights.cleaner").setLevel(logging.CRITICAL)    # SubIPError warnings of the width mode
FINDING_MAC = "mac-after-colon"
FINDING_KW = "keyword-splits-password-key"
FINDING_WIDTH = "width-mode-eats-text"
NAMES = ["hostname", "ip", "ipv6", "keyword", "mac", "password"]
DOMAIN_LIMIT = 0x250
STARS = "********"

# --------------------------------------------------------------------------- protocol helpers


def item(s):
    return "=" + enc(s)


def items(xs):
    return ",".join(item(x) for x in xs) if xs else "-"


def table(d):
    return ",".join("=%s>%s" % (enc(k), enc(v)) for k, v in d) if d else "-"


CLS_CODE = {"any": "A", "alnum": "n", "alpha": "a", "blank": "b", "digit": "d", "lower": "l",
            "space": "s", "upper": "u", "word": "w", "xdigit": "x"}
CLS_POSIX = {"alnum": "[[:alnum:]]", "alpha": "[[:alpha:]]", "blank": "[[:blank:]]", "digit": "[[:digit:]]",
             "lower": "[[:lower:]]", "space": "[[:space:]]", "upper": "[[:upper:]]", "word": "[[:word:]]",
             "xdigit": "[[:xdigit:]]", "any": "."}


def rx_text(rx):
    """the regular expression text handed to the implementation (POSIX bracket notation)"""
    out = "^" if rx["anchored"] else ""
    for cls, plus in rx["atoms"]:
        if cls.startswith("L"):
            c = cls[1:]
            out += c if (c.isalnum() and ord(c) < 128) else "\\" + c
        else:
            out += CLS_POSIX[cls]
        out += "+" if plus else ""
    return out + ("$" if rx["eol"] else "")


def rx_proto(rx):
    ats = ";".join((("L%x" % ord(cls[1:])) if cls.startswith("L") else CLS_CODE[cls]) + ("+" if plus else "1")
                   for cls, plus in rx["atoms"])
    return "R%d%d:%s" % (rx["anchored"], rx["eol"], ats)


def cls_test(cls, c):
    """independent reading of one atom (POSIX class semantics, ASCII)"""
    if cls.startswith("L"):
        return c == cls[1:]
    o = ord(c)
    up, lo, dg = 65 <= o <= 90, 97 <= o <= 122, 48 <= o <= 57
    return {"any": c != "\n", "alnum": up or lo or dg, "alpha": up or lo, "blank": c in " \t", "digit": dg,
            "lower": lo, "space": c in " \t\r\n\v\f", "upper": up, "word": up or lo or dg or c == "_",
            "xdigit": dg or 65 <= o <= 70 or 97 <= o <= 102}[cls]


def rx_hit(rx, s):
    """independent matcher for the generated expression family: position sets, no backtracking engine"""
    starts = [0] if rx["anchored"] else range(len(s) + 1)
    for st in starts:
        pos = {st}
        for cls, plus in rx["atoms"]:
            nxt = set()
            for p in pos:
                q = p
                while q < len(s) and cls_test(cls, s[q]):
                    q += 1
                    nxt.add(q)
                    if not plus:
                        break
            pos = nxt
            if not pos:
                break
        if any((not rx["eol"]) or p == len(s) or (p == len(s) - 1 and s[p] == "\n") for p in pos):
            return True
    return False


# POSIX bracket classes as the reference reads them (written from the POSIX definitions, not taken from
# insights.util.posix_regex)
POSIX_REF = {"alnum": "[a-zA-Z0-9]", "alpha": "[a-zA-Z]", "blank": "[ \\t]", "digit": "[0-9]", "lower": "[a-z]",
             "space": "[ \\t\\r\\n\\v\\f]", "upper": "[A-Z]", "word": "[A-Za-z0-9_]", "xdigit": "[A-Fa-f0-9]"}
_REF_CACHE = {}


def ref_compile(text):
    """the expression compiled ON ITS OWN (the per-pattern reference); None when it does not compile"""
    if text not in _REF_CACHE:
        t = text
        for name, cls in POSIX_REF.items():
            t = t.replace("[[:%s:]]" % name, cls)
        try:
            _REF_CACHE[text] = re.compile(t)
        except re.error:
            _REF_CACHE[text] = None
    return _REF_CACHE[text]


def pat_text(pat):
    """the text handed to the implementation for a regular-expression pattern"""
    return pat["re"] if "re" in pat else rx_text(pat["rx"])


def pat_hit(pat, line):
    """does the pattern, taken by itself, match the line (independent of the implementation)"""
    if "plain" in pat:
        return pat["plain"] in line
    if "rx" in pat:
        return rx_hit(pat["rx"], line)
    return ref_compile(pat["re"]).search(line) is not None


def pats_of(cfg):
    p = cfg.get("patterns")
    if not p:
        return []
    if "plain" in p:
        return [{"plain": k} for k in p["plain"]]
    return [({"re": r["re"]} if "re" in r else {"rx": r}) for r in p["regex"]]


def pats_proto(cfg, lines=()):
    """plain and family patterns are evaluated by the model; any other expression is handed over extensionally: the
    (truncated) lines of the case on which the expression compiled on its own matches"""
    ps = pats_of(cfg)
    out = []
    for p in ps:
        if "plain" in p:
            out.append("P" + enc(p["plain"]))
        elif "rx" in p:
            out.append(rx_proto(p["rx"]))
        else:
            M = cleaner_mod.MAX_LINE_LENGTH
            hits = []
            for l in lines:
                l = l[:M]
                if l and l not in hits and pat_hit(p, l):
                    hits.append(l)
            out.append("X" + "/".join(item(h) for h in hits))
    return ",".join(out) if out else "-"


RM_SHAPES = ["dict-empty-regex", "dict-no-regex", "rm-none", "values-none"]


def rm_conf_of(cfg):
    """the rm_conf handed to Cleaner().  cfg["rm_shape"] (stream clean:declared) selects the shapes of `patterns` that are
    present but empty / None / a mapping without a usable `regex` entry"""
    shape = cfg.get("rm_shape")
    if shape == "rm-none":
        return None
    if shape == "values-none":
        return {"patterns": None, "keywords": None}
    if shape in ("dict-empty-regex", "dict-no-regex"):
        rm = {"patterns": {"regex": []} if shape == "dict-empty-regex" else {"other": ["DROPME"]}}
        if cfg.get("keywords") is not None:
            rm["keywords"] = list(cfg["keywords"])
        return rm
    rm = {}
    p = cfg.get("patterns")
    if p:
        rm["patterns"] = list(p["plain"]) if "plain" in p else {"regex": [pat_text(q) for q in pats_of(cfg)]}
    if cfg.get("keywords") is not None:
        rm["keywords"] = list(cfg["keywords"])
    return rm


def own_system_name(gethostname, getfqdn, ex):
    """the harness's own statement of `determine_hostname()` called WITHOUT a display name: the canonical name of the
    host-name lookup (`ex`, None when the lookup fails) if it is longer than the host name and not a localhost name,
    else the FQDN under the same conditions, else the host name"""
    ex = ex or ""
    if len(getfqdn) > len(gethostname) or len(ex) > len(gethostname):
        if ex and "localhost" not in ex:
            return ex
        if "localhost" not in getfqdn:
            return getfqdn
    return gethostname


class FakeSocket(object):
    """what insights.util.hostname sees instead of the socket module while a Cleaner without fqdn is built"""
    gaierror = socket.gaierror
    herror = socket.herror
    error = socket.error

    def __init__(self, sysd):
        self.sysd = sysd

    def gethostname(self):
        return self.sysd["gethostname"]

    def getfqdn(self, name=""):
        return self.sysd["getfqdn"]

    def gethostbyname_ex(self, name):
        if self.sysd["ex"] is None:
            raise socket.gaierror(-2, "Name or service not known")
        return (self.sysd["ex"], [], ["192.0.2.1"])

    def gethostbyname(self, name):
        return "192.0.2.1"


def make_cleaner(cfg):
    kw = dict(obfuscate=cfg["obfuscate"], obfuscate_hostname=cfg["hostname"], obfuscate_mac=cfg["mac"],
              obfuscate_ipv6=cfg["ipv6"])
    sysd = cfg.get("sys")
    if sysd:
        # the labels a user may give the system are NOT its name
        for opt in ("display_name", "ansible_host"):
            if sysd.get(opt) is not None:
                kw[opt] = sysd[opt]
    if cfg["hostname"] and not cfg["obfuscate"]:
        conf = types.SimpleNamespace(**kw)      # InsightsConfig refuses this combination; the Cleaner does not
        if sysd:
            for opt in ("display_name", "ansible_host"):
                if not hasattr(conf, opt):
                    setattr(conf, opt, None)
    elif sysd:
        conf = InsightsConfig(**kw)
    else:
        conf = InsightsConfig(hostname=cfg["fqdn"], **kw)
    if not sysd:
        return Cleaner(conf, rm_conf_of(cfg), cfg["fqdn"])
    # no fqdn argument (as insights.collect.collect() and the client's facts cleaning build it): the Cleaner asks
    # determine_hostname(); the socket answers are those of the case
    saved = hostname_util.socket
    hostname_util.socket = FakeSocket(sysd)
    try:
        return Cleaner(conf, rm_conf_of(cfg))
    finally:
        hostname_util.socket = saved



# --------------------------------------------------------------------------- every spec kind carries its cleaner

SPEC_KINDS = ["simple_file", "glob_file", "first_file", "simple_command", "command_with_args", "foreach_execute",
              "foreach_collect", "container_execute", "container_collect"]
# walked from insights.core.spec_factory; what is NOT driven and why
SPEC_NOT_DRIVEN = {
    "RawFileProvider / SerializedRawOutputProvider": "write() copies the file with cp; the class documents that raw content is not filtered/obfuscated/redacted",
    "SerializedOutputProvider": "TextFileProvider used when a stored archive is loaded back (no cleaner, no HostContext); same write() as TextFileProvider",
    "listdir / listglob / head / first_of / find": "return plain lists / select among other datasources; they produce no provider and write nothing",
    "CommandOutputProvider / ContainerProvider base classes": "driven through their factories (simple_command …, container_execute / container_collect)",
}


def spec_write(kind, c, call, lines, scratch):
    """build the spec with its factory, evaluate it under a HostContext with the cleaner in the broker (as
    insights.collect does), persist it with provider.write(), return the written text"""
    root = os.path.join(scratch, "root")
    os.makedirs(os.path.join(root, "etc"), exist_ok=True)
    rel = "/etc/spec_data.conf"
    src = os.path.join(root, "etc", "spec_data.conf")
    with open(src, "w", encoding="utf-8", newline="") as fh:
        fh.write("\n".join(lines) + "\n")
    engine = os.path.join(scratch, "fake-engine")        # stands in for /usr/bin/podman: `<engine> exec <id> <cmd…>` runs <cmd…>
    if not os.path.exists(engine):
        with open(engine, "w") as fh:
            fh.write("#!/bin/sh\nshift 2\nexec \"$@\"\n")
        os.chmod(engine, 0o755)
    eng_rel = os.path.relpath(engine, "/usr/bin")        # the factory writes "/usr/bin/%s" % engine
    ctx = HostContext(root=root)
    broker = insights_dr.Broker()
    broker[HostContext] = ctx
    broker["cleaner"] = c
    prov = object.__new__(type("Src", (object,), {}))
    kwargs = {"context": HostContext}
    if kind == "simple_file":
        ds = sf.simple_file(rel, **kwargs)
    elif kind == "glob_file":
        ds = sf.glob_file("/etc/spec_da*.conf", **kwargs)
    elif kind == "first_file":
        ds = sf.first_file(["/etc/not_there.conf", rel], **kwargs)
    elif kind == "simple_command":
        ds = sf.simple_command("/bin/cat %s" % src, **kwargs)
    elif kind == "command_with_args":
        broker[prov] = src
        ds = sf.command_with_args("/bin/cat %s", prov, **kwargs)
    elif kind == "foreach_execute":
        broker[prov] = [src]
        ds = sf.foreach_execute(prov, "/bin/cat %s", **kwargs)
    elif kind == "foreach_collect":
        broker[prov] = [rel]
        ds = sf.foreach_collect(prov, "%s", **kwargs)
    elif kind == "container_execute":
        broker[prov] = [("image", eng_rel, "c0ffee", src)]
        ds = sf.container_execute(prov, "cat %s", **kwargs)
    elif kind == "container_collect":
        broker[prov] = [("image", eng_rel, "c0ffee", src)]
        ds = sf.container_collect(prov, **kwargs)
    else:
        raise ValueError(kind)
    ds.no_obfuscate = list(call["no_obfuscate"] or [])      # what SpecSetMeta copies from the registry point
    ds.no_redact = call["no_redact"]
    res = ds(broker)
    provs = res if isinstance(res, list) else [res]
    dst = os.path.join(scratch, "written.txt")
    try:
        provs[0].write(dst)
        with open(dst, "r", encoding="utf-8", newline="") as fh:
            return type(provs[0]).__name__, fh.read()
    finally:
        if os.path.exists(dst):
            os.remove(dst)


# --------------------------------------------------------------------------- declared on a RegistryPoint, collected, persisted

REG_KINDS = ["simple_file", "glob_file", "first_file", "simple_command", "foreach_execute"]
REG_REL = {"simple_command": "insights_commands/cat", "foreach_execute": "insights_commands/cat"}


def reg_rel(case):
    kind = case["call"]["route"].split(":")[-1]
    return REG_REL.get(kind) or ("etc/netstat_-neopa" if case["call"]["width"] else "etc/spec_data.conf")


def registry_write(kind, c, case, lines, scratch):
    """the way a collection does it: a SpecSet with a RegistryPoint carrying the DECLARATION (no_obfuscate / no_redact /
    filterable), a subclass registering the implementation datasource under it (SpecSetMeta copies the declaration),
    filters added to the point, dr.run under a HostContext with the cleaner in the broker and the Hydration persister as
    observer (serializer -> provider.write()).  Returns ("ok", text of the one file written) | ("empty", None) |
    ("raised:<Class>", None)"""
    decl = case["decl"]
    root = os.path.join(scratch, "root")
    shutil.rmtree(root, ignore_errors=True)
    os.makedirs(os.path.join(root, "etc"))
    rel = "/" + reg_rel(case) if kind in ("simple_file", "glob_file", "first_file") else "/etc/spec_data.conf"
    src = os.path.join(root, rel.lstrip("/"))
    with open(src, "w", encoding="utf-8", newline="") as fh:
        fh.write("\n".join(lines) + "\n")
    kw = {}
    if decl["no_obfuscate"] is not None:
        kw["no_obfuscate"] = list(decl["no_obfuscate"])
    if decl["no_redact"] is not None:
        kw["no_redact"] = decl["no_redact"]
    if decl["filterable"]:
        kw["filterable"] = True
    if kind == "foreach_execute":
        kw["multi_output"] = True
    prov = None
    if kind == "simple_file":
        impl = sf.simple_file(rel, context=HostContext)
    elif kind == "glob_file":
        impl = sf.glob_file(os.path.dirname(rel) + "/" + os.path.basename(rel)[:4] + "*", context=HostContext)
        kw["multi_output"] = True
    elif kind == "first_file":
        impl = sf.first_file(["/etc/not_there.conf", rel], context=HostContext)
    elif kind == "simple_command":
        impl = sf.simple_command("/bin/cat %s" % src, context=HostContext)
    elif kind == "foreach_execute":
        def src_paths(broker):
            return [src]
        prov = insights_datasource(HostContext)(src_paths)
        impl = sf.foreach_execute(prov, "/bin/cat %s", context=HostContext)
    else:
        raise ValueError(kind)
    meta = type(sf.SpecSet)
    # the OTHER specs of the same SpecSet, collected in the same run with the same cleaner (declared before or after)
    points, impls, sib_filters = {}, {}, []
    sibs = case.get("siblings") or []
    for i, sb in enumerate(sibs):
        skw = {}
        if sb["no_obfuscate"] is not None:
            skw["no_obfuscate"] = list(sb["no_obfuscate"])
        if sb["no_redact"] is not None:
            skw["no_redact"] = sb["no_redact"]
        if sb["filters"]:
            skw["filterable"] = True
        with open(os.path.join(root, "etc", "sib%d.conf" % i), "w", encoding="utf-8", newline="") as fh:
            fh.write("\n".join(sb["lines"]) + "\n")
        entry = ("sib%d" % i, sf.RegistryPoint(**skw), sf.simple_file("/etc/sib%d.conf" % i, context=HostContext), sb)
        if sb["before"]:
            points[entry[0]], impls[entry[0]] = entry[1], entry[2]
        sib_filters.append(entry)
    points["point"], impls["point"] = sf.RegistryPoint(**kw), impl
    for name, pt, im, sb in sib_filters:
        if not sb["before"]:
            points[name], impls[name] = pt, im
    pts = list(points.values())           # (the metaclass adds its own entries to the dictionary)
    Specs = meta("RegSpecs", (sf.SpecSet,), points)
    Impl = meta("RegImpl", (Specs,), impls)
    for name, pt, im, sb in sib_filters:
        for key, n in (sb["filters"] or []):
            insights_filters.add_filter(pt, [key], n)
    for key, n in (decl["filters"] or []):
        insights_filters.add_filter(Specs.point, [key], n)
    ctx = HostContext(root=root)
    broker = insights_dr.Broker()
    broker[HostContext] = ctx
    broker["cleaner"] = c
    out = os.path.join(scratch, "archive")
    shutil.rmtree(out, ignore_errors=True)
    hyd = Hydration(out, ctx)
    broker.add_observer(hyd.make_persister(set(pts)))
    graph = {}
    for pt in pts:
        graph.update(insights_dr.get_dependency_graph(pt))
    insights_dr.run(graph, broker)
    # what was persisted for THE point (the siblings write etc/sib<i>.conf)
    files = []
    for d, _, names in os.walk(os.path.join(out, "data")):
        files += [os.path.join(d, n) for n in names if not re.match(r"sib\d+\.conf$", n)]
    errors = []
    mdir = os.path.join(out, "meta_data")
    if os.path.isdir(mdir):
        for n in sorted(os.listdir(mdir)):
            if not n.endswith(".point.json"):
                continue
            try:
                with open(os.path.join(mdir, n), encoding="utf-8") as fh:
                    doc = json.load(fh)
                errors += [str(e) for e in (doc.get("errors") or [])] if isinstance(doc, dict) else ["meta-data-shape"]
            except ValueError:
                errors.append("meta-data-unreadable")
    for comp in (Specs.point, Impl.point):
        for ex in broker.exceptions.get(comp, []):
            tb = broker.tracebacks.get(ex)
            if tb is not None and str(tb) not in errors:
                errors.append(str(tb))
    if len(files) == 1 and not errors:
        with open(files[0], "r", encoding="utf-8", newline="") as fh:
            return "ok", fh.read()
    # nothing collected: "Empty after cleaning" / "Empty (after filtering)", or the grep of the pre-filter of a COMMAND found no
    # line (exit status 1 of the pipeline -> CalledProcessError) — the model says whether that is what had to happen
    if not files and errors and all(("ContentException" in e and "Empty" in e) or "CalledProcessError" in e for e in errors):
        return "empty", None
    if not files and not errors:
        return "raised:NothingPersisted", None
    if not files and case["call"]["width"] and all("SubIPError" in e for e in errors):
        return "err:index", None          # the one exception the cleaner raises by design (width mode)
    last = [e.strip().split("\n")[-1] for e in errors if e.strip()]
    cls = (last[-1].split(":")[0].split(".")[-1] if last else "") or "Error"
    return "raised:%s%s" % (cls, "+%dfiles" % len(files) if files else ""), None


# --------------------------------------------------------------------------- implementation adapter

class Run(object):
    """result of running one case on the implementation"""
    def __init__(self):
        self.out = None          # canonical answer line
        self.lines_out = None    # cleaned lines (list) when there is one
        self.tables = {"ip": [], "host": [], "mac": [], "ipv6": []}
        self.v6 = []             # per input line: addresses found by the live IPv6 pattern
        self.kw_subs = []
        self.raised = None       # class name of an exception that escaped the implementation (not the designed SubIPError)
        self.mutated = None      # histories: the cleaner's containers before / after the call when they differ
        self.fresh = None        # histories: outcome of the same call on a fresh cleaner with the same numbering
        self.provider_class = None


def run_group(group, scratch):
    """several LIVE cleaners (as the client has: the one of the collection, the one of the facts cleaning): all cleaners of
    the group are built first, then used in the given order; returns the Run of every member"""
    built = []
    for m in group["cases"]:
        try:
            built.append(make_cleaner(m["cfg"]))
        except Exception as e:
            built.append(e)
    res = {}
    for k in group["order"]:
        res[k] = run_impl(group["cases"][k], scratch, c=built[k])
    return [res[k] for k in range(len(group["cases"]))]


def run_any(case, scratch):
    g = case.get("interleaved")
    if g:
        return run_group(g, scratch)[g["k"]]
    return run_impl(case, scratch)


def run_impl(case, scratch, c=None):
    cfg, call, lines = case["cfg"], case["call"], case["lines"]
    r = Run()
    # Everything the implementation does — construction included — is behaviour under test: an exception that escapes
    # it becomes the canonical outcome `raised:<ExceptionClass>` and goes to compare / oracle like any other outcome.
    try:
        if isinstance(c, Exception):
            raise c
        if c is None:
            c = make_cleaner(cfg)
    except Exception as e:
        r.raised = type(e).__name__
        r.out = "raised:" + r.raised
        r.lines_out = None
        r.v6 = [[] for _ in lines]
        return r
    rec = []
    v6 = c.obfuscate.get("ipv6")
    if v6 is not None:
        orig_parse = v6.parse_line

        def recording(line, **kw):
            rec.append(line)
            return orig_parse(line, **kw)
        v6.parse_line = recording
    route = call["route"]
    no_obf = call["no_obfuscate"]
    try:
        if route == "content":
            res = c.clean_content(list(lines), no_obfuscate=no_obf, no_redact=call["no_redact"],
                                  allowlist=call["allowlist"], width=call["width"])
            r.lines_out = res
            r.out = "\t".join(["ok"] + [item(l) for l in res])
        elif route == "single":
            res = c.clean_content(lines[0], no_obfuscate=no_obf, no_redact=call["no_redact"],
                                  allowlist=call["allowlist"], width=call["width"])
            r.lines_out = [] if res is None else [res]
            r.out = "ok\tnone" if res is None else "ok\t" + item(res)
        elif route == "file":
            path = os.path.join(scratch, "netstat_-neopa" if call["width"] else "data.txt")
            with open(path, "w", encoding="ascii", newline="") as fh:
                fh.write("".join(lines))
            c.clean_file(path, no_obfuscate=no_obf, no_redact=call["no_redact"], allowlist=call["allowlist"])
            if os.path.exists(path):
                with open(path, "r", encoding="utf-8", newline="") as fh:
                    res = [fh.read()]
                os.remove(path)
            else:
                res = []
            r.lines_out = res
            r.out = "\t".join(["ok"] + [item(l) for l in res])     # the file's text as ONE string
        elif route == "provider":
            rel = "insights_commands/netstat_-neopa" if call["width"] else "etc/some.conf"
            dst = os.path.join(scratch, "out.txt")
            p = DatasourceProvider(list(lines), rel, ctx=HostContext(), cleaner=c,
                                   no_obfuscate=no_obf, no_redact=call["no_redact"])
            try:
                p.write(dst)
                with open(dst, "r", encoding="utf-8", newline="") as fh:
                    text = fh.read()
                res = text.split("\n")
                r.lines_out = res
                r.out = "\t".join(["ok"] + [item(l) for l in res])
            except ContentException:
                r.lines_out = []
                r.out = "empty"
            finally:
                if os.path.exists(dst):
                    os.remove(dst)
        elif route.startswith("spec:reg:"):
            st, text = registry_write(route[9:], c, case, lines, scratch)
            if st == "ok":
                res = text.split("\n")
                r.lines_out = res
                r.out = "\t".join(["ok"] + [item(l) for l in res])
            elif st == "empty":
                r.lines_out = []
                r.out = "empty"
            elif st == "err:index":
                r.lines_out = None
                r.out = st
            else:
                r.raised = st[7:]
                r.out = st
                r.lines_out = None
        elif route.startswith("spec:"):
            try:
                r.provider_class, text = spec_write(route[5:], c, call, lines, scratch)
                res = text.split("\n")
                r.lines_out = res
                r.out = "\t".join(["ok"] + [item(l) for l in res])
            except ContentException:
                r.lines_out = []
                r.out = "empty"
        else:
            raise ValueError(route)
    except Exception as e:
        # the only exception the cleaner raises by design is SubIPError in width mode (clean_file re-wraps whatever it
        # caught into "Cannot Open File for Cleaning": there it can only be that one when width mode substitutes)
        msg = str(e.args[0]) if e.args else ""
        width_sub = call["width"] and cfg["obfuscate"] and "ip" not in (no_obf or [])
        r.lines_out = None
        if "SubIPError" in msg or ("Cannot Open File for Cleaning" in msg and route == "file" and width_sub):
            r.out = "err:index"
        else:
            r.raised = type(e).__name__
            r.out = "raised:" + r.raised
    try:
        for name, key in (("ip", "ip"), ("host", "hostname"), ("mac", "mac"), ("ipv6", "ipv6")):
            ob = c.obfuscate.get(key)
            if ob is not None:
                r.tables[name] = [(m["original"], m["obfuscated"]) for m in ob.mapping()]
        kwo = c.obfuscate.get("keyword")
        r.kw_subs = [m["obfuscated"] for m in kwo.mapping()] if kwo else []
    except Exception as e:          # mapping() is implementation code too
        if r.raised is None:
            r.raised = type(e).__name__
            r.out = "raised:" + r.raised
            r.lines_out = None
    # IPv6: what the live pattern finds on the lines the stage received (bottom-up order)
    r.v6 = [[] for _ in lines]
    if v6 is not None and rec:
        order = list(range(len(lines) - 1, -1, -1)) if route != "single" else [0]
        if len(rec) == len(order):
            for idx, seen in zip(order, rec):
                if seen:
                    found = [m[0] for m in re.findall(v6.pattern, seen, re.I)]
                    r.v6[idx] = [f for f in found if not any(re.search(i, f, re.I) for i in v6._ignore_list)]
    return r


def proto_declared(case, r):
    """`cleand`: the model computes the exclusion list from the SHAPE of rm_conf['patterns'] (cfgPats) and the call from the
    DECLARATION of the registry point (declCall, preFilter, specCleanDecl)"""
    cfg, call, decl = case["cfg"], case["call"], case["decl"]
    flags = "".join("1" if b else "0" for b in (cfg["obfuscate"], cfg["hostname"], cfg["mac"], cfg["ipv6"],
                                               bool(decl["no_redact"]), decl["filterable"], decl["filterable"]))
    shape = cfg.get("rm_shape")
    p = cfg.get("patterns")
    keys, pats = "-", "-"
    if shape == "dict-empty-regex":
        sh, keys = "D", items(["regex"])
    elif shape == "dict-no-regex":
        sh, keys = "K", items(["other"])
    elif shape in ("rm-none", "values-none") or p is None:
        sh = "A"
    elif "plain" in p:
        sh, pats = "L", pats_proto(cfg, case["lines"])
    else:
        sh, keys, pats = "D", items(["regex"]), pats_proto(cfg, case["lines"])
    fl = decl["filters"] or []
    filt = ",".join("=%s:%d" % (enc(k), n) for k, n in fl) if fl else "-"
    fields = ["cleand", flags, enc(cfg["fqdn"]), "N" if decl["no_obfuscate"] is None else items(decl["no_obfuscate"]),
              enc(reg_rel(case)), sh, keys, pats, items(cfg["keywords"] or []), filt, table(r.tables["ip"]),
              table(r.tables["host"]), table(r.tables["mac"]), table(r.tables["ipv6"]), str(cleaner_mod.MAX_LINE_LENGTH)]
    for l, f6 in zip(case["lines"], r.v6):
        fields.append("/".join([item(l)] + [item(x) for x in f6]))
    return "\t".join(fields)


def proto_line(case, r):
    cfg, call = case["cfg"], case["call"]
    if call["route"].startswith("spec:reg:"):
        return proto_declared(case, r)
    mode = "P" if call["route"].startswith("spec:") else {"content": "L", "file": "L", "single": "S", "provider": "P"}[call["route"]]
    flags = "".join("1" if b else "0" for b in (cfg["obfuscate"], cfg["hostname"], cfg["mac"], cfg["ipv6"],
                                               call["no_redact"], call["width"]))
    al = call["allowlist"]
    allow = "N" if al is None else (",".join("=%s:%d" % (enc(k), n) for k, n in al.items()) if al else "-")
    fields = ["clean", mode, flags, enc(cfg["fqdn"]), items(call["no_obfuscate"] or []), pats_proto(cfg, case["lines"]),
              items(cfg["keywords"] or []), allow, table(r.tables["ip"]), table(r.tables["host"]),
              table(r.tables["mac"]), table(r.tables["ipv6"]), str(cleaner_mod.MAX_LINE_LENGTH)]
    for l, f6 in zip(case["lines"], r.v6):
        fields.append("/".join([item(l)] + [item(x) for x in f6]))
    return "\t".join(fields)


# --------------------------------------------------------------------------- the ORACLE

def is_word(c):
    return c.isalnum() or c == "_"


HOSTCH = set("abcdefghijklmnopqrstuvwxyzABCDEFGHIJKLMNOPQRSTUVWXYZ0123456789_.-")
HEX = set("0123456789abcdefABCDEF")
SECRET = set("abcdefghijklmnopqrstuvwxyzABCDEFGHIJKLMNOPQRSTUVWXYZ0123456789_!@#$%^&*()+=/-")


def canon_octet(s, first):
    if not s or not s.isdigit() or not s.isascii() or len(s) > 3:
        return False
    if len(s) > 1 and s[0] == "0":
        return False
    v = int(s)
    return (1 if first else 0) <= v <= 255


def runs(line, alphabet):
    """maximal runs of characters of `alphabet`: (start, text)"""
    out, i, n = [], 0, len(line)
    while i < n:
        if line[i] in alphabet:
            j = i
            while j < n and line[j] in alphabet:
                j += 1
            out.append((i, line[i:j]))
            i = j
        else:
            i += 1
    return out


def ipv4_tokens(line):
    """canonical dotted quads not preceded by a word character or '.', not followed by a digit or '.'+digit"""
    toks = []
    for i, run in runs(line, set("0123456789.")):
        if i > 0 and is_word(line[i - 1]):
            continue
        parts = run.split(".")
        if len(parts) < 4:
            continue
        if not (canon_octet(parts[0], True) and all(canon_octet(p, False) for p in parts[1:4])):
            continue
        if len(parts) > 4 and parts[4] != "":
            continue        # followed by '.' + digit
        toks.append(".".join(parts[:4]))
    return toks


def ipv4_loose(line):
    """(start, address) of every dotted quad the width-mode step may substitute: it starts at a word boundary, the
    first three octets are canonical and end at a '.', the last is the longest canonical octet that starts there"""
    out, n = [], len(line)
    for i in range(n):
        if not line[i].isdigit() or not line[i].isascii() or (i > 0 and is_word(line[i - 1])):
            continue
        p, octs = i, []
        for k in range(4):
            q = p
            while q < n and line[q].isascii() and line[q].isdigit() and q - p < 3:
                q += 1
            if k < 3:
                if q < n and line[q].isascii() and line[q].isdigit():
                    break                       # a fourth digit: no '.' can follow a canonical octet here
                o = line[p:q]
                if not canon_octet(o, k == 0) or q >= n or line[q] != ".":
                    break
                octs.append(o)
                p = q + 1
            else:
                o = line[p:q]
                while o and not canon_octet(o, False):
                    o = o[:-1]
                if not o:
                    break
                octs.append(o)
        if len(octs) == 4:
            out.append((i, ".".join(octs)))
    return out


def width_eats(case, line):
    """
    INPUT-ONLY predicate of the known finding width-mode-eats-text: the call is in width mode with IPv4 substitution
    active, and the line contains (independent scan, every occurrence) an address other than loopback whose substitute
    can be LONGER than the address (10.230.230.N: 12 characters and one more per further digit of N, N at most the
    number of addresses of the content) — _sub_ip_keep_width then deletes at least one character of the line behind the
    substitute, blank or not, and any deletion can join two tokens so that a later stage no longer sees a delimiter.
    """
    cfg, call = case["cfg"], case["call"]
    if not (call["width"] and cfg["obfuscate"] and "ip" not in (call["no_obfuscate"] or [])):
        return False
    M = cleaner_mod.MAX_LINE_LENGTH
    total = len(set(a for l in case["lines"] for _, a in ipv4_loose(l[:M]) if a != "127.0.0.1"))
    longest = 11 + len(str(max(total, 1)))
    return any(a != "127.0.0.1" and len(a) < longest for _, a in ipv4_loose(line[:M]))


def mac_tokens(line):
    """(token, start) of MAC-shaped strings whose neighbours are non-word characters"""
    toks = []
    n = len(line)
    for i in range(n - 16):
        t = line[i:i + 17]
        sep = t[2]
        if sep not in ":-":
            continue
        groups = t.split(sep)
        if len(groups) != 6 or any(len(g) != 2 or not set(g) <= HEX for g in groups):
            continue
        if i > 0 and is_word(line[i - 1]):
            continue
        if i + 17 < n and is_word(line[i + 17]):
            continue
        toks.append((t, i))
    return toks


def mac_exempt(t):
    g = re.split("[:-]", t.lower())
    return all(x == "00" for x in g) or all(x == "ff" for x in g)


def host_tokens(line, fqdn):
    """hosts of the system's domain: label(.label)*.<domain>, delimited by non-word characters"""
    dom = system_domain(fqdn)
    if not dom:
        return []
    toks = []
    n = len(line)
    for i, run in runs(line, HOSTCH):
        if i > 0 and is_word(line[i - 1]):
            continue
        j = i + len(run)
        if j < n and is_word(line[j]):
            continue
        t = run.lstrip(".-").rstrip(".-")
        if t.endswith("." + dom) and len(t) > len(dom) + 1 and (t[0].isalnum() or t[0] == "_"):
            toks.append(t)
    return toks


def password_secrets(line):
    """
    (secret, key start, secret start) for the accepted notations, read left to right (a key inside the
    secret of an earlier key is part of that secret):  password<w><sep><secret><end>  with
    sep = blanks? ':' blanks? quotes? blanks?  |  blanks? '='+ blanks? ('"' blanks?)?  |  blanks? '--md5' '5'* blanks?
        |  blanks
    secret = maximal run over the secret alphabet, end = any other character or the end of the line.
    """
    n = len(line)

    def skip(p, pred):
        while p < n and pred(line[p]):
            p += 1
        return p

    def blank(c):
        return c.isspace()

    out = []
    i = line.find("password")
    while i >= 0:
        j = skip(i + 8, lambda c: c.isascii() and (c.isalnum() or c == "_"))
        p = skip(j, blank)
        listed = True
        if p < n and line[p] == ":":
            p = skip(skip(skip(p + 1, blank), lambda c: c == '"'), blank)
        elif p < n and line[p] == "=":
            p = skip(skip(p, lambda c: c == "="), blank)
            if p < n and line[p] == '"':
                p = skip(p + 1, blank)
        elif line.startswith("--md5", p):
            p = skip(skip(p + 5, lambda c: c == "5"), blank)
        elif p == j:
            listed = False      # no separator: whatever secret characters follow belong to this key (group 1 gives back)
        e = skip(p, lambda c: c in SECRET)
        if listed and e > p:
            out.append((line[p:e], i, p))
        i = line.find("password", max(i + 1, e))
    return out


def overlaps(line, k, a, b):
    """an occurrence of `k` in `line` overlaps or touches the span [a, b)"""
    i = line.find(k)
    while i >= 0:
        if i <= b and i + len(k) >= a:      # overlapping or touching: glued text changes how the key is read, too
            return True
        i = line.find(k, i + 1)
    return False


def covered_positions(text, subs):
    cov = set()
    for s in subs:
        if not s:
            continue
        i = text.find(s)
        while i >= 0:
            cov.update(range(i, i + len(s)))
            i = text.find(s, i + 1)
    return cov


def uncovered_occurrence(text, tok, cov):
    i = text.find(tok)
    while i >= 0:
        if not any(p in cov for p in range(i, i + len(tok))):
            return i
        i = text.find(tok, i + 1)
    return -1


class Oracle(object):
    """
    The property on the implementation's observable behaviour (input lines, configuration, output lines,
    the substitutes the obfuscators report):
      pattern   no input line on which an exclusion pattern matches has an image in the output
                (lines carry an inert marker so that images can be identified)
      keyword   no configured keyword occurs in the output outside issued substitutes
      password  a secret in an accepted notation does not occur in the output
      ipv4 / host / mac   (obfuscation on) a delimited token of the input does not occur in the output
                outside issued substitutes — in particular a token that is merely textually RELATED to an ignored
                item (27.0.0.1, 127.0.0.10, 00:00:00:00:00:01): the ignore lists are lists of whole items
      ignored-rewritten   the ignored items themselves (127.0.0.1, all-zero / broadcast MAC) stay
    Exemptions are those of the property: no_redact / no_obfuscate of the call, loopback, all-zero /
    broadcast MAC, text that coincides with an issued substitute.
    """

    def __init__(self, case, r):
        self.case, self.r = case, r
        self.fails = []     # (clause, text, finding-or-None)

    def check(self):
        case, r = self.case, self.r
        cfg, call, lines = case["cfg"], case["call"], case["lines"]
        if r.raised is not None:
            # an exception escaped the implementation.  Every configured pattern compiles on its own (plain and family
            # patterns always do) and the reference says which lines go and which stay: the configured patterns were
            # not applied.
            pats = pats_of(cfg)
            if pats and not call["no_redact"] and all("re" not in q or ref_compile(q["re"]) is not None for q in pats):
                M = cleaner_mod.MAX_LINE_LENGTH
                gone = [l for l in lines if l[:M] and any(pat_hit(q, l[:M]) for q in pats)]
                self.fails.append(("pattern", "the implementation raised %s instead of cleaning: patterns %r each compile on their own; "
                                   "of the lines %r, %d are matched by some pattern taken by itself and %d by none — the configured patterns are not applied"
                                   % (r.raised, [q["plain"] if "plain" in q else pat_text(q) for q in pats], lines, len(gone), len(lines) - len(gone)), None))
            if (cfg["keywords"] or []) and "keyword" not in (call["no_obfuscate"] or []):
                # keywords are plain strings: no keyword, whatever characters it contains, may make the cleaning raise
                self.fails.append(("keyword", "the implementation raised %s instead of cleaning with the keywords %r (plain strings; lines %r)"
                                   % (r.raised, cfg["keywords"], lines), None))
            return self.fails
        if r.lines_out is None:
            return self.fails        # SubIPError of the width mode: nothing was produced
        out = r.lines_out
        if (call["route"] == "provider" or call["route"].startswith("spec:")) and call["no_redact"] \
                and set(call["no_obfuscate"] or []) == set(NAMES):
            return self.fails        # explicitly exempted from everything
        no_obf = set(call["no_obfuscate"] or [])
        text = "\n".join(out)
        subs = set(v for t in r.tables.values() for _, v in t) | set(r.kw_subs) | {STARS}
        kws_db = {}
        for i, k in enumerate(cfg["keywords"] or []):
            kws_db[k.strip()] = "keyword%d" % i
        if "keyword" not in no_obf:
            subs |= set(kws_db.values())
            # a substitute that a LATER keyword step rewrites (keyword "ey" inside "keyword0", "example" inside
            # "host2.example.com") is still inserted text: cover the rewritten form as well
            kw_items = list(kws_db.items())

            def kw_rewrite(t, start=0):
                for k, v in kw_items[start:]:
                    t = t.replace(k, v)
                return t
            early = set(v for name in ("host", "ip", "ipv6") for _, v in r.tables[name])
            subs |= set(kw_rewrite(v) for v in early)
            subs |= set(kw_rewrite(v, i + 1) for i, (_, v) in enumerate(kw_items))
        cov = covered_positions(text, subs)
        in_sub = lambda t: any(t in s for s in subs)

        # -- exclusion patterns: the expressions are INDEPENDENT — a line goes iff SOME configured pattern, taken by
        # itself (plain: substring; regular expression: compiled on its own), matches the line as the Pattern stage
        # receives it (the truncated input line; the stage runs first).  Both directions are checked: a matching
        # line has no image in the output, a line no pattern matches keeps one (unless an allow list is in force).
        pats = pats_of(cfg)
        if pats and not call["no_redact"]:
            M = cleaner_mod.MAX_LINE_LENGTH
            which = [[i for i, p in enumerate(pats) if pat_hit(p, l[:M])] if l[:M] else [] for l in lines]
            hit = [bool(w) for w in which]
            keeps = call["allowlist"] is None       # nothing but the patterns can remove a line
            kw_empty = "keyword" not in no_obf and "" in kws_db            # '' as a keyword rewrites the markers
            width_del = any(width_eats(case, l) for l in lines)     # known finding: width mode removes text (a marker, too)
            route = call["route"]

            def name(i):
                q = pats[i]
                return q["plain"] if "plain" in q else pat_text(q)
            survivors = [l for l, h in zip(lines, hit) if not h]
            if case.get("markers"):
                alive = set(re.findall(u"\xa7(\\d+)\xa7", text))
                for idx, l in enumerate(lines):
                    if hit[idx] and str(idx) in alive:
                        self.fails.append(("pattern", "line %d %r is matched by pattern %r (taken by itself, position %d of %d) and is still in the output"
                                           % (idx, l, name(which[idx][0]), which[idx][0], len(pats)), None))
                    elif (not hit[idx] and keeps and not kw_empty and not width_del and str(idx) not in alive
                          and len(out) < (len(survivors) if any(survivors) else 0)):   # (a marker can be masked as a password secret)
                        self.fails.append(("pattern-overreach", "line %d %r is matched by none of the patterns %r taken by itself, but it is not in the output %r"
                                           % (idx, l, [name(i) for i in range(len(pats))], out), None))
            elif (route in ("content", "provider") or route.startswith("spec:")) and keeps:
                want = len(survivors) if any(survivors) else 0
                if len(out) > want:
                    self.fails.append(("pattern", "%d of the lines %r are matched by none of the patterns %r taken by itself, but the output has %d lines: %r"
                                       % (want, lines, [name(i) for i in range(len(pats))], len(out), out), None))
                elif len(out) < want:
                    self.fails.append(("pattern-overreach", "%d of the lines %r are matched by none of the patterns %r taken by itself, but the output has only %d lines: %r"
                                       % (want, lines, [name(i) for i in range(len(pats))], len(out), out), None))
            elif route == "single":
                if hit[0] and out:
                    self.fails.append(("pattern", "line %r is matched by pattern %r (taken by itself) and is returned: %r" % (lines[0], name(which[0][0]), out), None))
                elif not hit[0] and keeps and not out:
                    self.fails.append(("pattern-overreach", "line %r is matched by none of the patterns %r taken by itself, but it is dropped"
                                       % (lines[0], [name(i) for i in range(len(pats))]), None))
            elif all(l and h for l, h in zip(lines, hit)) and any(out):
                self.fails.append(("pattern", "every input line matches an exclusion pattern but the output is %r" % out, None))
            # no other stage active: the output is EXACTLY the unmatched lines, and no pattern by itself matches one of them
            if route == "content" and keeps and set(NAMES) <= no_obf:
                want = [l[:M] for l in survivors] if any(survivors) else []
                if list(out) != want:
                    self.fails.append(("pattern-exact", "patterns %r, lines %r: expected %r, got %r" % ([name(i) for i in range(len(pats))], lines, want, out), None))
                for o in out:
                    for i, q in enumerate(pats):
                        if o[:M] and pat_hit(q, o[:M]):
                            self.fails.append(("pattern", "output line %r is matched by pattern %r taken by itself" % (o, name(i)), None))
        # -- keywords
        if kws_db and "keyword" not in no_obf:
            for k in kws_db:
                if not k or in_sub(k) or k in "keyword0123456789":
                    continue
                if not any(k in l for l in lines):
                    continue
                if uncovered_occurrence(text, k, cov) >= 0:
                    fid = FINDING_WIDTH if any(width_eats(case, l) for l in lines if k in l) else None
                    self.fails.append(("keyword", "keyword %r occurs in the output %r" % (k, text), fid))
        # -- passwords
        if "password" not in no_obf:
            joined = "\n".join(lines)
            for l in lines:
                for sec, k0, k1 in password_secrets(l[:cleaner_mod.MAX_LINE_LENGTH]):
                    if set(sec) == {"*"} or in_sub(sec) or joined.count(sec) != 1:
                        continue
                    if uncovered_occurrence(text, sec, cov) >= 0:
                        # known finding: a stage that runs before Password rewrites text inside the key itself
                        kw_on = bool(kws_db) and "keyword" not in no_obf
                        earlier = [k for k in kws_db if k] if kw_on else []
                        if self.host_active(cfg, no_obf):
                            earlier.append(cfg["fqdn"].split(".")[0])
                        # … or inside an earlier password unit of the same line (its secret then ends elsewhere and the
                        # following keys are read differently): anywhere from the first key of the line to this secret
                        first = l.find("password")
                        fid = FINDING_KW if ((kw_on and "" in kws_db) or
                                             any(k and overlaps(l, k, min(first, k0), k1) for k in earlier)) else None
                        if fid is None and width_eats(case, l):
                            fid = FINDING_WIDTH        # known finding: the width-mode step removed text of the line (the key)
                        self.fails.append(("password", "secret %r of line %r occurs in the output %r" % (sec, l, text), fid))
        if not cfg["obfuscate"]:
            return self.fails
        # Substitution is per line: a token delimited on line i must not survive in the IMAGE of line i.  The image is
        # known when no line was dropped or when the lines carry markers; otherwise the whole output is searched, and
        # only for tokens ALL of whose occurrences in the input are delimited ones.
        M = cleaner_mod.MAX_LINE_LENGTH
        if call["route"] != "file" and len(out) == len(lines):  # (spec routes included)
            pairs = [(l[:M], o, False) for l, o in zip(lines, out)]
        elif case.get("markers"):
            pairs = []
            for idx, l in enumerate(lines):
                img = [o for o in out if (u"\xa7%d\xa7" % idx) in o]
                if len(img) == 1:
                    pairs.append((l[:M], img[0], False))
        else:
            pairs = [(l[:M], text, True) for l in lines]

        def everywhere_delimited(t, count_tokens):
            return sum(l[:M].count(t) for l in lines) == sum(count_tokens(l[:M]).count(t) for l in lines)

        def leaks(t, o, strict, count_tokens):
            if strict and not everywhere_delimited(t, count_tokens):
                return False
            return uncovered_occurrence(o, t, covered_positions(o, subs)) >= 0
        # -- IPv4
        if "ip" not in no_obf:
            issued = set(v for _, v in r.tables["ip"])
            for l, o, strict in pairs:
                for t in set(ipv4_tokens(l)):
                    if t == "127.0.0.1" or t in issued or in_sub(t):
                        continue
                    if t in ipv4_tokens(o) and leaks(t, o, strict, ipv4_tokens):
                        self.fails.append(("ipv4", "address %r of line %r occurs in the output %r" % (t, l, o), None))
        # -- the ignored items themselves stay (as the code leaves them): 127.0.0.1, the all-zero / broadcast MAC in ':' form.
        # Not claimed where another rewrite legitimately touches the text: an address of the line that is a substring of
        # the ignored one (27.0.0.1 is replaced inside 127.0.0.1 by str.replace), a keyword or the system's name inside
        # it, an IPv6 match on the content, the width-mode deletion, a password key on the line (the item may be masked as a secret).
        earlier_keys = [k for k in kws_db if "keyword" not in no_obf]
        if self.host_active(cfg, no_obf):
            earlier_keys += [cfg["fqdn"].split(".")[0], cfg["fqdn"]]
        quiet = not any(r.v6) and "" not in earlier_keys

        def untouched(tok, l):
            if "password" not in no_obf and "password" in l:
                return False                 # the item may be masked as (part of) a password secret
            if call["width"] and cfg["obfuscate"] and "ip" not in no_obf and any(a != "127.0.0.1" for _, a in ipv4_loose(l)):
                return False                 # width mode pads or deletes behind a substituted address of the line
            return quiet and not width_eats(case, l) and not any(k and k in tok for k in earlier_keys)
        def isolated(l, i, n):
            """no host-name character, word character, ':' or '-' next to l[i:i+n]: no other recogniser can take it in"""
            def free(c):
                return not (c in HOSTCH or is_word(c) or c in ":-")
            return (i == 0 or free(l[i - 1])) and (i + n >= len(l) or free(l[i + n]))

        def occurrences(l, t):
            out, i = [], l.find(t)
            while i >= 0:
                out.append(i)
                i = l.find(t, i + 1)
            return out
        if "ip" not in no_obf:
            for l, o, strict in pairs:
                occ = occurrences(l, "127.0.0.1")
                if strict or not occ or not untouched("127.0.0.1", l) or not all(isolated(l, i, 9) for i in occ):
                    continue
                if any(a != "127.0.0.1" and a in "127.0.0.1" for _, a in ipv4_loose(l)):
                    continue
                if o.count("127.0.0.1") < len(occ):
                    self.fails.append(("ignored-rewritten", "the loopback address of line %r (on the ignore list) is not in the output %r" % (l, o), None))
        if cfg["mac"] and "mac" not in no_obf:
            for l, o, strict in pairs:
                if strict:
                    continue
                for t in set(t for t, _ in mac_tokens(l)):
                    occ = occurrences(l, t)
                    if ":" not in t or not mac_exempt(t) or not untouched(t, l) or not all(isolated(l, i, 17) for i in occ):
                        continue
                    if o.count(t) < len(occ):
                        self.fails.append(("ignored-rewritten", "the MAC address %r of line %r (on the ignore list) is not in the output %r" % (t, l, o), None))
        # -- host names
        if self.host_active(cfg, no_obf):
            fqdn = cfg["fqdn"]
            short = fqdn.split(".")[0]
            for t in (short, fqdn):          # the system's own names: any occurrence
                if t and not in_sub(t) and any(t in l[:M] for l in lines) and uncovered_occurrence(text, t, cov) >= 0:
                    self.fails.append(("host", "host name %r occurs in the output %r" % (t, text), None))
            for l, o, strict in pairs:       # other hosts of the domain: delimited occurrences
                for t in set(host_tokens(l, fqdn)):
                    if in_sub(t):
                        continue
                    if leaks(t, o, strict, lambda x: host_tokens(x, fqdn)):
                        self.fails.append(("host", "host name %r of line %r occurs in the output %r" % (t, l, o), None))
        # -- MAC
        if cfg["mac"] and "mac" not in no_obf:
            issued = set(v for _, v in r.tables["mac"])
            mtoks = lambda x: [t for t, _ in mac_tokens(x)]
            for l, o, strict in pairs:
                per = {}
                for t, i in mac_tokens(l):
                    near = (i > 0 and l[i - 1] in ":-") or (i + 17 < len(l) and l[i + 17] in ":-")
                    per.setdefault(t, []).append(near)
                for t, nears in per.items():
                    if mac_exempt(t) or t in issued or in_sub(t):
                        continue
                    if t in mtoks(o) and leaks(t, o, strict, mtoks):
                        # known finding mac-after-colon: the address has an occurrence with a ':' / '-' neighbour on the
                        # input line (without alignment: on some input line) and every occurrence that survived has one
                        # (another occurrence of the same line may have been rewritten by an earlier stage)
                        near_in = any(nears) if not strict else any(
                            (i > 0 and x[i - 1] in ":-") or (i + 17 < len(x) and x[i + 17] in ":-")
                            for x in lines for tt, i in mac_tokens(x[:M]) if tt == t)
                        near_out = all((i > 0 and o[i - 1] in ":-") or (i + 17 < len(o) and o[i + 17] in ":-")
                                       for tt, i in mac_tokens(o) if tt == t)
                        fid = FINDING_MAC if (near_in and near_out) else None
                        if fid is None and (width_eats(case, l) if not strict else
                                            any(width_eats(case, x) for x in lines if t in x)):
                            fid = FINDING_WIDTH     # known finding: the width-mode step (before the MAC stage) removed text of the line
                        self.fails.append(("mac", "MAC address %r of line %r occurs in the output %r" % (t, l, o), fid))
        return self.fails

    @staticmethod
    def host_active(cfg, no_obf):
        return cfg["obfuscate"] and cfg["hostname"] and "hostname" not in no_obf


# --------------------------------------------------------------------------- generators

FQDNS = ["web1.abc.com", "web1.abc.com", "db-2.corp.example.org", "node7", "a.b.io", "mail.my-dom.net",
         "e.corp.net", "srv_x.lab.local", "host9.x.y.z.org"]
WORDS = ["the", "error", "at", "eth0", "inet", "link/ether", "from", "to", "user", "login", "value", "id",
         "foo", "bar", "ok", "src", "dst", "port", "conn", "GET", "x"]
PUNCT = [",", ";", ":", "(", ")", "[", "]", "=", "\"", "'", "/", "-", ".", "<", ">", "@", "#", "|", "\t", "  "]
NONASCII = [u"\xe9", u"\xa4", u"\xb7", u"ƒ", u"\xa0", u"\xdf"]
KEYWORDS = ["secret", "tok", "abc", "web", "corp", "1.2", "ey", "user", "XY", " padded ", "ke y", u"\xe9t\xe9",
            "error", "52:54", "example", "host", "aa", "login"]
PW_KEYWORDS = ["word", "pass", "password", "ss"]
# keywords are PLAIN strings: regex metacharacters in them mean nothing.  (keyword, texts an expression of that
# spelling would match but that do not contain the keyword)
META_KEYWORDS = [("a+b", ["aab", "ab"]), ("srv[1]", ["srv1"]), ("foo(bar)", ["foobar"]), ("tok?en", ["token", "toen"]),
                 ("US$5", ["US5", "US"]), ("a.b", ["axb", "a-b"]), ("x|y", ["x", "y"]), ("^top", ["top"]), ("end$", ["end"]),
                 ("\\d", ["7", "d"]), ("c++", ["c", "cc"]), ("[", []), ("(", []), ("a*", ["aa", ""]), ("{2}", ["22"]),
                 ("\\bfoo", ["foo"]), ("[a-c]", ["a", "b"]), ("q{2,3}", ["qq", "qqq"])]
META_NEAR = dict(META_KEYWORDS)
SECRETS = ["hunter2", "S3cr3t!", "p@ss/w0rd", "abc123", "x", "$1$abc/def", "Tr0ub4dor&3", "a=b", "(paren)", "c0rr-ect"]
PLAIN_PATS = ["DROPME", "secret", "err", "10.", "web1", ":", "x y", "Z"]


FIRST_LABELS = ["web01", "node3", "gw", "db-2", "srv_x", "mail", "host9", "localhost", "app-3", "e", "a1", "web1"]
MID_LABELS = ["corp", "lab", "my-dom", "x", "dc1", "int_net", "abc", "example"]
LAST_LABELS = ["lan", "local", "internal", "io", "com", "localdomain", "org", "net"]


def case_variant(rng, s):
    """the same name in another letter case"""
    k = rng.randrange(5)
    if k == 0:
        return s.upper()
    if k == 1:
        return s.lower()
    if k == 2:
        return s.swapcase()
    if k == 3:
        return ".".join(x[:1].upper() + x[1:] for x in s.split("."))
    return "".join(c.upper() if rng.random() < 0.5 else c.lower() for c in s)


def g_fqdn(rng):
    """the system's name AS THE CALLER GIVES IT: 1, 2, 3 or 4+ labels (two labels: at least a quarter), TLD-like last
    labels, digits / hyphens / underscores inside labels; a third with upper-case letters in the short name, in the domain
    or in both (WebSrv01.Corp.Example.org); a few with white space around or a trailing dot"""
    f = g_fqdn_lower(rng)
    k = rng.random()
    if k < 0.33:
        labels = f.split(".")
        where = rng.choice(["short", "domain", "both"]) if len(labels) > 1 else "short"
        sh, dom = labels[0], ".".join(labels[1:])
        if where in ("short", "both"):
            sh = case_variant(rng, sh)
            sh = sh if sh != sh.lower() else sh[:1].upper() + sh[1:]
        if where in ("domain", "both"):
            dom = case_variant(rng, dom)
            dom = dom if dom != dom.lower() else dom[:1].upper() + dom[1:]
        f = sh + ("." + dom if dom else "")
    if rng.random() < 0.06:
        # (a trailing dot only behind a name that has a domain: 'e.' has the EMPTY domain, whose expression matches every
        # dotted run — addresses included; reported as a suspected defect, not generated)
        f = rng.choice([" " + f, f + " ", f + "." if "." in f else " " + f, " " + f + " ", "\t" + f])
    return f


def g_fqdn_lower(rng):
    if rng.random() < 0.2:
        return rng.choice(FQDNS)
    k = rng.random()
    n = 1 if k < 0.12 else 2 if k < 0.47 else 3 if k < 0.75 else rng.choice([4, 4, 5])
    labels = [rng.choice(FIRST_LABELS)]
    if n >= 2:
        labels += [rng.choice(MID_LABELS) for _ in range(n - 2)] + [rng.choice(LAST_LABELS)]
    return ".".join(labels)


def system_domain(fqdn):
    """the system's domain, derived independently of the Cleaner: everything after the first label of the
    FQDN when there is more than one label"""
    return fqdn.split(".", 1)[1] if "." in fqdn else None


# textually RELATED to an ignored item without being it (the ignore lists are lists of whole items)
IP_NEAR = ["27.0.0.1", "7.0.0.1", "127.0.0.10", "127.0.0.11", "12.0.0.1", "127.0.0.100", "27.0.0.10", "127.0.0.2",
           "126.0.0.1", "127.0.0.0", "227.0.0.1", "127.0.0.12", "1.127.0.0", "127.0.1.1"]
MAC_NEAR = ["00:00:00:00:00:01", "01:00:00:00:00:00", "00:00:00:00:00:0f", "ff:ff:ff:ff:ff:fe", "fe:ff:ff:ff:ff:ff",
            "0f:ff:ff:ff:ff:ff", "FF:FF:FF:FF:FF:FE", "00:00:00:00:00:ff", "ff:ff:ff:ff:ff:00", "00-00-00-00-00-00",
            "ff-ff-ff-ff-ff-ff", "00:00:00:00:00:10", "f0:00:00:00:00:00"]
MAC_IGNORED = ["00:00:00:00:00:00", "ff:ff:ff:ff:ff:ff", "FF:FF:FF:FF:FF:FF", "Ff:fF:ff:FF:ff:ff"]
V6_NEAR = ["::1", "::11", "::1:1", "1::1", "::10", "fe80::1", "::1/128", "0:0:0:0:0:0:0:1", "::ffff:127.0.0.1"]


def g_ignore_line(rng, cfg):
    """neighbours of the ignored items: alone on a line, next to the ignored item itself, repeated"""
    dom = system_domain(cfg["fqdn"])
    hosts = ["localhost", "localhost.localdomain", "example.com", "host1.example.com"]
    if dom:
        hosts += ["localhost." + dom, "mylocalhost." + dom, "example.com." + dom, "host2.example.com." + dom, "x-localhost-1." + dom]
    kind = rng.randrange(4)
    pool, ign = [(IP_NEAR, ["127.0.0.1"]), (MAC_NEAR, MAC_IGNORED), (V6_NEAR, ["::1"]), (hosts, ["localhost"])][kind]
    a = rng.choice(pool)
    k = rng.randrange(6)
    sepr = rng.choice([" ", " ", ", ", ",", " - ", "; "])
    if k == 0:
        return a
    if k == 1:
        return a + sepr + rng.choice(ign)
    if k == 2:
        return rng.choice(ign) + sepr + a
    if k == 3:
        return a + sepr + a + sepr + rng.choice(pool)
    if k == 4:
        return rng.choice(WORDS) + " " + rng.choice(ign) + sepr + a + sepr + rng.choice(ign) + " " + rng.choice(WORDS)
    return rng.choice(ign)


def g_ip(rng):
    if rng.random() < 0.08:
        return rng.choice(IP_NEAR)
    k = rng.randrange(10)
    if k == 0:
        return "127.0.0.1"
    if k == 1:
        return "10.230.230.%d" % rng.randint(1, 6)
    if k == 2:
        return rng.choice(["1.2.3.4", "11.2.3.4", "1.2.3.45", "1.2.3.4", "21.2.3.4"])
    if k == 3:
        return rng.choice(["0.0.0.0", "255.255.255.0", "255.255.255.255", "192.168.1.1", "192.168.1.10", "192.168.1.100"])
    return ".".join(str(rng.choice([0, 1, 9, 10, 25, 99, 100, 199, 200, 249, 250, 255, rng.randint(0, 255)]) if i else rng.randint(1, 255)) for i in range(4))


def g_ip_ctx(rng, ip):
    k = rng.randrange(14)
    return [ip, ip, ip + ":" + str(rng.choice([22, 80, 8080])), ip + "/24", "[" + ip + "]", "(" + ip + ")", ip + ".",
            ip + "," + g_ip(rng), "x" + ip, ip + "x", ip + "." + str(rng.randint(0, 9)), "0" + ip,
            ip + str(rng.randint(0, 9)), ip + "-" + g_ip(rng)][k]


def g_mac(rng):
    if rng.random() < 0.08:
        return rng.choice(MAC_NEAR)
    k = rng.randrange(8)
    sep = rng.choice(":::-")
    if k == 0:
        return sep.join(["00"] * 6)
    if k == 1:
        return sep.join([rng.choice(["ff", "FF"])] * 6)
    hx = "0123456789abcdef"
    m = sep.join(rng.choice(hx) + rng.choice(hx) for _ in range(6))
    if k == 2:
        m = m.upper()
    if k == 3:
        m = "".join(ch.upper() if rng.random() < 0.5 else ch for ch in m)
    if k == 4:
        m = "52:54:00:aa:bb:cc"
    return m


def g_mac_ctx(rng, m):
    k = rng.randrange(12)
    return [m, m, m, "MAC:" + m, "mac=" + m, m + ":", "-" + m, m + "-x", "0" + m, m + "0", "(" + m + ")",
            m + "," + g_mac(rng)][k]


def g_host(rng, fqdn):
    short = fqdn.split(".")[0]
    dom = system_domain(fqdn)
    k = rng.randrange(14)
    if dom is None:
        t = [short, short + "x", "x" + short, short + ".example.org", short][k % 5]
        return case_variant(rng, t) if rng.random() < 0.15 else t
    other = rng.choice(["db1", "app-3", "x", "www", "a.b", "smtp_1", "db07", "a.b.c", "n-1.dc_2"])
    if rng.random() < 0.3:
        other = case_variant(rng, other)
    t = [short, fqdn, fqdn, other + "." + dom, other + "." + dom, other + "." + dom + ":8080",
         "http://" + fqdn + "/p", dom, "." + dom, "-" + other + "." + dom, other + "." + dom + ".",
         short + "." + dom + "munity", other + "." + dom.replace(".", "X", 1), "x" + short + "y"][k]
    if rng.random() < 0.15:
        # the same text in ANOTHER letter case, or without the white space / dot the configured spelling carries: what the
        # cleaner does with it is decided by the correspondence (matching is by the configured spelling, verbatim)
        t = rng.choice([case_variant(rng, t), t.strip(), t.strip().rstrip(".")])
    return t


def g_password(rng):
    k = rng.randrange(16)
    w = rng.choice(["", "", "_hash", "s", "2", "_file"])
    sec = rng.choice(SECRETS) + rng.choice(["", "", "Qx7", "zz9"])
    seps = [":", ": ", "=", " = ", '="', ': "', " --md5 ", " ", "  ", "==", " : ", '= "', ":\t"]
    if k < 10:
        s = "password" + w + rng.choice(seps) + sec
        return s + rng.choice(["", "", '"', ",", ";x"])
    return ["password='" + sec + "'", "Password=" + sec, "password={" + sec + "}", "password ******** " + sec,
            "password * " + sec, "passwordabc"][k - 10]


def g_line(rng, cfg, kws):
    n = rng.choice([0, 1, 2, 3, 3, 4, 5, 6, 8])
    parts = []
    for _ in range(n):
        k = rng.randrange(20)
        if k < 4:
            parts.append(g_ip_ctx(rng, g_ip(rng)))
        elif k < 7:
            parts.append(g_mac_ctx(rng, g_mac(rng)))
        elif k < 10:
            parts.append(g_host(rng, cfg["fqdn"]))
        elif k < 12 and kws:
            kw = rng.choice(kws).strip() or "kw"
            other = rng.choice(kws).strip() or "kw"
            near = META_NEAR.get(kw) or [kw.upper()]
            parts.append(rng.choice([kw, kw, "x" + kw, kw + kw, kw + "1", kw.upper(), kw + other, kw + " " + kw + "," + kw,
                                     kw[:-1] + other, rng.choice(near), rng.choice(near) + " " + kw]))
        elif k < 14:
            parts.append(g_password(rng))
        elif k == 14:
            parts.append(rng.choice(PLAIN_PATS))
        elif k == 15:
            parts.append(rng.choice(NONASCII) + rng.choice(["", "1.2.3.4", "web1", "52:54:00:aa:bb:cc"]))
        elif k == 16:
            parts.append(rng.choice(["fe80::1", "2001:db8:0:0:0:0:0:1", "::1", "2001:db8::8a2e:370:7334/64"]))
        else:
            parts.append(rng.choice(WORDS))
    out = ""
    for i, p in enumerate(parts):
        if i:
            out += rng.choice([" ", " ", " ", " ", rng.choice(PUNCT), "", ", ", rng.choice(PUNCT) + " ", " " + rng.choice(PUNCT),
                               chr(rng.randint(33, 126))])
        out += p
    if rng.random() < 0.1:
        out = rng.choice(PUNCT) + out
    if rng.random() < 0.1:
        out += rng.choice(PUNCT)
    return out


def g_rx(rng):
    w = rng.choice(["err", "DROP", "web", "user", "x", "10"])
    lits = [("L" + ch, False) for ch in w]
    k = rng.randrange(8)
    if k == 0:
        return {"anchored": False, "atoms": lits, "eol": False}
    if k == 1:
        return {"anchored": False, "atoms": lits + [("digit", True)], "eol": False}
    if k == 2:
        return {"anchored": True, "atoms": lits, "eol": False}
    if k == 3:
        return {"anchored": False, "atoms": lits, "eol": True}
    if k == 4:
        return {"anchored": False, "atoms": [("upper", False), ("lower", True), ("digit", False)], "eol": False}
    if k == 5:
        return {"anchored": False, "atoms": [("space", False)] + lits + [("any", False), ("alnum", True)], "eol": False}
    if k == 6:
        return {"anchored": False, "atoms": [("xdigit", True), ("L:", False), ("xdigit", True), ("L:", False)], "eol": False}
    return {"anchored": True, "atoms": [("blank", True), ("word", True)], "eol": False}


# Expressions beyond the modelled family.  (text, where the sample must stand, samples that match, near misses)
RICH = [
    (r"(ab|cd)\1", "any", ["abab", "cdcd", "xcdcdx"], ["abcd", "cdab", "ab ab"]),
    (r"([[:digit:]])-\1", "any", ["3-3", "7-7", "x0-0"], ["3-4", "3--3", "a-a"]),
    (r"(?P<n>[[:alpha:]]+)=(?P=n)", "any", ["foo=foo", "x=x", "Key=Key"], ["foo=bar", "foo =foo", "1=1"]),
    (r"errX[[:digit:]]+|DROP", "any", ["errX12", "DROP", "xerrX7"], ["errX", "DRO P", "errx12"]),
    (r"^start|end$", "edge", ["start", "end"], ["xstart", "endx", " start"]),
    (r"(?i)dropme", "any", ["DropMe", "DROPME", "dropme"], ["drop me", "dr0pme"]),
    (r"(?i)^warn[[:space:]]", "start", ["WARN x", "Warn\tx", "warn  y"], ["warnx", "xWARN x"]),
    (r"[[:upper:]]{2,3}[0-9]?-z", "any", ["AB-z", "ABC7-z", "xQRS-z"], ["A-z", "AB77-z", "ab-z"]),
    (r"(a)(b)\2\1", "any", ["abba", "xabbay"], ["abab", "abb a"]),
    (r"k[[:space:]]*=[[:space:]]*v", "any", ["k = v", "k=v", "k\t=  v"], ["k : v", "k=  w", "K=v"]),
    (r"^[[:blank:]]*#", "start", ["# c", "  #c", "\t# x"], ["x #", "; #"]),
    (r"(x|y)z\1|qq", "any", ["xzx", "yzy", "qq"], ["xzy", "yzx", "q q"]),
    (r"(?P<n>[[:digit:]]{2}):(?P=n)$", "end", ["12:12", "x07:07"], ["12:13", "1:1"]),
    (r"a.c", "any", ["abc", "a-c", "a c"], ["ac", "a\u00a4\u00a4c"]),
    (r"(?:un)?set[[:blank:]]+([[:word:]]+)[[:blank:]]+\1", "any", ["set v v", "unset  ab ab"], ["set v w", "setvv"]),
    (r"[[:xdigit:]]{4}(:[[:xdigit:]]{4})\1$", "end", ["beef:0001:0001", "00aa:00Aa:00Aa"], ["beef:0001:0002", "beef:0001"]),
    (r"^(?P<n>[[:lower:]]+)[[:digit:]]*[[:blank:]].*(?P=n)$", "whole", ["node7 is node", "up x up"], ["node7 is nodes", "Up x Up"]),
    (r"\bport[[:digit:]]\b|\bP[[:digit:]]{2}\b", "any", ["port7", "P22", "(port1)"], ["port77", "xport7", "P2"]),
]
SAFE_FILL = ["the", "lorem", "node", "up", "7", "ok;", "is", "(z)", "..."]
RX_SAMPLES = ["err1", "DROP", "web", "user9", "x", "10", "Ab1", " xq z", "af:af:", "\tw", "err", "Zz9"]


def g_rich_list(rng):
    """2-5 INDEPENDENT expressions in random order: groups, numbered and named back-references (the same group name in
    several expressions), un-parenthesised top-level alternation, anchors, inline flags, POSIX-looking classes,
    quantifiers; now and then an expression of the modelled family among them"""
    n = rng.choice([2, 2, 3, 3, 4, 5])
    picks = rng.sample(range(len(RICH)), n)
    out = []
    for i in picks:
        if rng.random() < 0.15:
            out.append(g_rx(rng))
        else:
            out.append({"re": RICH[i][0], "t": i})
    rng.shuffle(out)
    return out


def place(rng, frag, where, fill):
    """(line, side on which a marker may stand)"""
    if where == "whole":
        return frag, None if "\n" in frag else "none"
    if where == "start" or (where == "edge" and frag.startswith("s")):
        return frag + " " + fill(), "end"
    if where == "end" or where == "edge":
        return fill() + " " + frag, "start"
    k = rng.randrange(4)
    return [frag, fill() + " " + frag, frag + " " + fill(), fill() + " " + frag + " " + fill()][k], "any"


def g_rich_lines(rng, plist, fill):
    """for every position of the list a line matched by exactly that expression (taken by itself), near misses, filler"""
    pats = [({"re": q["re"]} if "re" in q else {"rx": q}) for q in plist]
    lines = []
    for i, q in enumerate(plist):
        for _ in range(12):
            if "re" in q:
                t = RICH[q["t"]]
                cand = place(rng, rng.choice(t[2]), t[1], fill)
            else:
                cand = place(rng, rng.choice(RX_SAMPLES), rng.choice(["any", "start", "end"]), fill)
            if [j for j, pj in enumerate(pats) if pat_hit(pj, cand[0])] == [i]:
                lines.append(cand)
                break
        if "re" in q and rng.random() < 0.75:
            t = RICH[q["t"]]
            lines.append(place(rng, rng.choice(t[3]), t[1], fill))
    if rng.random() < 0.6:
        lines.append((fill() + " " + fill(), "any"))
    if rng.random() < 0.15:
        lines.append(("", "none"))
    rng.shuffle(lines)
    return lines[:10]


def g_rxlist_case(rng):
    """the exclusion list alone: no other stage runs, the output must be exactly the unmatched lines"""
    plist = g_rich_list(rng)
    cfg = {"obfuscate": False, "hostname": False, "mac": False, "ipv6": False, "fqdn": "web1.abc.com",
           "keywords": None, "patterns": {"regex": plist}}
    route = "content" if rng.random() < 0.85 else "single"
    call = {"no_obfuscate": list(NAMES), "no_redact": False, "allowlist": None, "width": False, "route": route}
    fill = lambda: rng.choice(SAFE_FILL)
    lines = [l for l, _ in g_rich_lines(rng, plist, fill)] or ["lorem"]
    if route == "single":
        lines = [rng.choice(lines)]
    elif rng.random() < 0.3:
        lines = [l + "\n" for l in lines]
    return {"cfg": cfg, "call": call, "lines": lines, "markers": False}


def g_sys(rng, cfg):
    """the Cleaner is built WITHOUT fqdn: generated answers of the socket functions, labels in the configuration; the
    case's fqdn (model parameter, oracle) becomes the name the harness's own statement of determine_hostname() gives"""
    F = cfg["fqdn"].strip().rstrip(".") or "h"      # (the socket functions do not answer with white space around)
    short = F.split(".")[0]
    k = rng.randrange(8)
    if k == 0:
        ans = (short, F, F)
    elif k == 1:
        ans = (short, F, None)                     # lookup fails
    elif k == 2:
        ans = (F, F, F)
    elif k == 3:
        ans = (short, "localhost.localdomain", F)
    elif k == 4:
        ans = (short, F, "localhost")
    elif k == 5:
        ans = (short, short, None)
    elif k == 6:
        ans = (short, short, "ip-10-0-0-7." + (system_domain(F) or "ec2.internal"))
    else:
        ans = (short, "localhost", "localhost.localdomain")
    dom = system_domain(F)
    labels = [None, None, "My Server 1", "disp.other.org", "web-frontend", "prod_db.example.net"]
    if dom:
        labels += ["label." + dom, "disp-01." + dom, short + "-alias." + dom]
    cfg["sys"] = {"gethostname": ans[0], "getfqdn": ans[1], "ex": ans[2],
                  "display_name": rng.choice(labels), "ansible_host": rng.choice(labels)}
    cfg["fqdn"] = own_system_name(*ans)


def g_case(rng, width_ok=True):
    fqdn = g_fqdn(rng)
    obf = rng.random() < 0.8
    cfg = {"obfuscate": obf, "hostname": rng.random() < 0.7, "mac": rng.random() < 0.7, "ipv6": rng.random() < 0.4,
           "fqdn": fqdn, "keywords": None, "patterns": None}
    k = rng.randrange(10)
    if k < 5:
        pool = KEYWORDS + (PW_KEYWORDS if rng.random() < 0.08 else [])
        cfg["keywords"] = [rng.choice(pool) for _ in range(rng.choice([1, 1, 2, 3, 4]))]
        if rng.random() < 0.35:            # metacharacters, valid and invalid as an expression
            for _ in range(rng.choice([1, 1, 2, 3])):
                cfg["keywords"].insert(rng.randrange(len(cfg["keywords"]) + 1), rng.choice(META_KEYWORDS)[0])
        if rng.random() < 0.03:
            cfg["keywords"].append(rng.choice(["", "  "]))
    elif k == 5:
        cfg["keywords"] = []
    if rng.random() < 0.25:
        g_sys(rng, cfg)
    k = rng.randrange(10)
    rich = None
    if k < 3:
        cfg["patterns"] = {"plain": [rng.choice(PLAIN_PATS) for _ in range(rng.choice([1, 1, 2, 3]))]}
    elif k < 5:
        cfg["patterns"] = {"regex": [g_rx(rng) for _ in range(rng.choice([1, 1, 2, 3]))]}
    elif k < 7:
        rich = g_rich_list(rng)
        cfg["patterns"] = {"regex": rich}
    elif k == 7:
        cfg["patterns"] = {"plain": []}
    route = rng.choice(["content", "content", "content", "single", "file", "provider"])
    k = rng.randrange(10)
    if k < 5:
        no_obf = None
    elif k == 5:
        no_obf = []
    elif k == 6:
        no_obf = list(NAMES)
    elif k == 7:
        no_obf = list(NAMES) + ["bogus"]
    else:
        no_obf = [n for n in NAMES if rng.random() < 0.35]
    call = {"no_obfuscate": no_obf, "no_redact": rng.random() < 0.2, "allowlist": None,
            "width": width_ok and rng.random() < 0.12, "route": route}
    if route == "provider":
        call["no_obfuscate"] = no_obf or []
    if route in ("content", "single", "file") and rng.random() < 0.2:
        call["allowlist"] = dict((rng.choice(WORDS + ["1", "a", ":"]), rng.choice([1, 1, 2, 5])) for _ in range(rng.choice([0, 1, 2, 3])))
    kws = cfg["keywords"] or []
    if rich is not None:
        # lines built around the expressions of the list; the rest of each line is ordinary cleaner material
        fill = lambda: g_line(rng, cfg, kws) if rng.random() < 0.5 else rng.choice(SAFE_FILL)
        sided = g_rich_lines(rng, rich, fill) or [("lorem", "any")]
        if route == "single":
            sided = [rng.choice(sided)]
        markers = route not in ("single", "file")
    else:
        nl = 1 if route == "single" else rng.choice([1, 1, 2, 3, 4, 6])
        sided = []
        for i in range(nl):
            l = g_line(rng, cfg, kws)
            if rng.random() < 0.06:
                l = rng.choice(["", " ", "\t"])
            elif rng.random() < 0.09:
                l = g_ignore_line(rng, cfg)
            sided.append((l, "any"))
        markers = route != "single" and rng.random() < 0.6
    lines = []
    for i, (l, side) in enumerate(sided):
        if markers:
            m = u"\xa7%d\xa7" % i
            if side == "none" or side is None:
                pass                      # the line must stay exactly as it is (empty line, whole-line expression)
            elif side == "start" or (side == "any" and rng.random() < 0.5):
                l = m + " " + l
            else:
                l = l + " " + m
        lines.append(l)
    if markers and rich is not None and any(side in ("none", None) for _, side in sided):
        markers = False                   # a line without marker: images are identified by counting instead
    if route == "file":
        lines = [l.encode("ascii", "replace").decode("ascii").replace("\r", " ") for l in lines]
        markers = False
        lines = [l + "\n" for l in lines[:-1]] + [lines[-1] + rng.choice(["\n", "\n", ""])]
        lines = [l for l in lines if l] or ["x\n"]        # what readlines() will return
    elif route == "provider":
        lines = [l.replace("\n", " ") for l in lines]
    elif rng.random() < 0.3:
        lines = [l + "\n" for l in lines]
    return {"cfg": cfg, "call": call, "lines": lines, "markers": markers}


def g_declared_case(rng, kind):
    """a spec DECLARED on a registry point and collected (stream clean:declared): the declaration is the generated part —
    no_obfuscate absent / [] / what most points declare / a subset / everything, no_redact absent / False / True,
    filterable with 1-3 filters of small and large max_match; rm_conf in its odd shapes; keyword lists beyond 10 and 100
    entries, with duplicates and blanks around"""
    base = g_case(rng, width_ok=False)
    cfg = base["cfg"]
    cfg["ipv6"] = False
    cfg.pop("sys", None)
    k = rng.randrange(12)
    if k < 3:
        n = rng.choice([11, 12, 13, 21, 102, 102, 130])
        name = lambda i: "k%03dz" % i                  # no name is part of another one: each keyword is cleared by ITS OWN step
        pool = KEYWORDS[:8] + [name(i) for i in range(n)]
        kws = [rng.choice(pool) if i < n - 3 and rng.random() < (0.3 if n < 100 else 0.04) else name(i) for i in range(n)]
        if rng.random() < 0.5:
            j = rng.randrange(n)
            kws[j] = " " + kws[j] + "\t"
        cfg["keywords"] = kws
    k = rng.randrange(20)
    if k < 4:
        cfg["patterns"] = None
        cfg["rm_shape"] = RM_SHAPES[k]
        if cfg["rm_shape"] in ("rm-none", "values-none"):
            cfg["keywords"] = None
    elif k < 8:
        ps = [rng.choice(PLAIN_PATS + [" ", "  ", "", "\t"]) for _ in range(rng.choice([1, 2, 3, 4]))]
        if rng.random() < 0.5:
            ps.insert(rng.randrange(len(ps) + 1), rng.choice(ps))          # a duplicate
        cfg["patterns"] = {"plain": ps}
    elif k < 10 and cfg.get("patterns") and "regex" in cfg["patterns"] and all("re" not in q for q in cfg["patterns"]["regex"]):
        rxs = cfg["patterns"]["regex"]
        rxs.insert(rng.randrange(len(rxs) + 1), rng.choice(rxs))            # a duplicate expression
    kws = cfg["keywords"] or []
    late = [x for x in kws[9:]]
    lines = []
    for _ in range(rng.choice([1, 2, 3, 4, 6])):
        l = g_line(rng, cfg, kws)
        if late and rng.random() < 0.6:
            l += rng.choice([" ", ",", "="]) + rng.choice(late if rng.random() < 0.5 else late[-3:]).strip() + rng.choice(["", " x", "1"])
        if rng.random() < 0.25:
            l += " " + rng.choice(["regex", "other", "DROPME", " ", "regexp other"])
        l = l.replace("\n", " ").replace("\r", " ").encode("ascii", "replace").decode("ascii")
        lines.append(l if l.strip() else "x" + l)
    j = rng.randrange(10)
    if j < 3:
        no_obf = None
    elif j == 3:
        no_obf = []
    elif j < 6:
        no_obf = list(REGISTRY_DEFAULT)
    elif j == 6:
        no_obf = list(NAMES)
    else:
        no_obf = [n for n in NAMES if rng.random() < 0.35]
    no_red = rng.choice([None, None, False, False, True])
    filt = None
    if rng.random() < 0.3:
        keys = []
        for _ in range(rng.choice([1, 1, 2, 3])):
            key = rng.choice(WORDS + ["1", "a", ":", "password", "x"])
            if key not in keys:
                keys.append(key)
        filt = [[key, rng.choice([1, 1, 2, 10000])] for key in keys]
    width = kind in ("simple_file", "glob_file", "first_file") and rng.random() < 0.08
    sibs = []
    for _ in range(rng.choice([0, 1, 1, 2])):
        sibs.append({"no_obfuscate": rng.choice([None, [], list(REGISTRY_DEFAULT), list(NAMES), ["keyword", "password"], ["ip"]]),
                     "no_redact": rng.choice([None, False, True, True]),
                     "filters": [[rng.choice(WORDS), 1]] if rng.random() < 0.3 else None,
                     "before": rng.random() < 0.6,
                     "lines": [(g_line(rng, cfg, kws).replace("\n", " ").replace("\r", " ").encode("ascii", "replace").decode("ascii") or "x")
                               for _ in range(rng.choice([1, 2]))]})
    decl = {"no_obfuscate": no_obf, "no_redact": no_red, "filterable": filt is not None, "filters": filt}
    call = {"no_obfuscate": list(no_obf or []), "no_redact": bool(no_red), "allowlist": dict((a, b) for a, b in filt) if filt else None,
            "width": width, "route": "spec:reg:" + kind}
    return {"cfg": cfg, "call": call, "decl": decl, "lines": lines, "markers": False, "siblings": sibs}


def g_interleaved(rng, gid):
    """2-3 cleaners of DIFFERENT configurations alive at the same time, used in an order other than the order of building"""
    n = rng.choice([2, 2, 3])
    members = []
    while len(members) < n:
        c = g_case(rng, width_ok=False)
        if c["call"]["route"] in ("content", "single", "provider") and in_domain(c):
            c["cfg"].pop("sys", None)
            members.append(c)
    if members[0]["cfg"].get("patterns") and rng.random() < 0.7:
        # the second cleaner has the other form of exclusion list / none, another keyword list
        q = members[1]["cfg"]
        if "plain" in members[0]["cfg"]["patterns"]:
            q["patterns"] = {"regex": [g_rx(rng)]}
        else:
            q["patterns"] = rng.choice([None, {"plain": [rng.choice(PLAIN_PATS)]}])
    order = list(range(n))
    order.reverse() if rng.random() < 0.6 else rng.shuffle(order)
    bare = [{"cfg": m["cfg"], "call": m["call"], "lines": m["lines"], "markers": m["markers"]} for m in members]
    return [dict(m, interleaved={"id": gid, "k": k, "order": order, "cases": bare}) for k, m in enumerate(bare)]


def in_domain(case):
    cfg = case["cfg"]
    strs = list(case["lines"]) + [cfg["fqdn"]] + list(cfg["keywords"] or [])
    return all(ord(ch) < DOMAIN_LIMIT for s in strs for ch in s)


def load_corpus():
    d = os.path.join(VERIF, "corpus", "C08")
    out = []
    if os.path.isdir(d):
        for f in sorted(os.listdir(d)):
            if f.endswith(".json"):
                out.append((f, json.load(open(os.path.join(d, f), encoding="utf-8"))))
    return out



# --------------------------------------------------------------------------- histories on ONE cleaner

KINDS = ["hostname", "ip", "ipv6", "keyword", "mac", "password"]
REGISTRY_DEFAULT = ["hostname", "ip", "ipv6", "mac"]          # what most registry points declare


def snapshot(c):
    """the cleaner's containers (self.obfuscate, self.redact, any ordering list): keys in order, identity and type
    of the members — a call must leave them as they are"""
    out = {"DEFAULT_OBFUSCATIONS": sorted(cleaner_mod.DEFAULT_OBFUSCATIONS)}
    for name, v in sorted(vars(c).items()):
        if isinstance(v, dict) and name in ("obfuscate", "redact"):
            out[name] = [(repr(k), id(x), type(x).__name__) for k, x in v.items()]
        elif isinstance(v, (list, tuple)):
            out[name] = [(id(x), type(x).__name__) for x in v]
    return out


def changed_containers(before, after):
    """containers that existed before the call and are different after it (a container that a call creates, or any
    other dict / set the cleaner keeps — a cache — is not held against it: its effect, if any, shows in the outputs)"""
    return [n for n in before if n in after and before[n] != after[n]] + [n for n in before if n not in after]


def mappings(c):
    out = {}
    for name, key in (("ip", "ip"), ("host", "hostname"), ("mac", "mac"), ("ipv6", "ipv6")):
        ob = c.obfuscate.get(key)
        out[name] = [(m["original"], m["obfuscated"]) for m in ob.mapping()] if ob is not None else []
    return out


def one_call(c, call, lines):
    """(canonical outcome, cleaned lines or None, exception class or None) of one call on an existing cleaner"""
    try:
        if call["route"] == "single":
            res = c.clean_content(lines[0], no_obfuscate=call["no_obfuscate"], no_redact=call["no_redact"],
                                  allowlist=call["allowlist"], width=call["width"])
            return ("ok\tnone" if res is None else "ok\t" + item(res)), ([] if res is None else [res]), None
        res = c.clean_content(list(lines), no_obfuscate=call["no_obfuscate"], no_redact=call["no_redact"],
                              allowlist=call["allowlist"], width=call["width"])
        return "\t".join(["ok"] + [item(l) for l in res]), res, None
    except Exception as e:
        msg = str(e.args[0]) if e.args else ""
        if "SubIPError" in msg:
            return "err:index", None, None
        return "raised:" + type(e).__name__, None, type(e).__name__


def run_history(hist):
    """
    Run the calls of a history on ONE Cleaner.  Per call: the outcome, the lines the IPv6 stage received, whether the
    cleaner's containers changed, and the outcome of the same call on a FRESH cleaner of the same configuration whose
    numbering was first brought to the state the shared cleaner had before the call (by cleaning, without any
    exemption, one line per original in the order they were issued) — None when that state cannot be reproduced.
    """
    cfg = hist["cfg"]
    res = []
    try:
        c = make_cleaner(cfg)
    except Exception as e:
        for call in hist["calls"]:
            r = Run()
            r.raised = type(e).__name__
            r.out, r.lines_out, r.v6 = "raised:" + r.raised, None, [[] for _ in call["lines"]]
            r.mutated, r.fresh = None, None
            res.append(r)
        return res
    rec = []
    v6 = c.obfuscate.get("ipv6")
    if v6 is not None:
        orig_parse = v6.parse_line

        def recording(line, **kw):
            rec.append(line)
            return orig_parse(line, **kw)
        v6.parse_line = recording
    for call in hist["calls"]:
        r = Run()
        lines = call["lines"]
        before_maps = guard(lambda: mappings(c))
        before = snapshot(c)
        del rec[:]
        r.out, r.lines_out, r.raised = one_call(c, call, lines)
        after = snapshot(c)
        r.mutated = {"before": before, "after": after} if changed_containers(before, after) else None
        r.v6 = [[] for _ in lines]
        order = list(range(len(lines) - 1, -1, -1)) if call["route"] != "single" else [0]
        if v6 is not None and len(rec) == len(order):
            for idx, seen in zip(order, rec):
                if seen:
                    found = [m[0] for m in re.findall(v6.pattern, seen, re.I)]
                    r.v6[idx] = [f for f in found if not any(re.search(i, f, re.I) for i in v6._ignore_list)]
        # the same call on a fresh cleaner with the same numbering
        r.fresh = None
        if isinstance(before_maps, dict):
            def fresh_run(before_maps=before_maps, call=call, lines=lines):
                f = make_cleaner(cfg)
                prime = [o for o, _ in before_maps["ip"]] + [o for o, _ in before_maps["host"] if o != cfg["fqdn"]] + \
                        [o for o, _ in before_maps["mac"]] + [o for o, _ in before_maps["ipv6"]]
                if prime:
                    f.clean_content(list(reversed(prime)), no_redact=True)      # bottom-up: the first original is numbered first
                m = mappings(f)
                if m["ip"] != before_maps["ip"] or m["host"] != before_maps["host"]:
                    return None
                return one_call(f, call, lines)[0]
            r.fresh = guard(fresh_run)
        res.append(r)
    final = guard(lambda: mappings(c))
    kwo = c.obfuscate.get("keyword")
    kw_subs = guard(lambda: [m["obfuscated"] for m in kwo.mapping()] if kwo else [])
    for r in res:
        if isinstance(final, dict):
            r.tables = final
        r.kw_subs = kw_subs if isinstance(kw_subs, list) else []
    return res


def g_secret_line(rng, cfg, kws):
    """a line that carries a secret of every kind, in random order, among ordinary material"""
    parts = [g_ip_ctx(rng, g_ip(rng)), g_mac_ctx(rng, g_mac(rng)), g_host(rng, cfg["fqdn"]), g_password(rng),
             rng.choice(["fe80::1", "2001:db8:0:0:0:0:0:1", "2001:db8::8a2e:370:7334"])]
    if kws:
        parts.append(rng.choice(kws).strip() or "kw")
    parts += [rng.choice(WORDS) for _ in range(rng.choice([0, 1, 2]))]
    rng.shuffle(parts)
    return " ".join(parts[:rng.choice([3, 4, 5, 6, 7])])


def g_exemptions(rng):
    k = rng.randrange(10)
    if k < 3:
        return list(REGISTRY_DEFAULT)
    if k < 5:
        return None if rng.random() < 0.5 else []
    if k == 5:
        return list(KINDS)
    if k == 6:
        return [rng.choice(KINDS)]
    sub = [n for n in KINDS if rng.random() < 0.4]
    rng.shuffle(sub)
    return sub or [rng.choice(KINDS)]


def g_history(rng):
    """2-6 calls on one cleaner, each with its own exemption list; an exempting call comes first more often than not"""
    base = g_case(rng, width_ok=False)
    cfg = base["cfg"]
    if rng.random() < 0.7:
        cfg["obfuscate"] = True
    if cfg["patterns"] and "regex" in cfg["patterns"] and rng.random() < 0.5:
        cfg["patterns"] = None
    kws = cfg["keywords"] or []
    calls = []
    for k in range(rng.choice([2, 2, 3, 3, 4, 5, 6])):
        no_obf = g_exemptions(rng)
        if k == 0 and rng.random() < 0.6 and not no_obf:
            no_obf = list(REGISTRY_DEFAULT)
        route = "content" if rng.random() < 0.85 else "single"
        lines = []
        for i in range(1 if route == "single" else rng.choice([1, 2, 2, 3, 4])):
            l = g_secret_line(rng, cfg, kws) if rng.random() < 0.7 else g_line(rng, cfg, kws)
            if route != "single":
                m = u"\xa7%d\xa7" % i
                l = (m + " " + l) if rng.random() < 0.5 else (l + " " + m)
            lines.append(l)
        calls.append({"no_obfuscate": no_obf, "no_redact": rng.random() < 0.15, "allowlist": None, "width": False,
                      "route": route, "lines": lines, "markers": route != "single"})
    return {"cfg": cfg, "calls": calls}


def call_case(hist, k):
    call = hist["calls"][k]
    return {"cfg": hist["cfg"], "call": dict((x, call[x]) for x in ("no_obfuscate", "no_redact", "allowlist", "width", "route")),
            "lines": call["lines"], "markers": call["markers"]}


def history_fails(hist, res):
    """oracle over a history: the per-call clauses for every call (each against ITS OWN exemptions), the comparison with
    the fresh cleaner, and the cleaner's containers left unchanged.  [(call index, clause, text, finding)]"""
    out = []
    for k, r in enumerate(res):
        case = call_case(hist, k)
        for clause, text, fid in Oracle(case, r).check():
            out.append((k, clause, "call %d of %d (no_obfuscate=%r after %r): %s" % (
                k, len(res), case["call"]["no_obfuscate"], [c["no_obfuscate"] for c in hist["calls"][:k]], text), fid))
        if r.fresh is not None and r.fresh != r.out:
            def show(o):
                f = o.split("\t")
                return [f[0]] + [dec(x[1:]) if x.startswith("=") else x for x in f[1:]]
            out.append((k, "exemption-scope", "call %d (no_obfuscate=%r) after calls with no_obfuscate=%r on the same cleaner gives %r; "
                        "a fresh cleaner of the same configuration (same numbering) gives %r for the same call"
                        % (k, case["call"]["no_obfuscate"], [c["no_obfuscate"] for c in hist["calls"][:k]], show(r.out), show(r.fresh)), None))
        if r.mutated:
            diff = changed_containers(r.mutated["before"], r.mutated["after"])
            out.append((k, "cleaner-mutated", "call %d (no_obfuscate=%r) changed the cleaner's %s: %r -> %r" % (
                k, case["call"]["no_obfuscate"], diff,
                [[x[0] if isinstance(x, tuple) else x for x in r.mutated["before"][n]] for n in diff],
                [[x[0] if isinstance(x, tuple) else x for x in r.mutated["after"].get(n, [])] for n in diff]), None))
    return out


def run_histories(chk, hists):
    all_res, lines, cases = [], [], []
    for h, hist in enumerate(hists):
        res = run_history(hist)
        all_res.append(res)
        for k, r in enumerate(res):
            case = call_case(hist, k)
            lines.append(proto_line(case, r))
            cases.append({"history": hist, "call": k})
    model = run_driver("C08", lines)
    impl = [r.out for res in all_res for r in res]
    chk.compare("clean:history", cases, impl, model)
    for hist, res in zip(hists, all_res):
        chk.case(json.dumps(hist, sort_keys=True), nontrivial=any(r.lines_out is None or list(r.lines_out) != c["lines"]
                                                                 for r, c in zip(res, hist["calls"])))
        chk.count("history:calls:%d" % len(res))
        seen = set()
        for k, (r, call) in enumerate(zip(res, hist["calls"])):
            mine = set(call["no_obfuscate"] or [])
            for kind in sorted(seen - mine):
                chk.count("history:call-not-exempting-%s-after-a-call-that-did" % kind)
            seen |= mine
            chk.count("history:fresh-comparison:" + ("none" if r.fresh is None else "equal" if r.fresh == r.out else "differs"))
        for k, clause, text, fid in history_fails(hist, res):
            chk.count("oracle:" + clause + (":" + fid if fid else ""))
            chk.failure("%s: %s" % (clause, text), {"op": "history", "history": hist, "call": k}, finding=fid)
    return all_res



# --------------------------------------------------------------------------- long lines below MAX_LINE_LENGTH

BOUNDARIES = [1024, 4096, 8192, 16384, 65536]


def g_long_case(rng, size, route):
    """one long line: every kind of sensitive token placed so that it STRADDLES a multiple of 1024 / 4096 / 8192 / 16384 /
    65536 (the token starts k characters before the boundary, 1 <= k < len(token)); the padding is ' ;' — harmless and
    not host-name characters.  Returns (long case, short twin: the same tokens separated by ' ; ')"""
    base = g_case(rng, width_ok=False)
    cfg = base["cfg"]
    cfg["obfuscate"], cfg["hostname"], cfg["mac"] = True, True, True
    cfg["keywords"] = ["secret", "tok"]
    cfg["patterns"] = {"plain": ["DROPME"]} if rng.random() < 0.25 else None
    fq = cfg["fqdn"]
    dom = system_domain(fq)
    toks = [g_ip(rng), g_ip(rng), g_mac(rng), "2001:db8:0:0:0:0:0:1", "secret", "tok", fq.split(".")[0], fq,
            "password: hunter2Qx7", "password=" + rng.choice(SECRETS) + "Zq1", g_ip(rng) + ":8080"]
    if dom:
        toks += ["db07." + dom, "a.b." + dom]
    if cfg["patterns"] and rng.random() < 0.5:
        toks.append("DROPME")
    rng.shuffle(toks)
    places, used = [], []
    for t in toks:
        for _ in range(30):
            B = rng.choice([b for b in BOUNDARIES if b < size] or [1024])
            m = rng.randint(1, max(1, (size - len(t) - 2) // B))
            start = m * B - rng.randint(1, max(1, len(t) - 1))
            if start > 2 and start + len(t) + 2 < size and all(start + len(t) + 2 <= a or b + 2 <= start for a, b in used):
                used.append((start, start + len(t)))
                places.append((start, t))
                break
    places.sort()
    out, pos = [], 0
    for start, t in places:
        gap = start - pos
        out.append((" ;" * (gap // 2 + 1))[:gap - 1] + " ")
        out.append(t)
        pos = start + len(t)
    out.append((" ;" * ((size - pos) // 2 + 1))[:max(size - pos, 1)])
    long_line = "".join(out)
    short_line = " ; " + " ; ".join(t for _, t in places) + " ;"
    call = {"no_obfuscate": None, "no_redact": False, "allowlist": None, "width": False, "route": route}
    if route == "provider":
        call["no_obfuscate"] = []
    tail = "\n" if route == "file" else ""
    lines_long = [long_line + tail] if route in ("single", "file") else ["lorem ; up", long_line]
    lines_short = [short_line + tail] if route in ("single", "file") else ["lorem ; up", short_line]
    mk = lambda ls: {"cfg": cfg, "call": dict(call), "lines": ls, "markers": False}
    return mk(lines_long), mk(lines_short), [(st, t) for st, t in places]


def collapse(r):
    """the outcome with every run of padding collapsed: what a long line and its short twin must have in common"""
    if r.lines_out is None:
        return r.out
    return re.sub("[ ;]+", " ", "\n".join(r.lines_out))


def long_line_stream(chk, n, sizes):
    rng = chk.rng
    scratch = tempfile.mkdtemp(prefix="c08-")
    twins, modelled, bad, done = [], [], 0, 0
    try:
        for i in range(n):
            size = sizes[i % len(sizes)] + rng.randint(0, 900)
            route = ["content", "single", "file", "provider"][(i // len(sizes)) % 4]
            lc, sc_, places = g_long_case(rng, size, route)
            if not in_domain(lc):
                continue
            rl, rs = run_impl(lc, scratch), run_impl(sc_, scratch)
            done += 1
            chk.case(("long", i, size, route), nontrivial=True)
            chk.count("long-line:%s:%dK" % (route, size // 1024))
            for st, t in places:
                for b in BOUNDARIES:
                    if st // b != (st + len(t) - 1) // b:
                        chk.count("long-line:token-straddles-multiple-of-%d" % b)
            small = {"cfg": lc["cfg"], "call": lc["call"], "size": size, "tokens": places}
            for clause, text, fid in Oracle(lc, rl).check():
                chk.count("oracle:" + clause + (":" + fid if fid else ""))
                chk.failure("%s (line of %d characters): %s" % (clause, size, text[:600]), {"op": "clean", "case": lc}, finding=fid)
            if collapse(rl) != collapse(rs):
                bad += 1
                chk.failure("long-line: a line of %d characters is cleaned differently from the same tokens on a short line: %r vs %r"
                            % (size, collapse(rl)[:400], collapse(rs)[:400]), {"op": "clean", "case": lc})
            twins.append(sc_)
            if size <= 5200 and len(modelled) < (2 if chk.tier == "quick" else 20):
                modelled.append(lc)         # (the model is quadratic in the line length: the others are tied through their short twin)
    finally:
        shutil.rmtree(scratch, ignore_errors=True)
    chk.stream("clean:long-line-vs-short-twin", done, bad)
    if bad:
        chk.tie_broken("correspondence:clean:long-line-vs-short-twin", "%d of %d long lines differ from their short twin" % (bad, done), None)
    run_cases(chk, twins, "clean:long-line-short-twin")
    if modelled:
        run_cases(chk, modelled, "clean:long-line")


# --------------------------------------------------------------------------- recogniser streams

def guard(f):
    """run implementation code; an exception that escapes it is the outcome `raised:<ExceptionClass>`"""
    try:
        return f()
    except Exception as e:
        return "raised:" + type(e).__name__


def recogniser_streams(chk, n):
    rng = chk.rng
    lines, impl, cases = [], [], []

    def gen(alph, k):
        # the alphabet of the stream, and now and then any printable ASCII character (neighbour classes of look-arounds)
        return "".join(rng.choice(alph) if rng.random() < 0.85 else chr(rng.randint(32, 126))
                       for _ in range(rng.randint(0, k)))
    ip = guard(IPv4)
    a_ip = ["0", "1", "2", "5", "25", "255", "256", "9", ".", ".", ".", "1.2.3.4", "10.0.0.1", " ", "x", u"\xe9", u"\xa4",
            ":", "-", "_", "/", "127.0.0.1", "249", "199", "01"]
    for _ in range(n):
        s = gen(a_ip, 12)
        lines.append("ipv4\t" + enc(s))
        impl.append(guard(lambda: items([m[0] for m in re.findall(ip.pattern, s)])))
        cases.append(("ipv4", s))
    a_ig = IP_NEAR + ["127.0.0.1", "127.0.0.1", " ", " ", ",", "x", ":80", "/8", "1.2.3.4"]
    for _ in range(n // 2):
        s = gen(a_ig, 6) if rng.random() < 0.7 else g_ignore_line(rng, {"fqdn": "web1.abc.com"})

        def ip_run(s=s):
            o = IPv4()
            if s:
                o.parse_line(s)
            return items([m["original"] for m in o.mapping()])       # issue order = substitution order
        lines.append("ipkeys\t" + enc(s))
        impl.append(guard(ip_run))
        cases.append(("ipkeys", s))
    a_mg = MAC_NEAR + MAC_IGNORED + MAC_IGNORED + [" ", " ", ",", "x", ":", "-", "52:54:00:aa:bb:cc"]
    for _ in range(n // 2):
        s = gen(a_mg, 5) if rng.random() < 0.7 else g_ignore_line(rng, {"fqdn": "web1.abc.com"})

        def mac_run(s=s):
            o = Mac()
            if s:
                o.parse_line(s)
            return items([m["original"] for m in o.mapping()])
        lines.append("mackeys\t" + enc(s))
        impl.append(guard(mac_run))
        cases.append(("mackeys", s))
    mac = guard(Mac)
    a_mac = ["52", "54", "00", "aa", "FF", "ff", "0", ":", ":", "-", " ", "x", "g", "52:54:00:aa:bb:cc", "00:00:00:00:00:00",
             "FF:ff:FF:ff:FF:ff", "AA-BB-CC-DD-EE-FF", u"\xe9", "_", "."]
    for _ in range(n):
        s = gen(a_mac, 14)
        lines.append("mac\t" + enc(s))
        impl.append(guard(lambda: ",".join(("!" if any(re.search(i, m[0], re.I) for i in mac._ignore_list) else "=") + enc(m[0])
                                           for m in re.findall(mac.pattern, s, re.I)) or "-"))
        cases.append(("mac", s))
    a_h = ["web1", ".abc.com", "abc", "com", ".", "-", "_", " ", "x", "X", ",", u"\xe9", "\n", "a.b", ".abc.community",
           "abcXcom", ":", "1", ".corp.example.org", "corp"]
    for _ in range(n):
        fq = rng.choice(["web1.abc.com", "db.corp.example.org", "n.x", "h.a-b.io"]) if rng.random() < 0.4 else g_fqdn(rng)
        if "." not in fq:
            fq += ".lan"
        dm = system_domain(fq)
        s = gen(a_h + ["." + dm, "." + dm, "db07." + dm, "a.b." + dm, dm], 10)
        def host_run(fq=fq, s=s):
            h = Hostname(fq)
            if s:
                h.parse_line(s)
            return items([m["original"] for m in h.mapping()][1:])     # first-discovery order, the system itself excluded
        lines.append("host\t%s\t%s" % (enc(dm), enc(s)))       # the domain: derived here, not read from the object
        impl.append(guard(host_run))
        cases.append(("host", fq, s))
    a_p = ["password", "password", "pass", "word", "_hash", "s", ":", "=", "==", " ", "  ", "\t", "\"", "--md5", "--md", "5",
           "55", "*", "********", "secret", "x", "!", "@", ".", ",", "\n", u"\xe9", "(", ")"]
    pw = guard(Password)
    for _ in range(2 * n):
        s = gen(a_p, 10) if rng.random() < 0.7 else g_password(rng) + gen(a_p, 3)
        lines.append("pw\t" + enc(s))
        impl.append(guard(lambda: enc(pw.parse_line(s))) if s else "-")
        cases.append(("pw", s))
    a_r = ["a", "b", "ab", "aa", "", " "]
    for _ in range(n):
        k, v, s = gen(a_r, 2), gen(a_r, 2), gen(a_r, 8)
        lines.append("repl\t%s\t%s\t%s" % (enc(k), enc(v), enc(s)))
        impl.append(enc(s.replace(k, v)))
        cases.append(("repl", k, v, s))
    a_x = ["err", "DROP", "web", "user", "x", "10", "1", "Ab1", " ", "\t", ":", "af:", "\n", "Z", "q"]
    conf = InsightsConfig(obfuscate=False)
    for _ in range(n):
        rx = g_rx(rng)
        s = gen(a_x, 8)
        lines.append("rx\t%s\t%s" % (rx_proto(rx), enc(s)))
        got = guard(lambda: Cleaner(conf, {"patterns": {"regex": [rx_text(rx)]}}, "h.example.org")
                    .clean_content(s, no_obfuscate=list(NAMES)) if s else s)
        cases.append(("rx", rx_text(rx), s))
        if isinstance(got, str) and got.startswith("raised:") and s:
            impl.append(got)
            chk.failure("pattern: the implementation %s on pattern %r (which compiles on its own) and line %r: the configured pattern is not applied"
                        % (got, rx_text(rx), s), {"op": "rx", "rx": rx, "line": s})
            continue
        hit = (got is None)
        impl.append("1" if hit else "0")
        if s and hit != rx_hit(rx, s):
            chk.failure("exclusion pattern %r on line %r: the line is %s" % (rx_text(rx), s, "dropped although it does not match" if hit else "kept although it matches"),
                        {"op": "rx", "rx": rx, "line": s})
    for i in range(DOMAIN_LIMIT):
        ch = chr(i)
        lines.append("cls\t%d" % i)
        impl.append(("1" if re.match(r"\w", ch) else "0") + ("1" if (re.match(r"\s", ch) and ch.strip() == "") else "0"))
        cases.append(("cls", i))
    model = run_driver("C08", lines)
    # the host stream compares sets in first-discovery order: de-duplicate the model's list, drop the system itself
    fixed = []
    for cse, m in zip(cases, model):
        if cse[0] in ("ipkeys", "mackeys") and m != "-":
            seen, outl = set(), []                # mapping() lists every original once, in the order of first substitution
            for it in m.split(","):
                if it not in seen:
                    seen.add(it)
                    outl.append(it)
            m = ",".join(outl)
        if cse[0] == "host" and m != "-":
            seen, outl = set(), []
            for it in m.split(","):
                if it not in seen and dec(it[1:]) != cse[1]:
                    seen.add(it)
                    outl.append(it)
            m = ",".join(outl) or "-"
        fixed.append(m)
    for name in ("ipv4", "ipkeys", "mac", "mackeys", "host", "pw", "repl", "rx", "cls"):
        idx = [i for i, c in enumerate(cases) if c[0] == name]
        chk.compare("recogniser:" + {"ipkeys": "ipv4-substituted-vs-ignored", "mackeys": "mac-substituted-vs-ignored"}.get(name, name), [cases[i] for i in idx], [impl[i] for i in idx], [fixed[i] for i in idx])
        for i in idx:
            chk.case(cases[i], nontrivial=impl[i] not in ("-", "0", "00"))


# --------------------------------------------------------------------------- run / replay

def classify(case, r):
    cfg, call = case["cfg"], case["call"]
    tags = ["route:" + call["route"], "obfuscate:%d" % cfg["obfuscate"]]
    if Oracle.host_active(cfg, set(call["no_obfuscate"] or [])):
        tags.append("hostname-on:fqdn-labels:%d" % min(cfg["fqdn"].count(".") + 1, 4))
        dom = system_domain(cfg["fqdn"])
        if dom and any(t != cfg["fqdn"] for l in case["lines"] for t in host_tokens(l, cfg["fqdn"])):
            tags.append("hostname-on:other-host-of-domain:labels:%d" % min(cfg["fqdn"].count(".") + 1, 4))
    if call["width"]:
        tags.append("width")
    if call["allowlist"] is not None:
        tags.append("allowlist")
    if call["no_redact"]:
        tags.append("no_redact")
    if call["no_obfuscate"]:
        tags.append("no_obfuscate:%d" % len(call["no_obfuscate"]))
    p = cfg.get("patterns")
    tags.append("patterns:" + ("none" if not p else "plain" if "plain" in p else "regex"))
    if p and "regex" in p and any("re" in q for q in p["regex"]):
        pats = pats_of(cfg)
        M = cleaner_mod.MAX_LINE_LENGTH
        tags.append("rxlist:len:%d" % len(pats))
        which = [[i for i, q in enumerate(pats) if pat_hit(q, l[:M])] if l[:M] else [] for l in case["lines"]]
        for i in range(len(pats)):
            if [i] in which:
                tags.append("rxlist:line-matched-only-by:pos%d" % i)
        tags.append("rxlist:lines-matched-by-none:%d" % min(sum(1 for w, l in zip(which, case["lines"]) if not w and l), 4))
        txt = " ".join(pat_text(q) for q in pats)
        for feat, mark in (("backref", "\\1"), ("named-group", "(?P<"), ("alternation", "|"), ("inline-flag", "(?i)"),
                           ("posix-class", "[[:"), ("anchor", "^"), ("quantifier", "{")):
            if mark in txt:
                tags.append("rxlist:feature:" + feat)
    tags.append("keywords:%d" % len(cfg["keywords"] or []))
    if any(k in META_NEAR for k in (cfg["keywords"] or [])):
        tags.append("keywords:with-regex-metacharacters")
        if any(ref_compile(k) is None for k in cfg["keywords"]):
            tags.append("keywords:not-a-valid-expression")
    if cfg.get("sys"):
        tags.append("system-name:determined-by-the-cleaner")
        for opt in ("display_name", "ansible_host"):
            if cfg["sys"].get(opt):
                tags.append("system-name:%s-configured" % opt)
    for t in ("ip", "host", "mac", "ipv6"):
        if r.tables[t]:
            tags.append("substituted:" + t)
    if r.out.startswith("err") or r.out.startswith("raised") or r.out == "empty":
        tags.append("result:" + r.out)
    return tags


def canon_model(case, m):
    """clean_file writes the cleaned lines one after the other: compare the file's text"""
    if case["call"]["route"] == "file" and m.startswith("ok"):
        f = m.split("\t")[1:]
        return "ok" if not f else "ok\t" + item("".join(dec(x[1:]) for x in f))
    return m


def run_cases(chk, cases, stream, prefix_replay=False):
    """prefix_replay: the cases of the stream share process-wide state of the implementation (component registries); the
    replay of a failure is then the stream up to and including the failing case, run in order in a fresh process"""
    scratch = tempfile.mkdtemp(prefix="c08-")
    try:
        runs_, lines = [], []
        done = {}
        for case in cases:
            g = case.get("interleaved")
            if g:
                if g["id"] not in done:
                    done[g["id"]] = run_group(g, scratch)
                r = done[g["id"]][g["k"]]
            else:
                r = run_impl(case, scratch)
            runs_.append(r)
            lines.append(proto_line(case, r))
    finally:
        shutil.rmtree(scratch, ignore_errors=True)
    model = run_driver("C08", lines)
    model = [canon_model(c, m) for c, m in zip(cases, model)]
    impl = [r.out for r in runs_]
    chk.compare(stream, cases, impl, model)
    for idx, (case, r, m) in enumerate(zip(cases, runs_, model)):
        sepr = "" if case["call"]["route"] == "file" else "\x00"
        changed = r.lines_out is None or sepr.join(r.lines_out) != sepr.join(case["lines"])
        chk.case(json.dumps(case, sort_keys=True), nontrivial=changed)
        for t in classify(case, r):
            chk.count(t)
        for clause, text, fid in Oracle(case, r).check():
            chk.count("oracle:" + clause + (":" + fid if fid else ""))
            payload = {"op": "prefix", "cases": cases[:idx + 1]} if prefix_replay else {"op": "clean", "case": case}
            chk.failure("%s: %s" % (clause, text), payload, finding=fid)
    return runs_, model


BAD_PATTERNS = ["(", "[a", "*x", "a(?i)b", "(?P<n>a)(?P<n>b)", "\\1", "(?P=zz)x", "x{2,1}", "(?<n>a)", "a)"]
GOOD_PATTERNS = ["DROP[[:digit:]]", "(ab|cd)\\1", "(?i)^warn"]
PROBE_LINE = "lorem ipsum 7"          # matched by no good pattern: every pattern of a list is evaluated on it


def behaviour(patterns, line=PROBE_LINE):
    """what the implementation does with this exclusion list on a line: raises / keeps / drops"""
    try:
        c = Cleaner(InsightsConfig(obfuscate=False), {"patterns": {"regex": list(patterns)}}, "h.example.org")
        got = c.clean_content(line, no_obfuscate=list(NAMES))
        return "dropped" if got is None else "kept"
    except Exception as e:
        return "raises:" + type(e).__name__


def uncompilable_stream(chk):
    """patterns that do not compile on their own: whatever the implementation does with one alone (raise / ignore),
    it must do the same when the pattern stands inside a list — before, between and after valid ones"""
    rec, n, bad = [], 0, 0
    for pat in BAD_PATTERNS:
        if ref_compile(pat) is not None:
            rec.append({"pattern": pat, "note": "compiles in this interpreter; not part of the stream"})
            continue
        alone = behaviour([pat])
        lists = [[GOOD_PATTERNS[0], pat], [pat, GOOD_PATTERNS[1]], [GOOD_PATTERNS[2], pat, GOOD_PATTERNS[0]],
                 [GOOD_PATTERNS[1], GOOD_PATTERNS[0], pat]]
        inside = [behaviour(l) for l in lists]
        rec.append({"pattern": pat, "alone": alone, "inside_lists": inside})
        for l, b in zip(lists, inside):
            n += 1
            chk.case(("rxbad", tuple(l)), nontrivial=True)
            chk.count("rx-uncompilable:" + alone)
            if b != alone:
                bad += 1
                chk.failure("uncompilable pattern %r: alone the implementation %s, inside the list %r it %s" % (pat, alone, l, b),
                            {"op": "rxbad", "pattern": pat, "list": l})
    chk.stream("rx:uncompilable-alone-vs-in-list", n, bad)
    chk.extra["uncompilable_patterns"] = rec


OUTSIDE_NOTATIONS = ["password='hunter2'", "Password=hunter2", "password={hunter2}", "PASSWORD: hunter2", "passwd=hunter2"]


def run(chk):
    quick = chk.tier == "quick"
    n_cases = 5000 if quick else 60000
    n_rec = 2500 if quick else 30000
    chk.rule = ("a case = Cleaner configuration (all combinations of obfuscate / hostname / mac / ipv6 switches, keyword list, "
                "plain or regular-expression exclusion list, system host name) x call (no_obfuscate subset, no_redact, allow list, "
                "width mode; entry point clean_content list / single string, clean_file, DatasourceProvider.write) x 1-6 lines "
                "built from addresses, MACs, host names, keywords, password notations, pattern words placed at line start/end, "
                "next to punctuation and non-ASCII letters, repeated, one a prefix of another, followed by ports, inside longer tokens; "
                "plus: declarations on a RegistryPoint (no_obfuscate absent / [] / subsets / all, no_redact absent / False / True, filterable with filters, "
                "sibling points) collected through dr.run and persisted, rm_conf shapes (blank / empty / duplicate patterns, mapping with empty or missing regex, None), "
                "11-102 keywords, groups of 2-3 live cleaners used out of building order; "
                "non-trivial = the cleaned content differs from the input")
    chk.assumptions = [
        "Python `re` on the patterns of cleaner/*.py: hand-written recognisers, validated per run against the live pattern strings (streams recogniser:*)",
        "character classes \\w, \\s exact below U+0250 (checked exhaustively per run); text beyond is refused by the driver and not generated",
        "substitute generation (address numbering, SHA-1 names) is a table parameter read from the obfuscators' mapping() (property C09)",
        "per-spec exemptions: in the model the exemption list is an argument of the call (theorems stages_depend_on_own_exemptions, exemption_is_per_call are "
        "true by construction), so that the implementation does not carry an exemption from one call to the next is decided by the correspondence over "
        "histories on ONE Cleaner (stream clean:history, each call against the model with ITS OWN exemptions), by the per-call oracle clauses, by the comparison "
        "with a fresh Cleaner brought to the same numbering, and by the check that a call leaves cleaner.obfuscate / cleaner.redact / any list or dict of the cleaner unchanged",
        "IPv6 recogniser is a parameter of the model (property does not claim IPv6); width-preserving IPv4 mode is tied by correspondence only",
        "regular-expression exclusion lists: theorem for an arbitrary matcher; the model evaluates the family ^? (class|literal)+? $? with POSIX bracket classes itself; "
        "for any other expression (groups, back-references, named groups, top-level alternation, inline flags, quantifiers) regex semantics is outside the model: "
        "the model receives, per pattern, the lines on which the expression COMPILED ON ITS OWN by the harness's reference (Python re + an independent POSIX table) matches — "
        "so the independence of the patterns of a list (a line goes iff some pattern taken by itself matches; both directions) is decided by the oracle and by the correspondence "
        "to this per-pattern reference (streams clean, clean:rxlist), not by a Lean theorem about regular expressions",
    ]
    chk.lean()
    recogniser_streams(chk, n_rec)

    # ---- corpus (witnesses of known findings, past failures)
    for name, data in load_corpus():
        case = data["case"]
        runs_, _ = run_cases(chk, [case], "clean")
        fails = Oracle(case, runs_[0]).check()
        fid = data.get("finding")
        chk.witnesses.append({"corpus": name, "finding": fid, "reproduces": bool(fails), "impl": runs_[0].out})
        if fid and any(f[2] == fid for f in fails):
            chk.finding_reproduced(fid)

    # ---- generated cases
    cases = []
    while len(cases) < n_cases:
        c = g_case(chk.rng)
        if in_domain(c):
            cases.append(c)
    B = 1500
    for i in range(0, len(cases), B):
        runs_, model = run_cases(chk, cases[i:i + B], "clean")
        if i == 0:
            for c, r in list(zip(cases, runs_))[:4]:
                chk.sample({"cfg": c["cfg"], "call": c["call"], "lines": c["lines"], "impl": r.out.split("\t")[0],
                            "cleaned": r.lines_out})

    # ---- histories: 2-6 calls with different exemption lists on ONE cleaner
    hs = []
    while len(hs) < (500 if quick else 8000):
        h = g_history(chk.rng)
        if all(in_domain(call_case(h, k)) for k in range(len(h["calls"]))):
            hs.append(h)
    hres = run_histories(chk, hs)
    chk.sample({"history": [{"no_obfuscate": c["no_obfuscate"], "lines": c["lines"]} for c in hs[0]["calls"]],
                "cleaned": [r.lines_out for r in hres[0]]})

    # ---- every spec kind carries its cleaner: factory -> provider under a HostContext with the cleaner in the broker -> write()
    sk = []
    for kind in SPEC_KINDS:
        while sum(1 for c in sk if c["call"]["route"] == "spec:" + kind) < (14 if quick else 250):
            c = g_case(chk.rng, width_ok=False)
            c["call"].update(route="spec:" + kind, allowlist=None, no_obfuscate=c["call"]["no_obfuscate"] or [])
            c["lines"] = [(l.replace("\n", " ").encode("ascii", "replace").decode("ascii") or "x") for l in c["lines"]]
            c["lines"] = [l if l.strip() else "x" + l for l in c["lines"]]
            c["markers"] = False
            if in_domain(c):
                sk.append(c)
    run_cases(chk, sk, "clean:spec-kinds")
    chk.extra["spec_kinds_driven"] = SPEC_KINDS + ["DatasourceProvider (route provider of the main stream)"]
    chk.extra["spec_kinds_not_driven"] = SPEC_NOT_DRIVEN

    # ---- declared on a RegistryPoint, collected with dr.run, persisted by the Hydration observer
    dc = []
    for kind in REG_KINDS:
        while sum(1 for c in dc if c["call"]["route"] == "spec:reg:" + kind) < (40 if quick else 600):
            c = g_declared_case(chk.rng, kind)
            if in_domain(c):
                dc.append(c)
    druns, _ = run_cases(chk, dc, "clean:declared", prefix_replay=True)
    chk.sample({"declared": dc[0]["decl"], "rm_conf": rm_conf_of(dc[0]["cfg"]), "lines": dc[0]["lines"], "written": druns[0].lines_out})
    chk.extra["declared_kinds_driven"] = REG_KINDS

    # ---- several live cleaners used in another order than they were built
    il = []
    for gid in range(150 if quick else 3000):
        il += g_interleaved(chk.rng, gid)
    run_cases(chk, il, "clean:interleaved")

    # ---- long lines below the limit, tokens straddling multiples of 1024 … 65536
    if quick:
        long_line_stream(chk, 12, [4200, 8300, 17000, 66000])
    else:
        long_line_stream(chk, 160, [4200, 8300, 17000, 33000, 66000, 132000, 300000])

    # ---- exclusion lists of several independent regular expressions, no other stage running
    rl = []
    while len(rl) < (1500 if quick else 20000):
        c = g_rxlist_case(chk.rng)
        if in_domain(c):
            rl.append(c)
    run_cases(chk, rl, "clean:rxlist")
    chk.sample({"patterns": [pat_text(q) for q in pats_of(rl[0]["cfg"])], "lines": rl[0]["lines"]})
    uncompilable_stream(chk)

    # ---- truncation: MAX_LINE_LENGTH lowered for a few cases (module constant read at call time)
    saved = cleaner_mod.MAX_LINE_LENGTH
    try:
        tc = []
        while len(tc) < (200 if quick else 2000):
            c = g_case(chk.rng)
            if in_domain(c) and c["call"]["route"] in ("content", "single"):
                tc.append(c)
        cleaner_mod.MAX_LINE_LENGTH = chk.rng.choice([5, 12, 20])
        run_cases(chk, tc, "clean:truncated")
    finally:
        cleaner_mod.MAX_LINE_LENGTH = saved

    # ---- notations outside the accepted list: reported, not alarmed on
    chk.extra["password_notations_outside_accepted"] = [
        {"line": l, "cleaned": c, "masked": "hunter2" not in c}
        for l, c in ((l, str(guard(lambda: Password().parse_line(l)))) for l in OUTSIDE_NOTATIONS)]


def replay_one(case):
    """re-run one cleaning case: 1 if the oracle fails or model and implementation differ"""
    scratch = tempfile.mkdtemp(prefix="c08-")
    try:
        r = run_any(case, scratch)
    finally:
        shutil.rmtree(scratch, ignore_errors=True)
    print("impl :", r.out.split("\t")[0], r.lines_out)
    differs = False
    try:
        m = canon_model(case, run_driver("C08", [proto_line(case, r)])[0])
        f = m.split("\t")
        differs = m != r.out
        print("model:", f[0], [dec(x[1:]) if x.startswith("=") else x for x in f[1:]], "  <-- differs" if differs else "")
    except Exception as e:
        print("model: driver failed", e)
    fails = Oracle(case, r).check()
    for clause, text, fid in fails:
        print("ORACLE %s: %s%s" % (clause, text, "  [known finding %s]" % fid if fid else ""))
    return bool(fails), differs


REC_OPS = {"ipv4": 1, "ipkeys": 1, "mac": 1, "mackeys": 1, "host": 2, "pw": 1, "repl": 3, "rx": 2, "cls": 1}


def replay_recogniser(c):
    """one case of a recogniser stream: (name, args...) — implementation against model"""
    name = c[0]

    def impl_side():
        if name in ("ipkeys", "mackeys"):
            o = IPv4() if name == "ipkeys" else Mac()
            if c[1]:
                o.parse_line(c[1])
            return items([m["original"] for m in o.mapping()])
        if name == "ipv4":
            return items([m[0] for m in re.findall(IPv4().pattern, c[1])])
        if name == "mac":
            mac = Mac()
            f = re.findall(mac.pattern, c[1], re.I)
            return ",".join(("!" if any(re.search(i, m[0], re.I) for i in mac._ignore_list) else "=") + enc(m[0]) for m in f) or "-"
        if name == "host":
            h = Hostname(c[1])
            if c[2]:
                h.parse_line(c[2])
            return items(sorted(set(m["original"] for m in h.mapping()) - {c[1]}))
        if name == "pw":
            return enc(Password().parse_line(c[1])) if c[1] else "-"
        return enc(c[3].replace(c[1], c[2]))
    if name in ("ipkeys", "mackeys"):
        line = name + "\t" + enc(c[1])
    elif name == "ipv4":
        line = "ipv4\t" + enc(c[1])
    elif name == "mac":
        line = "mac\t" + enc(c[1])
    elif name == "host":
        line = "host\t%s\t%s" % (enc(system_domain(c[1]) or ""), enc(c[2]))
    elif name == "pw":
        line = "pw\t" + enc(c[1])
    elif name == "repl":
        line = "repl\t%s\t%s\t%s" % (enc(c[1]), enc(c[2]), enc(c[3]))
    else:
        print("no single-case replay for stream", name)
        return False
    impl = guard(impl_side)
    m = run_driver("C08", [line])[0]
    if name in ("ipkeys", "mackeys") and m != "-":
        m = ",".join(dict.fromkeys(m.split(",")))
    if name == "host":
        m = items(sorted(set(dec(x[1:]) for x in m.split(",") if x != "-") - {c[1]}))
    print("%s %r\n  impl : %s\n  model: %s%s" % (name, c[1:], impl, m, "" if impl == m else "   <-- differs"))
    return impl != m


def replay(data):
    if data.get("kind") == "broken-tie":
        # no failing input was found: re-run the first disagreeing case of every broken stream
        bad = False
        for b in data.get("broken", []):
            print("broken:", b["what"], "-", b["detail"][:300])
            first = b.get("case") or {}
            c = first.get("case") if isinstance(first, dict) else None
            if isinstance(c, dict) and "cfg" in c:
                print("replaying", json.dumps(c, ensure_ascii=False)[:3000])
                f, d = replay_one(c)
                bad = bad or f or d
            elif isinstance(c, list) and c and c[0] in REC_OPS:
                bad = replay_recogniser(c) or bad
            else:
                bad = True      # a proof obligation does not check: nothing to re-run
        print("the tie is still broken (no input on which the property itself fails was found)" if bad else "the tie checks again on the recorded case")
        return 1 if bad else 0
    c = data["case"]
    print("replaying", json.dumps(c, ensure_ascii=False)[:3000])
    if c.get("op") == "history":
        hist = c["history"]
        res = run_history(hist)
        model = run_driver("C08", [proto_line(call_case(hist, k), r) for k, r in enumerate(res)])
        for k, (r, m) in enumerate(zip(res, model)):
            print("call %d no_obfuscate=%r no_redact=%r" % (k, hist["calls"][k]["no_obfuscate"], hist["calls"][k]["no_redact"]))
            print("  lines:", hist["calls"][k]["lines"])
            print("  impl :", r.out.split("\t")[0], r.lines_out, "" if r.out == m else "  <-- differs from the model")
            if r.fresh is not None and r.fresh != r.out:
                print("  fresh cleaner, same call:", [dec(x[1:]) if x.startswith("=") else x for x in r.fresh.split("\t")])
        fails = history_fails(hist, res)
        for k, clause, text, fid in fails:
            print("ORACLE %s: %s%s" % (clause, text[:1500], "  [known finding %s]" % fid if fid else ""))
        bad = bool(fails)
    elif c.get("op") == "prefix":
        # the stream up to the failing case, in order, in this fresh process; the verdict is that of the LAST case
        scratch = tempfile.mkdtemp(prefix="c08-")
        try:
            rs = [run_any(x, scratch) for x in c["cases"]]
        finally:
            shutil.rmtree(scratch, ignore_errors=True)
        last, r = c["cases"][-1], rs[-1]
        print("after %d earlier cases of the stream: declaration %r siblings %r" % (len(rs) - 1, last.get("decl"), [(sb["no_obfuscate"], sb["no_redact"]) for sb in last.get("siblings") or []]))
        print("lines:", last["lines"])
        print("impl :", r.out.split("\t")[0], r.lines_out)
        fails = Oracle(last, r).check()
        for clause, text, fid in fails:
            print("ORACLE %s: %s%s" % (clause, text[:1500], "  [known finding %s]" % fid if fid else ""))
        bad = bool(fails)
    elif c.get("op") == "rxbad":
        alone, inside = behaviour([c["pattern"]]), behaviour(c["list"])
        print("pattern %r alone: %s; inside %r: %s" % (c["pattern"], alone, c["list"], inside))
        bad = alone != inside
    elif c.get("op") == "rx":
        rx, s = c["rx"], c["line"]
        got = guard(lambda: Cleaner(InsightsConfig(obfuscate=False), {"patterns": {"regex": [rx_text(rx)]}}, "h.example.org")
                    .clean_content(s, no_obfuscate=list(NAMES)))
        want = rx_hit(rx, s)
        raised = isinstance(got, str) and got.startswith("raised:")
        print("pattern %r line %r: implementation %s, the pattern %s" % (rx_text(rx), s, got if raised else "drops" if got is None else "keeps",
                                                                       "matches" if want else "does not match"))
        bad = raised or (got is None) != want
    else:
        bad, _ = replay_one(c["case"] if "case" in c else c)
    print("property violated on this input" if bad else "property holds on this input")
    return 1 if bad else 0
