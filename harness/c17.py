"""
C17 — client identity and registration markers stay coherent over any history.

Tie: generated histories of generate_machine_id(new=False/True), write_registered_file,
write_unregistered_file, delete_registered_file, delete_unregistered_file are executed in-process on
a scratch directory (constants.machine_id_file / registered_files / unregistered_files pointed into
it and restored afterwards; uuid.uuid4 and the subscription identity replaced by deterministic
inputs).  After EVERY operation the returned value and the whole file-system state (kind, content,
symlink target of the five locations and of the outside symlink targets) are compared with
IV.ClientState.step (Drivers/C17.lean).
A second stream ("entry points") runs in a child interpreter started with INSIGHTS_CONF_DIR pointing into the
scratch tree (so the import-time default argument of generate_machine_id / machine_id_exists is the scratch
path) and interleaves reads through EVERY read path (generate_machine_id(), client.get_machine_id(),
InsightsClient.get_machine_id(), InsightsConnection.create_system(False), the legacy unregister, the inventory
look-up) with regenerations / deletions through EVERY write path (generate_machine_id(new=True),
create_system(new_machine_id=True), InsightsConnection.unregister(), client.handle_unregistration(),
support.registration_check()); only the HTTP session is faked.
Oracle (independent of the model, on the raw os-level observations): see `Oracle`.
"""
import errno
import glob
import json
import logging
import os
import re
import shutil
import subprocess
import sys
import tempfile
import uuid

from harness.common import VERIF, enc, dec, run_driver

from insights.client import utilities, cert_auth
from insights.client.constants import InsightsConstants as constants

N_EXT = 4
LOCS = ["id", "reg0", "unreg0", "reg1", "unreg1"]
MARKER_OPS = ("reg", "unreg", "delreg", "delunreg")
ID_OPS = ("read", "new", "fetch")
EP_READERS = ["default", "clientfn", "clientobj", "create", "legacyunreg"]
EP_REGENS = ["default", "create"]
CANON_RE = re.compile(r"^[0-9a-f]{8}-[0-9a-f]{4}-4[0-9a-f]{3}-[89ab][0-9a-f]{3}-[0-9a-f]{12}$")
TIME_RE = re.compile(r"^\d{4}-\d\d-\d\dT\d\d:\d\d:\d\d(\.\d+)?$")
FINDING = "absent-config-dir"
FAULT_ERRNOS = ("EPERM", "EACCES", "EROFS", "EBUSY", "EIO")


# --------------------------------------------------------------------------- scratch file system

class Sandbox(object):
    """one scratch tree: d0 = default_conf_dir, d1 = simple_find_replace_dir, ext = symlink targets"""

    def __init__(self, root, init):
        self.root = root
        self.init = init
        self.dirs = [os.path.join(root, "d0"), os.path.join(root, "d1")]
        self.extdir = os.path.join(root, "ext")
        self.path = {
            "id": os.path.join(self.dirs[0], "machine-id"),
            "reg0": os.path.join(self.dirs[0], ".registered"),
            "unreg0": os.path.join(self.dirs[0], ".unregistered"),
            "reg1": os.path.join(self.dirs[1], ".registered"),
            "unreg1": os.path.join(self.dirs[1], ".unregistered"),
        }
        self.ext = [os.path.join(self.extdir, "t%d" % k) for k in range(N_EXT)]
        os.makedirs(self.extdir)
        for i in (0, 1):
            if init["has"][i]:
                os.mkdir(self.dirs[i])
        for k, n in enumerate(init["ext"]):
            self._make(self.ext[k], n)
        for name, n in zip(LOCS, init["nodes"]):
            if init["has"][0 if name in ("id", "reg0", "unreg0") else 1]:
                self._make(self.path[name], n)

    def _make(self, p, n):
        if n[0] == "F":
            with open(p, "wb") as f:
                f.write(n[1].encode("utf-8"))
        elif n[0] == "D":
            os.mkdir(p)
        elif n[0] == "L":
            os.symlink(self.ext[n[1]], p)

    def raw(self):
        """os-level observation of every path: (kind, payload)"""
        out = {}
        for name in LOCS:
            out[name] = self._stat(self.path[name])
        for k in range(N_EXT):
            out["ext%d" % k] = self._stat(self.ext[k])
        return out

    def _stat(self, p):
        if not os.path.lexists(p):
            return ("A", None)
        if os.path.islink(p):
            return ("L", os.readlink(p))
        if os.path.isdir(p):
            return ("D", None)
        with open(p, "rb") as f:
            return ("F", f.read())

    def id_bytes(self):
        """bytes of the identifier file as a reader sees it (symlink followed); None = no regular file"""
        p = self.path["id"]
        if os.path.isfile(p):
            with open(p, "rb") as f:
                return f.read()
        return None

    def canonical(self, raw):
        """the model's state line: time stamps in marker files become the token <time>"""
        out = []
        for name in LOCS + ["ext%d" % k for k in range(N_EXT)]:
            kind, pay = raw[name]
            if kind == "F":
                s = pay.decode("utf-8", "surrogateescape")
                if name != "id" and not name.startswith("ext") and TIME_RE.match(s):
                    s = "<time>"
                out.append("F" + enc(s))
            elif kind == "L":
                out.append("L%d" % self.ext.index(pay) if pay in self.ext else "L?" + pay)
            else:
                out.append(kind)
        return " ".join(out)


class FakeCert(object):
    """stands in for cert_auth.rhsmCertificate: the subscription identity is an input of the history"""
    PATH = "/scratch/pki/consumer/"
    CERT = "cert.pem"
    current = None

    @classmethod
    def read(cls):
        if cls.current is None:
            raise IOError(2, "no consumer certificate")
        return cls()

    def getConsumerId(self):
        return FakeCert.current


class Patched(object):
    """point the constants into the sandbox, make uuid4 / subscription identity deterministic; restore on exit"""

    def __init__(self):
        self.fresh = []

    def __enter__(self):
        self.saved = (constants.machine_id_file, constants.registered_files, constants.unregistered_files,
                      uuid.uuid4, cert_auth.RHSM_CONFIG, cert_auth.rhsmCertificate, logging.root.manager.disable)
        self.saved_os = (os.remove, os.unlink, os.getuid, os.geteuid)
        self.fault = None
        uuid.uuid4 = self._uuid4
        cert_auth.rhsmCertificate = FakeCert
        logging.disable(logging.CRITICAL)
        return self

    def __exit__(self, *a):
        (constants.machine_id_file, constants.registered_files, constants.unregistered_files,
         uuid.uuid4, cert_auth.RHSM_CONFIG, cert_auth.rhsmCertificate, lvl) = self.saved
        (os.remove, os.unlink, os.getuid, os.geteuid) = self.saved_os
        logging.disable(lvl)
        FakeCert.current = None

    def _uuid4(self):
        # first call of an operation = the history's fresh id; further calls (none in the code as it is) get successors
        u = self.fresh[0]
        self.fresh = self.fresh[1:] + [uuid.UUID(int=(self.fresh[-1].int + 1) % (1 << 128), version=4)]
        return u

    def fresh_root(self, scratch, n):
        root = os.path.join(scratch, "h%s" % n)
        os.mkdir(root)
        return root

    def point(self, sb):
        constants.machine_id_file = sb.path["id"]
        constants.registered_files = [sb.path["reg0"], sb.path["reg1"]]
        constants.unregistered_files = [sb.path["unreg0"], sb.path["unreg1"]]

    # -- fault injection (Env.denied of the model): the unlink that write_to_disk(delete=True) issues for a listed
    #    location fails with the history's errno (anything but ENOENT) under the history's uid; `raced` locations are
    #    really removed and THEN report ENOENT (somebody else was faster), which the code must treat as a success
    def arm_fault(self, sb):
        init = sb.init
        den = dict((sb.path[n], n) for n in init.get("denied", []))
        raced = dict((sb.path[n], n) for n in init.get("raced", []))
        if not den and not raced:
            self.fault = None
            return
        self.fault = {"den": den, "raced": raced, "errno": getattr(errno, init.get("errno", "EPERM")),
                      "uid": int(init.get("uid", 0)), "hits": []}

    def _faulty_remove(self, real):
        def remove(path, *a, **kw):
            ft = self.fault
            if ft is not None and isinstance(path, str):
                caller = sys._getframe(1).f_code.co_name
                if caller == "write_to_disk" and os.path.lexists(path) and (os.path.islink(path) or not os.path.isdir(path)):
                    if path in ft["den"]:
                        ft["hits"].append(ft["den"][path])
                        raise OSError(ft["errno"], os.strerror(ft["errno"]), path)
                    if path in ft["raced"]:
                        real(path, *a, **kw)
                        raise OSError(errno.ENOENT, os.strerror(errno.ENOENT), path)
            return real(path, *a, **kw)
        return remove

    def with_fault(self, fn):
        if self.fault is None:
            return fn()
        real_remove, real_unlink, gu, geu = self.saved_os
        uid = self.fault["uid"]
        os.remove, os.unlink = self._faulty_remove(real_remove), self._faulty_remove(real_unlink)
        os.getuid = os.geteuid = lambda: uid
        try:
            return fn()
        finally:
            os.remove, os.unlink, os.getuid, os.geteuid = real_remove, real_unlink, gu, geu

    def set_inputs(self, rhsm, fresh):
        self.fresh = [uuid.UUID(fresh)]
        FakeCert.current = rhsm
        # RHSM modules "not installed" and "no certificate" both mean: no subscription identity
        cert_auth.RHSM_CONFIG = None if (rhsm is None and fresh[0] in "01234567") else object()

    def run_op(self, sb, op):
        return self.with_fault(lambda: self._run_op(sb, op))

    def _run_op(self, sb, op):
        kind = op[0]
        try:
            if kind in ("read", "new"):
                self.set_inputs(op[2], op[3])
                r = self.identifier(kind == "new", op[1])
                return "id:" + enc(r if isinstance(r, str) else repr(r))
            if kind == "reg":
                utilities.write_registered_file()
            elif kind == "unreg":
                if op[1] is None:
                    utilities.write_unregistered_file()
                else:
                    utilities.write_unregistered_file(date=op[1])
            elif kind == "delreg":
                utilities.delete_registered_file()
            elif kind == "delunreg":
                utilities.delete_unregistered_file()
            else:
                return self.entry_point(op)
            return "ok"
        except SystemExit:
            return "invalid"
        except OSError:
            return "oserror"
        except Exception as e:  # anything else is not in the model: shows up as a correspondence break
            return "exc:" + type(e).__name__

    def identifier(self, new, path):
        if path != "explicit":
            raise AssertionError("entry point %r needs the child interpreter" % path)
        return utilities.generate_machine_id(new=new, destination_file=constants.machine_id_file)

    def entry_point(self, op):
        raise AssertionError(op[0])


# --------------------------------------------------------------------------- every entry point (child interpreter)

class FakeResponse(object):
    def __init__(self, code, body):
        self.status_code, self.reason, self.text, self.content = code, "faked", body, body.encode("utf-8")
        self.headers = {}

    def json(self):
        return json.loads(self.text)


class FakeSession(object):
    """the network: every request is answered locally; `mode` = what the inventory says about this host"""

    def __init__(self):
        self.calls = []
        self.mode = True
        self.del_ok = True          # does DELETE /v1/systems/<id> go through
        self.legacy = "R"           # answer of the legacy API GET /v1/systems/<id>: R | U | N | D:<date>
        self.variant = 0
        self.headers = {}

    def request(self, url=None, method=None, **kw):
        self.calls.append((method, url, kw.get("data")))
        if method == "DELETE" and not self.del_ok:
            import requests
            raise requests.ConnectionError("unreachable (faked)")
        if method == "GET" and "/v1/systems/" in url:
            a, v = self.legacy, self.variant
            if a == "R":
                return FakeResponse(200, '{"unregistered_at": null, "account_number": "540155"}')
            if a == "N":
                return FakeResponse(404, "{}") if v % 2 else FakeResponse(200, '{"account_number": "540155"}')
            if a.startswith("D:"):
                return FakeResponse(200, json.dumps({"unregistered_at": a[2:], "account_number": "540155"}))
            if v % 3 == 0:
                import requests
                raise requests.ConnectionError("unreachable (faked)")
            return FakeResponse(500, "{}") if v % 3 == 1 else FakeResponse(200, "<html>not json</html>")
        if method == "GET" and "host_exists" in url:
            if self.mode is None:
                import requests
                raise requests.ConnectionError("unreachable (faked)")
            if self.mode is False:
                return FakeResponse(404, '{"detail": "not found"}')
            return FakeResponse(200, '{"id": "inventory-id"}')
        return FakeResponse(200, "{}")


class PatchedEP(Patched):
    """
    Child interpreter started with INSIGHTS_CONF_DIR=<root>/d0: the real entry points run against the scratch tree
    with their import-time default paths.  Patched besides uuid4 / subscription identity: the legacy directory's
    marker paths, pid/lib paths (into <root>-aux), determine_hostname (DNS) and the HTTP session.
    """

    def __init__(self, root):
        Patched.__init__(self)
        self.root = root
        self.aux = root + "-aux"

    def __enter__(self):
        Patched.__enter__(self)
        from insights.client import InsightsClient, client, connection, support
        from insights.client.config import InsightsConfig
        self.client, self.connection, self.support = client, connection, support
        os.makedirs(os.path.join(self.aux, "lib"), exist_ok=True)
        constants.pidfile = os.path.join(self.aux, "pid")
        constants.ppidfile = os.path.join(self.aux, "ppid")
        constants.insights_core_lib_dir = os.path.join(self.aux, "lib")
        self.sess = FakeSession()
        sess = self.sess
        connection.InsightsConnection._init_session = lambda conn: sess
        connection.determine_hostname = lambda *a, **k: "host.example.test"
        self.cfg = InsightsConfig(legacy_upload=False)
        self.cfg.branch_info = {"remote_branch": -1, "remote_leaf": -1}
        self.ic = InsightsClient(self.cfg, from_phase=False)
        self.conn = connection.InsightsConnection(self.cfg)
        self.conn.test_connection = lambda *a, **k: None          # the diagnosis after a ConnectionError: not part of the state
        self.ic.connection = self.conn
        self.last_ret = None
        return self

    def fresh_root(self, scratch, n):
        shutil.rmtree(self.root, ignore_errors=True)
        os.mkdir(self.root)
        return self.root

    def point(self, sb):
        want = (sb.path["id"], sb.path["reg0"], sb.path["unreg0"])
        have = (constants.machine_id_file, constants.registered_files[0], constants.unregistered_files[0])
        dflt = (utilities.generate_machine_id.__defaults__[-1], utilities.machine_id_exists.__defaults__[-1])
        if want != have or dflt != (sb.path["id"], sb.path["id"]):
            raise AssertionError("INSIGHTS_CONF_DIR did not take effect: %r %r %r" % (want, have, dflt))
        constants.registered_files = [sb.path["reg0"], sb.path["reg1"]]
        constants.unregistered_files = [sb.path["unreg0"], sb.path["unreg1"]]

    def identifier(self, new, path):
        if path == "explicit":
            return utilities.generate_machine_id(new=new, destination_file=constants.machine_id_file)
        if path == "default":
            return utilities.generate_machine_id(new=True) if new else utilities.generate_machine_id()
        if path == "clientfn":
            return self.client.get_machine_id()
        if path == "clientobj":
            return self.ic.get_machine_id()
        self.sess.calls = []
        if path == "create":
            self.conn.create_system(new_machine_id=new)
            method, url, data = self.sess.calls[-1]
            return json.loads(data)["machine_id"]
        if path == "legacyunreg":
            self.sess.del_ok = True
            self.cfg.legacy_upload = True
            try:
                self.conn.unregister()
            finally:
                self.cfg.legacy_upload = False
            method, url, data = self.sess.calls[-1]
            return url.rsplit("/", 1)[1]
        raise AssertionError(path)

    def entry_point(self, op):
        kind = op[0]
        self.sess.calls = []
        self.sess.mode = True
        if kind == "fetch":
            self.set_inputs(op[1], op[2])
            self.conn.api_registration_check()
            if self.sess.calls:
                return "id:" + enc(self.sess.calls[-1][1].rsplit("insights_id=", 1)[1])
        elif kind == "connunreg":
            self.conn.unregister()
        elif kind == "handleunreg":
            self.cfg.force = bool(op[1])
            if via(op, 2) == "clientobj":
                self.ic.unregister()                                # InsightsClient.unregister → client.handle_unregistration
            else:
                self.client.handle_unregistration(self.cfg, self.conn)
        elif kind == "regcheck":
            self.set_inputs(op[2], op[3])
            self.sess.mode = op[1]
            self.status_check(via(op, 4))
        elif kind == "rc412":
            # the server says "unregistered at <date>": handle_fail_rcs writes the record itself (and swallows every error)
            body = {"unregistered_at": op[1], "message": "gone"}
            r = self.conn.handle_fail_rcs(FakeResponse(412, json.dumps(body)))
            if r is not True:
                return "ret:" + enc(repr(r))
        elif kind in ("lregcheck", "lhandlereg", "lhandleunreg"):
            self.set_inputs(op[-2], op[-1])
            self.sess.legacy = op[1]
            self.sess.variant = int(op[-1][-1], 16)
            self.cfg.legacy_upload = True
            try:
                if kind == "lregcheck":
                    self.status_check(["support", "clientfn", "clientobj"][self.sess.variant % 3])
                elif kind == "lhandleunreg":
                    self.cfg.force, self.sess.del_ok = bool(op[2]), bool(op[3])
                    # InsightsClient.unregister → client.handle_unregistration → _legacy_handle_unregistration
                    r = self.ic.unregister() if self.sess.variant % 2 else self.client.handle_unregistration(self.cfg, self.conn)
                    if r not in (True, False, None):
                        return "ret:" + enc(repr(r))
                else:
                    self.cfg.register = bool(op[2])
                    # InsightsClient.register → client.handle_registration → _legacy_handle_registration
                    self.last_ret = (self.ic.register() if self.sess.variant % 2 else
                                     self.client.handle_registration(self.cfg, self.conn))
                    if self.last_ret not in (True, False, None):
                        return "ret:" + enc(repr(self.last_ret))
            finally:
                self.cfg.legacy_upload = False
                self.cfg.register = False
                self.cfg.force = False
                self.sess.del_ok = True
        else:
            raise AssertionError(kind)
        return "ok"


def via(op, i):
    return op[i] if len(op) > i else "support"


def _status_check(self, how):
    if how == "clientfn":
        return self.client.get_registration_status(self.cfg, self.conn)
    if how == "clientobj":
        return self.ic.get_registration_status()                # InsightsClient.get_registration_status
    return self.support.registration_check(self.conn)


PatchedEP.status_check = _status_check


def needs_child(case):
    return any(op[0] in ("fetch", "connunreg", "handleunreg", "regcheck", "lregcheck", "lhandlereg", "lhandleunreg", "rc412") or
               (op[0] in ("read", "new") and op[1] != "explicit") for op in case["ops"])


def run_child(cases, do_shrink=False):
    """run histories in a fresh interpreter whose INSIGHTS_CONF_DIR is the scratch tree; returns [{out, fails, small}]"""
    from harness.common import REPO
    top = tempfile.mkdtemp(prefix="c17ep-")
    try:
        root = os.path.join(top, "conf")
        env = dict(os.environ)
        env.update({"INSIGHTS_CONF_DIR": os.path.join(root, "d0"), "C17_ROOT": root,
                    "PYTHONPATH": REPO + os.pathsep + VERIF, "PYTHONDONTWRITEBYTECODE": "1"})
        p = subprocess.run([sys.executable, "-B", "-m", "harness.c17"], cwd=VERIF, env=env,
                           input=json.dumps({"cases": cases, "shrink": do_shrink}).encode("utf-8"),
                           stdout=subprocess.PIPE, stderr=subprocess.PIPE, timeout=3000)
        for line in p.stdout.decode("utf-8", "replace").split("\n"):
            if line.startswith("C17-CHILD-RESULT "):
                return json.loads(line[len("C17-CHILD-RESULT "):])
        raise RuntimeError("entry-point child failed (rc=%s): %s" % (p.returncode, p.stderr.decode("utf-8", "replace")[-3000:]))
    finally:
        shutil.rmtree(top, ignore_errors=True)


def forked(fn):
    """run fn() in a fork of this (already imported, already patched) interpreter and return its JSON-able result:
    every history starts from the module state a fresh process has, so every reported failure replays on its own"""
    r, w = os.pipe()
    pid = os.fork()
    if pid == 0:
        code = 0
        try:
            os.close(r)
            with os.fdopen(w, "w") as f:
                json.dump(fn(), f)
        except BaseException:
            import traceback
            traceback.print_exc()
            code = 3
        os._exit(code)
    os.close(w)
    with os.fdopen(r) as f:
        data = f.read()
    _, status = os.waitpid(pid, 0)
    if status != 0 or not data:
        raise RuntimeError("forked history failed (status %s)" % status)
    return json.loads(data)


def child_main():
    data = json.load(sys.stdin)
    res = []
    budget = [5 if data.get("shrink") else 0]        # histories worth shrinking: only the first few get a replay file
    with PatchedEP(os.environ["C17_ROOT"]) as pt:
        def one(case):
            def go():
                out, orc = run_history(pt, None, 0, case)
                return {"out": out, "fails": orc.fails, "known": [orc.is_known(c) for c, _, _ in orc.fails]}
            return forked(go)
        for case in data["cases"]:
            r = one(case)
            small = {}
            unlisted = [(c, i) for (c, _, i), k in zip(r["fails"], r["known"]) if not k]
            if unlisted and budget[0] > 0:
                budget[0] -= 1
                for clause, i in unlisted:
                    if clause not in small:
                        small[clause] = shrink_with(lambda c, cl=clause: any(f[0] == cl for f in one(c)["fails"]), case, i)
            res.append({"out": r["out"], "fails": r["fails"], "small": small})
        shutil.rmtree(pt.root, ignore_errors=True)
        shutil.rmtree(pt.aux, ignore_errors=True)
    sys.stdout.write("C17-CHILD-RESULT " + json.dumps(res) + "\n")
    sys.stdout.flush()


# --------------------------------------------------------------------------- oracle

class Oracle(object):
    """
    The property, stated on os-level observations of one history:
      O1 every returned identifier is canonical 8-4-4-4-12 lower-case hex, version digit 4, variant 8..b
      O2 a read returns the identifier the previous identifier operation returned unless a regeneration
         (new=True) was requested in between
      O3 a read leaves a non-empty identifier file byte-identical
      O4 once a register/unregister has returned, no configuration directory holds both markers
      O5 marker operations never follow a symlink: a symlink at the written marker location is replaced by
         a regular file, and neither the identifier file nor any outside symlink target is created/modified;
         identifier operations touch no marker and no target other than the identifier file's own
    """

    def __init__(self, init):
        self.init = init
        self.established = None
        self.armed = False
        self.fails = []     # (clause, text, op index)

    def step(self, i, op, res, pre, post, idb_pre, idb_post, ret=None):
        kind = op[0]
        rid = None
        legacy_keep = kind in ("lregcheck", "lhandlereg") and op[1] in ("R", "U")
        if res.startswith("id:"):
            rid = dec(res[3:])
            if not CANON_RE.match(rid):
                self.fails.append(("O1", "returned identifier %r is not canonical" % rid, i))
            # O6: whoever hands out an identifier hands out the one the file holds
            if self.init["has"][0]:
                try:
                    want = str(uuid.UUID((idb_post or b"").decode("utf-8").strip(), version=4))
                except ValueError:
                    want = None
                if want != rid:
                    self.fails.append(("O6", "%s returned %s but the identifier file holds %r" % (describe(op), rid, idb_post), i))
        # explicit requests for a new identifier: forced regeneration, or an unregistration that deletes the file
        if kind == "new":
            self.established = rid
        elif kind in ("connunreg", "handleunreg") or (kind == "regcheck" and op[1] is False) or \
                (kind in ("lregcheck", "lhandlereg") and not legacy_keep) or kind == "lhandleunreg":
            self.established = None
        elif kind in ("read", "fetch"):
            if rid is not None:
                if self.established is not None and rid != self.established:
                    self.fails.append(("O2", "%s returned %s, the previous identifier operation returned %s and no regeneration was "
                                       "requested in between" % (describe(op), rid, self.established), i))
                self.established = rid
            if idb_pre and idb_post != idb_pre:
                self.fails.append(("O3", "a read changed the identifier file from %r to %r" % (idb_pre, idb_post), i))
            if idb_pre and pre["id"] != post["id"] and pre["id"][0] == "L":
                self.fails.append(("O3", "a read replaced the identifier symlink", i))
        elif (kind == "regcheck" or legacy_keep) and idb_pre and idb_post != idb_pre:
            self.fails.append(("O3", "a registration check that was not told 'unregistered' changed the identifier file from %r to %r"
                               % (idb_pre, idb_post), i))
        if kind in ("reg", "unreg") and res == "ok":
            self.armed = True
        if kind == "lregcheck" and res == "ok" and op[1] != "U":
            self.armed = True       # a legacy status check that got an answer and returned has resynchronised the markers
        if kind == "lhandlereg" and ret is True and self.init["has"][0]:
            # O7: "registered" is reported only with the registration record in place
            if post["reg0"][0] == "A" or post["unreg0"][0] != "A":
                self.fails.append(("O7", "the legacy registration returned True (registered) but the markers of the configuration "
                                   "directory are .registered=%s .unregistered=%s" % (post["reg0"][0], post["unreg0"][0]), i))
        if self.armed:
            for d in ("0", "1"):
                if post["reg" + d][0] != "A" and post["unreg" + d][0] != "A":
                    self.fails.append(("O4", "both markers present in directory d%s after %s" % (d, kind), i))
        own = pre["id"][1] if pre["id"][0] == "L" else None
        if kind == "rc412":
            for name in ["id"] + ["ext%d" % k for k in range(N_EXT)]:
                if pre[name] != post[name]:
                    self.fails.append(("O5", "%s touched %s: %r -> %r" % (kind, name, pre[name], post[name]), i))
        elif kind in MARKER_OPS:
            for name in ["id"] + ["ext%d" % k for k in range(N_EXT)]:
                if pre[name] != post[name]:
                    self.fails.append(("O5", "%s touched %s: %r -> %r" % (kind, name, pre[name], post[name]), i))
            if kind in ("reg", "unreg") and res == "ok":
                for d in ("0", "1"):
                    m = kind + d
                    if post[m][0] == "L":
                        self.fails.append(("O5", "%s left a symlink at %s" % (kind, m), i))
                    elif pre[m][0] == "L" and post[m][0] != "F":
                        self.fails.append(("O5", "%s did not replace the symlink at %s by a regular file" % (kind, m), i))
        elif kind in ID_OPS:
            for name in LOCS[1:]:
                if pre[name] != post[name]:
                    self.fails.append(("O5", "%s touched marker %s" % (kind, name), i))
            for k in range(N_EXT):
                name = "ext%d" % k
                if pre[name] != post[name] and not (own is not None and own.endswith("/t%d" % k)):
                    self.fails.append(("O5", "%s touched outside target %s" % (kind, name), i))
        else:
            # unregistration / registration-check paths: unlink, never follow (the inner read of a registration check
            # may fill an empty identifier file through the identifier's own symlink)
            for k in range(N_EXT):
                name = "ext%d" % k
                if pre[name] != post[name] and not (kind in ("regcheck", "lregcheck", "lhandlereg", "lhandleunreg") and own is not None
                                                    and own.endswith("/t%d" % k)):
                    self.fails.append(("O5", "%s touched outside target %s" % (kind, name), i))

    def is_known(self, clause):
        """input predicate of the listed finding: the default configuration directory does not exist"""
        return clause == "O2" and not self.init["has"][0]


def describe(op):
    return "%s(%s)" % (op[0], op[1]) if op[0] in ("read", "new") else op[0]


# --------------------------------------------------------------------------- running one history

def init_line(init):
    def node(n):
        return n[0] + (enc(n[1]) if n[0] == "F" else str(n[1]) if n[0] == "L" else "")
    # what lies under a missing directory does not exist; a time stamp in a marker file is the token <time>
    nodes = [n if init["has"][0 if i < 3 else 1] else ["A"] for i, n in enumerate(init["nodes"])]
    nodes = [["F", "<time>"] if i > 0 and n[0] == "F" and TIME_RE.match(n[1]) else n for i, n in enumerate(nodes)]
    bad = [n for n in init.get("denied", []) + init.get("raced", []) if n not in LOCS]
    if bad or init.get("errno", "EPERM") not in FAULT_ERRNOS:
        raise ValueError("bad fault description in %r" % (init,))
    return "init\t%d\t%d\t%s\t%s\t%s" % (init["has"][0], init["has"][1], "\t".join(node(n) for n in nodes),
                                         "\t".join(node(n) for n in init["ext"]),
                                         ",".join(init.get("denied", [])) or "-")


def opt(x):
    return "~" if x is None else enc(x)


def op_line(op):
    k = op[0]
    if k in ("read", "new"):
        return "%s\t%s\t%s\t%s" % (k, op[1], opt(op[2]), enc(op[3]))
    if k == "fetch":
        return "fetch\t%s\t%s" % (opt(op[1]), enc(op[2]))
    if k == "unreg":
        return "unreg\t%s" % opt(op[1])
    if k == "rc412":
        return "rc412\t%s" % opt(op[1])
    if k == "handleunreg":
        return "handleunreg\t%d" % op[1]
    if k == "regcheck":
        return "regcheck\t%s\t%s\t%s" % ("~" if op[1] is None else "%d" % op[1], opt(op[2]), enc(op[3]))
    if k in ("lregcheck", "lhandlereg", "lhandleunreg"):
        a = op[1]
        if not (isinstance(a, str) and (a in ("R", "U", "N") or a.startswith("D:"))):
            raise ValueError("bad legacy API answer %r" % (a,))
        api = "D" + enc(a[2:]) if a.startswith("D:") else a
        if k == "lregcheck":
            return "lregcheck\t%s\t%s\t%s" % (api, opt(op[2]), enc(op[3]))
        # fresh2 = what the harness' uuid4 hands out on a second call during the same operation (see Patched._uuid4)
        f2 = str(uuid.UUID(int=(uuid.UUID(op[-1]).int + 1) % (1 << 128), version=4))
        if k == "lhandleunreg":
            return "lhandleunreg\t%s\t%d\t%d\t%s\t%s\t%s" % (api, op[2], op[3], opt(op[4]), enc(op[5]), enc(f2))
        return "lhandlereg\t%s\t%d\t%s\t%s\t%s" % (api, op[2], opt(op[3]), enc(op[4]), enc(f2))
    return k


def run_history(pt, scratch, n, case):
    """execute on the implementation; returns (impl answer lines, oracle)"""
    root = pt.fresh_root(scratch, n)
    sb = Sandbox(root, case["init"])
    pt.point(sb)
    pt.arm_fault(sb)
    orc = Oracle(case["init"])
    raw = sb.raw()
    out = [sb.canonical(raw)]
    for i, op in enumerate(case["ops"]):
        idb_pre = sb.id_bytes()
        pt.last_ret = None
        res = pt.run_op(sb, op)
        post = sb.raw()
        orc.step(i, op, res, raw, post, idb_pre, sb.id_bytes(), ret=getattr(pt, "last_ret", None))
        out.append(res + "\t" + sb.canonical(post))
        raw = post
    shutil.rmtree(root, ignore_errors=True)
    return out, orc


def lines_of(case):
    return [init_line(case["init"])] + [op_line(o) for o in case["ops"]]


# --------------------------------------------------------------------------- generators

def fresh_id(rng):
    return str(uuid.UUID(int=rng.getrandbits(128), version=4))


def hex32(rng):
    return "%032x" % rng.getrandbits(128)


def gen_id_content(rng):
    """contents of an identifier file / subscription identity, by class"""
    k = rng.randrange(100)
    h = hex32(rng)
    if k < 30:
        return "valid", str(uuid.UUID(h, version=4))
    if k < 45:
        return "legacy", h                                     # un-hyphenated, version bits arbitrary
    if k < 55:
        return "legacy-upper-nl", h.upper() + "\n"
    if k < 65:
        return "hyphenated-not-v4", str(uuid.UUID(h))
    if k < 72:
        return "decorated", rng.choice(["{%s}", "urn:uuid:%s", " %s \n", "\t{urn:uuid:%s}", "uuid:%s"]) % str(uuid.UUID(h))
    if k < 80:
        return "empty", ""
    if k < 86:
        return "blank", rng.choice(["\n", " ", "\t\n"])
    if k < 93:
        return "garbage", rng.choice(["not-a-uuid", h[:-1], h + "0", h[:10] + "g" + h[11:], "None", "0" * 31])
    return "odd-int", gen_odd(rng)


def gen_odd(rng):
    """strings around the edges of int(s, 16): sign, 0x prefix, underscores, inner white space"""
    h = hex32(rng)
    k = rng.randrange(12)
    if k == 0:
        return "+" + h[1:]
    if k == 1:
        return "0x" + h[2:]
    if k == 2:
        return "0X_" + h[3:]
    if k == 3:
        return h[:5] + "_" + h[6:]
    if k == 4:
        return h[:5] + "__" + h[7:]
    if k == 5:
        return "_" + h[1:]
    if k == 6:
        return h[:-1] + "_"
    if k == 7:
        return "{" + rng.choice([" ", "\t", "\x1c", "\x0b"]) + h[1:] + "}"
    if k == 8:
        return h[:-1] + rng.choice([" ", "\n", "\x1f"]) + "}"
    if k == 9:
        return "+0x" + h[3:]
    if k == 10:
        return h[:16] + " " + h[17:]
    return "-" + h + "-"


def gen_unicode_odd(rng):
    h = hex32(rng)
    return rng.choice(["\xa0" + h, h + "\u2003", "{\u3000" + h[1:] + "}", "\x85" + h[1:], "\u1680{" + h + "}\u2028",
                       h[:4] + "\xe9" + h[5:], "{" + h[:-1] + "\u205f}"])


def gen_ext(rng):
    k = rng.randrange(10)
    if k < 3:
        return ["A"]
    if k < 5:
        return ["F", gen_id_content(rng)[1]]
    if k < 7:
        return ["F", "target-data"]
    if k < 8:
        return ["F", ""]
    return ["D"]


def gen_marker(rng):
    k = rng.randrange(100)
    if k < 45:
        return ["A"]
    if k < 70:
        return ["F", rng.choice(["2019-05-01T10:00:00.000001", "old", ""])]
    if k < 94:
        return ["L", rng.randrange(N_EXT)]
    return ["D"]


def gen_init(rng):
    k = rng.randrange(100)
    has = [False, False] if k < 10 else [True, False] if k < 40 else [False, True] if k < 48 else [True, True]
    j = rng.randrange(100)
    if j < 22:
        idn, cls = ["A"], "id-absent"
    elif j < 74:
        c, content = gen_id_content(rng)
        idn, cls = ["F", content], "id-file-" + c
    elif j < 95:
        idn, cls = ["L", rng.randrange(N_EXT)], "id-symlink"
    else:
        idn, cls = ["D"], "id-directory"
    init = {"has": has, "nodes": [idn] + [gen_marker(rng) for _ in range(4)], "ext": [gen_ext(rng) for _ in range(N_EXT)]}
    return init, cls


def gen_fault(rng, init, p=0.22):
    """removal faults: some present non-directory locations cannot be unlinked (errno, uid), some vanish under the
    operation's feet (ENOENT race); biased towards the marker an operation has to CLEAR"""
    if rng.random() >= p:
        return init
    present = [n for n, nd in zip(LOCS, init["nodes"]) if nd[0] in ("F", "L")]
    pool = present if present and rng.random() < 0.7 else LOCS
    k = rng.choice([1, 1, 1, 2, 3])
    den = sorted(set(rng.choice(pool) for _ in range(k)), key=LOCS.index)
    if rng.random() < 0.15:
        den = [n for n in LOCS if n != "id"] if rng.random() < 0.5 else LOCS[:]
    init["denied"] = den
    init["errno"] = rng.choice(["EPERM", "EPERM", "EACCES", "EACCES", "EROFS", "EBUSY", "EIO"])
    init["uid"] = rng.choice([0, 1000, 1000, 65534])
    if rng.random() < 0.3:
        init["raced"] = sorted(set(rng.choice(LOCS) for _ in range(2)) - set(den), key=LOCS.index)
    return init


def gen_fault_case(rng):
    """a marker is in place (made by an earlier run, possibly another user), the opposite operation cannot remove it"""
    has = rng.choice([[True, True], [True, True], [True, False], [False, True]])
    side = rng.choice(["reg", "unreg"])
    other = "unreg" if side == "reg" else "reg"
    nodes = {"id": ["F", fresh_id(rng)] if rng.random() < 0.6 else ["A"]}
    for d in ("0", "1"):
        nodes[side + d] = rng.choice([["F", "2019-05-01T10:00:00.000001"], ["F", "old"], ["L", rng.randrange(N_EXT)], ["A"]])
        nodes[other + d] = ["A"] if rng.random() < 0.8 else gen_marker(rng)
    init = {"has": has, "nodes": [nodes[n] for n in LOCS], "ext": [gen_ext(rng) for _ in range(N_EXT)]}
    den = [side + d for d in ("0", "1") if rng.random() < 0.75] or [side + "0"]
    if rng.random() < 0.2:
        den.append("id")
    init["denied"] = sorted(set(den), key=LOCS.index)
    init["errno"] = rng.choice(["EPERM", "EACCES", "EPERM", "EACCES", "EROFS", "EBUSY", "EIO"])
    init["uid"] = rng.choice([0, 1000, 65534])
    first = ["reg"] if side == "unreg" else ["unreg", None if rng.random() < 0.5 else "2020-02-02"]
    ops = [first] + [gen_op(rng) for _ in range(rng.choice([0, 1, 2, 4]))]
    if rng.random() < 0.3:
        ops.insert(0, ["read", "explicit", None, fresh_id(rng)])
    return "fault:" + side, {"init": init, "ops": ops}


def gen_op(rng):
    k = rng.randrange(100)
    if k < 46:
        kind = "read" if k < 34 else "new"
        j = rng.randrange(100)
        rhsm = None if j < 78 else gen_id_content(rng)[1] if j < 97 else ""
        return [kind, "explicit", rhsm, fresh_id(rng)]
    if k < 61:
        return ["reg"]
    if k < 76:
        return ["unreg", None if rng.random() < 0.6 else rng.choice(["2020-02-02", "never", "d%d" % rng.randrange(9)])]
    if k < 88:
        return ["delreg"]
    return ["delunreg"]


def gen_legacy_op(rng, api=None, rhsm=None):
    if api is None:
        api = rng.choice(["R", "R", "U", "U", "N", "D:2019-05-01 10:00:00+00:00", "D:never", "D:"])
    j = rng.randrange(3)
    if j == 0:
        return ["lregcheck", api, rhsm, fresh_id(rng)]
    if j == 1:
        return ["lhandlereg", api, rng.randrange(2), rhsm, fresh_id(rng)]
    return ["lhandleunreg", api, rng.randrange(2), rng.choice([1, 1, 0]), rhsm, fresh_id(rng)]


def gen_legacy_case(rng):
    """the legacy_upload flows (status, --register, --unregister) from the states a legacy host is found in: registered,
    unregistered, fresh, identifier file empty / legacy spelling / symlink, both markers left behind by a crash"""
    init, cls = gen_init(rng)
    init["has"] = rng.choice([[True, True], [True, True], [True, False], [False, False]])
    k = rng.randrange(10)
    if k < 5:
        init["nodes"][0] = ["F", rng.choice([fresh_id(rng), hex32(rng), hex32(rng).upper() + "\n"])]
    elif k < 6:
        init["nodes"][0] = ["F", ""]
    ops = []
    for _ in range(rng.choice([1, 1, 2, 3, 4])):
        j = rng.randrange(10)
        rhsm = None if rng.random() < 0.85 else gen_id_content(rng)[1]
        if j < 6:
            ops.append(gen_legacy_op(rng, None, rhsm))
        elif j < 7:
            ops.append(["rc412", rng.choice([None, "2020-02-02 00:00:00Z", "never", ""])])
        elif j < 8:
            ops.append(rng.choice([["reg"], ["unreg", None], ["delreg"], ["delunreg"]]))
        else:
            ops.append(["new", rng.choice(EP_REGENS + ["explicit"]), rhsm, fresh_id(rng)])
        for rd in rng.sample(EP_READERS, rng.choice([0, 1, 2])):
            ops.append(["read", rd, None, fresh_id(rng)])
    return "ep:legacy:" + cls, {"init": gen_fault(rng, init, 0.12), "ops": ops}


def gen_ep_case(rng, n_main):
    """interleave every write path with reads through every read path: after each main operation all readers are asked"""
    init, cls = gen_init(rng)
    if rng.random() < 0.7:
        init["has"][0] = True            # the interesting part needs a place to persist the identifier
    ops = []
    for _ in range(n_main):
        k = rng.randrange(100)
        rhsm = None if rng.random() < 0.85 else gen_id_content(rng)[1]
        if k < 18:
            ops.append(["new", rng.choice(EP_REGENS + ["explicit"]), rhsm, fresh_id(rng)])
        elif k < 32:
            ops.append(["connunreg"])
        elif k < 44:
            ops.append(["handleunreg", rng.randrange(2), rng.choice(["clientfn", "clientobj"])])
        elif k < 56:
            ops.append(["regcheck", rng.choice([True, False, False, None]), rhsm, fresh_id(rng),
                        rng.choice(["support", "clientfn", "clientobj"])])
        elif k < 64:
            api = rng.choice(["R", "R", "U", "U", "N", "D:2019-05-01 10:00:00+00:00", "D:never", "D:"])
            ops.append(gen_legacy_op(rng, api, rhsm))
        elif k < 72:
            ops.append(["fetch", rhsm, fresh_id(rng)])
        elif k < 80:
            ops.append(["read", "explicit", rhsm, fresh_id(rng)])
        elif k < 96:
            ops.append(rng.choice([["reg"], ["unreg", None], ["delreg"], ["delunreg"]]))
        else:
            ops.append(["rc412", rng.choice([None, "2020-02-02 00:00:00Z", "never", ""])])
        readers = EP_READERS[:]
        rng.shuffle(readers)
        for rd in readers[:rng.choice([5, 5, 5, 3, 2])]:
            ops.append(["read", rd, None if rng.random() < 0.9 else gen_id_content(rng)[1], fresh_id(rng)])
    return "ep:" + cls, {"init": gen_fault(rng, init, 0.15), "ops": ops}


def fixed_inits():
    """every initial state the property names, deterministically"""
    v = "3f0e7c1a-5b2d-4e6f-8a9b-0c1d2e3f4a5b"
    leg = "3F0E7C1A5B2D1E6F0A9B0C1D2E3F4A5B"
    a = ["A"]
    ext = [["A"], ["F", v], ["F", "target-data"], ["D"]]
    yield "absent-dir", {"has": [False, False], "nodes": [a] * 5, "ext": ext}
    yield "empty-dir", {"has": [True, True], "nodes": [a] * 5, "ext": ext}
    yield "existing-id", {"has": [True, True], "nodes": [["F", v], ["F", "old"], a, a, ["F", "old"]], "ext": ext}
    yield "legacy-id", {"has": [True, False], "nodes": [["F", leg], a, ["F", "old"], a, a], "ext": ext}
    yield "empty-id", {"has": [True, True], "nodes": [["F", ""], ["F", "old"], ["F", "old"], ["F", "old"], ["F", "old"]], "ext": ext}
    yield "marker-symlinks", {"has": [True, True], "nodes": [["F", v], ["L", 0], ["L", 1], ["L", 2], ["L", 3]], "ext": ext}
    for k in range(N_EXT):
        yield "id-symlink-%d" % k, {"has": [True, True], "nodes": [["L", k], ["L", k], a, a, ["L", (k + 1) % N_EXT]], "ext": ext}
    yield "garbage-id", {"has": [True, True], "nodes": [["F", "not-a-uuid"], a, a, a, a], "ext": ext}
    yield "marker-dirs", {"has": [True, True], "nodes": [a, ["D"], a, ["F", "old"], ["D"]], "ext": ext}
    yield "legacy-dir-only", {"has": [False, True], "nodes": [a, a, a, ["L", 1], ["F", "old"]], "ext": ext}


def fixed_histories(rng):
    rd = lambda r=None: ["read", "explicit", r, fresh_id(rng)]
    nw = lambda: ["new", "explicit", None, fresh_id(rng)]
    return [
        [rd(), rd(), nw(), rd(), rd()],
        [["unreg", None], ["reg"], rd(), nw(), rd(), ["unreg", "d1"], ["delunreg"], ["reg"], ["delreg"]],
        [["reg"], ["unreg", None], ["reg"], rd("0b5a7c1e-2d3f-1a4b-5c6d-7e8f9a0b1c2d"), rd()],
    ]


# --------------------------------------------------------------------------- check

def key_of(case):
    return json.dumps(case, sort_keys=True)


def run(chk):
    rng = chk.rng
    quick = chk.tier == "quick"
    n_hist = 3600 if quick else 20000
    n_fault = 500 if quick else 4000
    max_len = 12 if quick else 60
    n_canon = 4000 if quick else 60000
    chk.rule = ("histories (length <= %d) of read / regenerate / register / unregister / delete-marker operations from "
                "generated initial states of two configuration directories (absent, empty, identifier file valid / legacy / "
                "decorated / empty / blank / garbage / directory / symlink, markers absent / file / symlink / directory, outside "
                "symlink targets absent / file / directory), plus every named initial state x 3 fixed histories and the corpus; "
                "non-trivial = some operation changed the file system or returned an identifier, and the history is new" % max_len)
    chk.assumptions = [
        "no modelled function creates or removes a directory: which configuration directories exist is fixed per history",
        "symlinks point at paths outside the five modelled locations (a symlink from the identifier file INTO a marker path is not generated)",
        "uuid.uuid4, the subscription identity (cert_auth.rhsmCertificate) and the clock are inputs; time stamps are compared as a token",
        "identifier contents are ASCII in files (text-mode read, no '\\r'); int(s,16)'s acceptance of non-ASCII decimal digits is not modelled",
        "permission errors, a regular file in place of a configuration directory, and concurrent writers are not modelled",
    ]
    chk.lean()

    cases = []
    for p in sorted(glob.glob(os.path.join(VERIF, "corpus", "C17", "*.json"))):
        d = json.load(open(p, encoding="utf-8"))
        cases.append(("corpus:" + os.path.basename(p), d["case"], d.get("finding")))
    for name, init in fixed_inits():
        for h in fixed_histories(rng):
            cases.append(("init:" + name, {"init": init, "ops": h}, None))
    for _ in range(n_hist):
        init, cls = gen_init(rng)
        n = rng.choice([1, 2, 3, 4, 6, 8, 10, max_len, max_len]) if quick else rng.randint(1, max_len)
        cases.append((cls, {"init": gen_fault(rng, init), "ops": [gen_op(rng) for _ in range(n)]}, None))
    for _ in range(n_fault):
        cls, case = gen_fault_case(rng)
        cases.append((cls, case, None))
    # canonicalisation stream: the subscription identity goes through uuid.UUID(..., version=4) without touching a file
    absent = {"has": [False, False], "nodes": [["A"]] * 5, "ext": [["A"]] * N_EXT}
    for _ in range(n_canon):
        j = rng.randrange(10)
        s = gen_odd(rng) if j < 4 else gen_unicode_odd(rng) if j < 5 else gen_id_content(rng)[1]
        cases.append(("canon", {"init": absent, "ops": [["new", "explicit", s, fresh_id(rng)]]}, None))

    n_ep = 400 if quick else 3000
    ep_cases = []
    for _ in range(n_ep):
        cls, case = gen_ep_case(rng, rng.choice([1, 2, 3, 4, 6, 8]) if quick else rng.randint(1, 20))
        ep_cases.append((cls, case, None))
    for _ in range(200 if quick else 2000):
        cls, case = gen_legacy_case(rng)
        ep_cases.append((cls, case, None))

    lines, spans, impl = [], [], []
    seen = set()

    def record(n, cls, case, finding, out, fails, small):
        """bookkeeping + oracle verdicts of one executed history (fails: [clause, text, op index])"""
        ls = lines_of(case)
        spans.append((len(lines), len(ls)))
        lines.extend(ls)
        impl.extend(out)
        key = key_of(case)
        changed = any(a.split("\t")[-1] != b.split("\t")[-1] or b.startswith("id:") for a, b in zip(out, out[1:]))
        chk.case(key, changed and key not in seen)
        seen.add(key)
        chk.count("init:" + cls.split(":")[0] if cls.startswith("corpus") else "init:" + cls)
        chk.count("dirs:%d%d" % tuple(case["init"]["has"]))
        if case["init"].get("denied") or case["init"].get("raced"):
            chk.count("fault:%s:uid%s" % (case["init"].get("errno", "EPERM"), "0" if not case["init"].get("uid") else "N"))
            chk.count("fault:denied=%d,raced=%d" % (len(case["init"].get("denied", [])), len(case["init"].get("raced", []))))
        chk.count("len:%d" % len(case["ops"]) if len(case["ops"]) <= 12 else "len:>12")
        for op, o in zip(case["ops"], out[1:]):
            tag = "%s(%s)" % (op[0], op[1]) if op[0] in ("read", "new") else op[0]
            chk.count("op:" + tag)
            chk.count("result:%s:%s" % (op[0], o.split("\t")[0].split(":")[0]))
        known_o2 = not case["init"]["has"][0]
        reported = set()
        for clause, text, i in fails:
            if clause in reported:
                continue
            reported.add(clause)
            known = clause == "O2" and known_o2
            chk.failure("%s: %s (operation %d of the history)" % (clause, text, i),
                        dict(small.get(clause) or case, clause=clause), finding=FINDING if known else None)
        if finding and known_o2 and any(c == "O2" for c, _, _ in fails):
            chk.finding_reproduced(finding)
            chk.witnesses.append({"finding": finding, "reproduced": True, "ids": [o.split("\t")[0] for o in out[1:]]})
        elif finding:
            chk.witnesses.append({"finding": finding, "reproduced": False})
        if n % 1500 == 7:
            chk.sample({"init": case["init"], "ops": case["ops"], "impl": out})

    scratch = tempfile.mkdtemp(prefix="c17-")
    try:
        with Patched() as pt:
            for n, (cls, case, finding) in enumerate(cases):
                out, orc = run_history(pt, scratch, n, case)
                small = {}
                for clause, _, i in orc.fails:
                    if clause not in small and not orc.is_known(clause) and len(chk.failures) < 5:
                        small[clause] = shrink(pt, scratch, case, clause, i)
                record(n, cls, case, finding, out, orc.fails, small)
        if (constants.machine_id_file, constants.registered_files[0]) != ("/etc/insights-client/machine-id", "/etc/insights-client/.registered") \
                and "INSIGHTS_CONF_DIR" not in os.environ:
            chk.tie_broken("harness", "constants were not restored", None)
    finally:
        shutil.rmtree(scratch, ignore_errors=True)

    # entry-point stream: one child interpreter (clean module state, INSIGHTS_CONF_DIR in effect at import time)
    res = run_child([c for _, c, _ in ep_cases], do_shrink=True)
    for n, ((cls, case, finding), r) in enumerate(zip(ep_cases, res)):
        record(len(cases) + n, cls, case, finding, r["out"], [tuple(f) for f in r["fails"]], r["small"])
        if n % 150 == 3:
            chk.sample({"init": case["init"], "ops": case["ops"], "impl": r["out"]})
    cases = cases + ep_cases

    model = run_driver("C17", lines)
    # compare per history (a history = its init line + one line per operation)
    streams = {"canon": ([], [], []), "ep": ([], [], []), "h": ([], [], [])}
    for (cls, case, _), (start, n) in zip(cases, spans):
        tgt = streams["canon" if cls == "canon" else "ep" if cls.startswith("ep:") else "h"]
        tgt[0].append(case)
        tgt[1].append("\n".join(impl[start:start + n]))
        tgt[2].append("\n".join(model[start:start + n]))
    chk.compare("histories(state+result after every operation)", *streams["h"], show=show_case)
    chk.compare("entry-points(every read path x every write path, state+result after every operation)", *streams["ep"], show=show_case)
    chk.compare("canonicalisation(uuid.UUID version=4)", *streams["canon"], show=show_case)
    chk.extra["operations_compared"] = len(lines) - len(cases)


def show_case(case):
    return {"init": case["init"], "ops": case["ops"], "lines": lines_of(case)}


_shrink_n = [0]


def shrink(pt, scratch, case, clause, at):
    """greedy delta over the operations: keep the history failing the same clause"""
    def fails(c):
        _shrink_n[0] += 1
        _, orc = run_history(pt, scratch, "s%d" % _shrink_n[0], c)
        return any(cl == clause for cl, _, _ in orc.fails)
    return shrink_with(fails, case, at)


def shrink_with(fails, case, at, budget=150):
    cur = {"init": case["init"], "ops": case["ops"][:at + 1]}
    if not fails(cur):
        return case
    i = 0
    while i < len(cur["ops"]) and budget > 0:
        budget -= 1
        cand = {"init": cur["init"], "ops": cur["ops"][:i] + cur["ops"][i + 1:]}
        if cand["ops"] and fails(cand):
            cur = cand
        else:
            i += 1
    return cur


def replay(data):
    case = data["case"]
    case = {"init": case["init"], "ops": case["ops"]}
    print("replaying history:")
    for l in lines_of(case):
        print("   ", l)
    print("   ", json.dumps(case))
    if needs_child(case):
        r = run_child([case])[0]
        out, fails, init = r["out"], [tuple(f) for f in r["fails"]], case["init"]
    else:
        scratch = tempfile.mkdtemp(prefix="c17-")
        try:
            with Patched() as pt:
                out, orc = run_history(pt, scratch, 0, case)
        finally:
            shutil.rmtree(scratch, ignore_errors=True)
        fails, init = orc.fails, case["init"]
    try:
        model = run_driver("C17", lines_of(case))
    except Exception as e:
        model = ["driver failed: %s" % e] * len(out)
    for i, (a, b) in enumerate(zip(out, model)):
        print("%-5s impl : %s" % ("init" if i == 0 else case["ops"][i - 1][0], a))
        if a != b:
            print("      model: %s   <-- differs" % b)
    for clause, text, i in fails:
        print("ORACLE %s at operation %d: %s%s" % (clause, i, text,
              "  [known finding %s]" % FINDING if (clause == "O2" and not init["has"][0]) else ""))
    bad = bool(fails)
    print("property violated on this input" if bad else "property holds on this input")
    return 1 if bad else 0


if __name__ == "__main__":
    child_main()
