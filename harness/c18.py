"""
C18 — a playbook's signed digest covers everything but the declared dynamic parts.

Tie: PlaybookSerializer.serialize, exclude_dynamic_elements + serialize_play + hash_play, verify_play and
verify are run in-process on ruamel CommentedMap/CommentedSeq objects (built directly, or loaded by the
verifier's own YAML loader from rendered text) and compared with IV.Playbook (Drivers/C18.lean).  Only
the GPG object is replaced (a stand-in whose verify_data accepts exactly the signature made for that
digest); the revocation document is supplied through pkgutil.get_data (generated lists and the shipped
file).

Oracle (independent of the serializer and of exclude_dynamic_elements): the *core* of a play = its typed
structure with the elements named by its own exclusion list removed.  Over every play explored in a run
  - equal digests  => equal cores          (anything outside the excluded elements changes the digest)
  - equal cores    => equal digests        (only excluded elements changed: digest unchanged)
  - a missing exclusion list, a request that is not hosts / vars / a direct child of them, or a missing
    signature must end in PlaybookVerificationError
  - a play whose digest is on the revocation list, or whose signature was made for another core, must be
    rejected by verify()
  - large plays (up to 64 KiB serialised): hash_play / the digest shown to GPG is SHA-256 of the WHOLE
    serialisation (computed in one piece from the model's text), and changing one character at any serialised
    offset (block boundaries in particular) changes it to SHA-256 of the edited serialisation
  - histories: 2-6 verify / verify_play / execute_verification calls in ONE process (genuine, tampered re-using an
    earlier signature, the same again, other signatures, revoked before/after not revoked, logging levels varied):
    every call's verdict and the digests GPG is shown equal those of the same call made as the first call of a
    freshly forked process at the default logging level; GPG is shown the digest of THIS play on every call that
    reaches the signature check; module-level containers of the verifier package do not grow
  - the TEXT entry point (load_playbook_yaml, as __main__ uses it): an edit of the YAML text that changes what the text
    denotes outside the excluded elements (node graph composed by a separate parser instance, built with "last value of a
    repeated key wins", merge keys expanded, unknown tags kept) must make loading / verification fail or change the
    digest shown to GPG; an edit that does not change the denoted play must not change the digest
  - plays that differ only in one code point (lone surrogates, '?', U+FFFD, ...) are refused or get different digests,
    and the bytes hashed are the strict UTF-8 encoding of the serialisation text
  - the command-line entry point (playbook_verifier/__main__.py, run in-process with stdin/stdout replaced) on documents
    with several top-level entries, including entries without hosts (an import with vars, only vars / tasks): it exits 0
    and prints the document only if EVERY entry verifies (signed for its core, not revoked); anything else: nothing printed
  - histories of loads: 2-4 texts with and without %YAML 1.1 / 1.2 directives and version-sensitive scalars loaded in one
    process; each text must verify to the digest it gets as the first load of a freshly forked process.
"""
import base64
import binascii
import copy
import hashlib
import collections
import io
import json
import logging
import os
import pickle
import re
import sys

from harness.common import VERIF, enc, dec, run_driver

from insights.client.apps.ansible import playbook_verifier as pv
from insights.client.apps.ansible.playbook_verifier.serializer import PlaybookSerializer
from insights.client.apps.ansible.playbook_verifier.contrib.ruamel_yaml.ruamel.yaml import YAML as _RYAML, nodes as _rnodes
from insights.client.apps.ansible.playbook_verifier.contrib.ruamel_yaml.ruamel.yaml.comments import (
    CommentedMap, CommentedSeq)

EXCL = "insights_signature_exclude"
SIG = "insights_signature"

# ------------------------------------------------------------------ plain values <-> everything else
# plain value: dict (insertion ordered; keys str|int|bool|None) | list | str | int | bool | None


def to_ruamel(o):
    if isinstance(o, dict):
        m = CommentedMap()
        for k, v in o.items():
            m[k] = to_ruamel(v)
        return m
    if isinstance(o, list):
        s = CommentedSeq()
        for v in o:
            s.append(to_ruamel(v))
        return s
    return o


def from_ruamel(o):
    """plain value of a loaded object; raises ValueError for types outside the property's quantifier"""
    if isinstance(o, dict):
        r = {}
        for k, v in o.items():
            k2 = from_ruamel(k)
            if isinstance(k2, (dict, list)):
                raise ValueError("complex key")
            r[k2] = from_ruamel(v)
        return r
    if isinstance(o, (list, tuple)):
        return [from_ruamel(v) for v in o]
    if o is None or isinstance(o, bool):
        return o
    if isinstance(o, int):
        return int(o)
    if isinstance(o, str):
        return str(o)
    raise ValueError("type %s" % type(o).__name__)


def canon(o):
    """typed, order-preserving, hashable (Python's == conflates True/1; this does not)"""
    if isinstance(o, dict):
        return ("map", tuple((canon(k), canon(v)) for k, v in o.items()))
    if isinstance(o, list):
        return ("seq", tuple(canon(v) for v in o))
    if o is None:
        return ("none",)
    if isinstance(o, bool):
        return ("bool", o)
    if isinstance(o, int):
        return ("int", o)
    return ("str", o)


def wire(o):
    """the driver's token format"""
    out = []

    def sc(x):
        if x is None:
            return "N"
        if x is True:
            return "T"
        if x is False:
            return "F"
        if isinstance(x, int):
            return ("h%x" % x) if abs(x) >= 10 ** 4000 else "i%d" % x
        return "s" + enc(x)

    def go(x):
        if isinstance(x, dict):
            out.append("{")
            for k, v in x.items():
                out.append(sc(k))
                go(v)
            out.append("}")
        elif isinstance(x, list):
            out.append("[")
            for v in x:
                go(v)
            out.append("]")
        else:
            out.append(sc(x))
    go(o)
    return " ".join(out)


def unwire(text):
    """inverse of wire()"""
    toks = text.split(" ")
    pos = [0]

    def sc(t):
        if t == "N":
            return None
        if t == "T":
            return True
        if t == "F":
            return False
        if t[0] == "i":
            return int_from_dec(t[1:])
        if t[0] == "h":
            return int(t[1:], 16)
        return dec(t[1:])

    def go():
        t = toks[pos[0]]
        pos[0] += 1
        if t == "[":
            out = []
            while toks[pos[0]] != "]":
                out.append(go())
            pos[0] += 1
            return out
        if t == "{":
            out = {}
            while toks[pos[0]] != "}":
                k = sc(toks[pos[0]])
                pos[0] += 1
                out[k] = go()
            pos[0] += 1
            return out
        return sc(t)
    return go()


def to_json(o):
    if isinstance(o, dict):
        return {"m": [[to_json(k), to_json(v)] for k, v in o.items()]}
    if isinstance(o, list):
        return {"l": [to_json(v) for v in o]}
    if o is None:
        return {"n": None}
    if isinstance(o, bool):
        return {"b": o}
    if isinstance(o, int):
        return {"ih": "%x" % o} if abs(o) >= 10 ** 4000 else {"i": str(o)}
    return {"s": o}


def from_json(j):
    if "m" in j:
        return dict((from_json(k), from_json(v)) for k, v in j["m"])
    if "l" in j:
        return [from_json(v) for v in j["l"]]
    if "n" in j:
        return None
    if "b" in j:
        return bool(j["b"])
    if "i" in j:
        return int(j["i"])
    if "ih" in j:
        return int(j["ih"], 16)
    return j["s"]


# ------------------------------------------------------------------ the oracle's own notion of "core"

def spec_requests(play):
    """
    Independent reading of the play's exclusion declaration.
    Returns (status, requests): status in 'missing' | 'nonstring' | 'ok'; requests = list of component lists.
    """
    v = play.get("vars") if isinstance(play, dict) else None
    if not isinstance(v, dict) or EXCL not in v:
        return "missing", []
    e = v[EXCL]
    if not isinstance(e, str):
        return "nonstring", []
    reqs = []
    for part in e.split(","):
        comps = []
        cur = ""
        for ch in part + "/":
            if ch == "/":
                if cur:
                    comps.append(cur)
                cur = ""
            else:
                cur += ch
        reqs.append(comps)
    return "ok", reqs


def request_allowed(comps):
    return len(comps) in (1, 2) and comps[0] in ("hosts", "vars")


def spec_core(play):
    """
    ('must-verr', why) when the property demands a verification error, else ('core', canonical structure
    of the play without the requested elements).  Requests for elements that do not exist remove nothing
    (whether they are an error is not part of the property; the correspondence covers it).
    """
    st, reqs = spec_requests(play)
    if st == "missing":
        return ("must-verr", "missing exclusion list")
    if st == "nonstring":
        return ("must-verr", "exclusion list is not a string")
    for c in reqs:
        if not request_allowed(c):
            return ("must-verr", "exclusion request %r is not hosts/vars or a direct child" % ("/".join(c),))
    p = copy.deepcopy(play)
    for c in reqs:
        if len(c) == 1:
            p.pop(c[0], None)
        else:
            sub = p.get(c[0])
            if isinstance(sub, dict):
                sub.pop(c[1], None)
    return ("core", canon(p))


def signature_missing(play):
    v = play.get("vars")
    return (not isinstance(v, dict)) or v.get(SIG) is None


# ------------------------------------------------------------------ implementation adapters

class FakeImport(object):
    count = 1


class FakeVerified(object):
    def __init__(self, valid):
        self.valid = valid
        self.status = "signature valid" if valid else "signature bad"

    def __bool__(self):
        return self.valid
    __nonzero__ = __bool__


class FakeGPG(object):
    """stand-in for gnupg.GPG: a signature is the text FAKESIG:<hex digest it signs>; the only other
    signature it accepts is the shipped revocation list's real one, for that list's digest (`real`)"""
    seen = []
    real = (None, None)     # (signature bytes, digest) of insights/revoked_playbooks.yaml

    def __init__(self, *a, **k):
        pass

    def import_keys(self, key):
        return FakeImport()

    def verify_data(self, fn, data):
        with open(fn, "rb") as f:
            sig = f.read()
        FakeGPG.seen.append(bytes(data))
        if sig.startswith(b"FAKESIG:"):
            return FakeVerified(sig[8:] == binascii.hexlify(data))
        return FakeVerified(FakeGPG.real[0] is not None and sig == FakeGPG.real[0] and bytes(data) == FakeGPG.real[1])


class FakeGnupgModule(object):
    GPG = FakeGPG


class FakePkgutil(object):
    """pkgutil as the verifier module sees it: the revocation document is an input of the check"""

    def __init__(self, real, doc_bytes):
        self.real, self.doc = real, doc_bytes

    def get_data(self, package, resource):
        if self.doc is not None and package == "insights" and resource == "revoked_playbooks.yaml":
            return self.doc
        return self.real.get_data(package, resource)


class Patched(object):
    def __init__(self, revocation_doc=None):
        self.doc = revocation_doc

    def __enter__(self):
        self.g, self.p = pv.gnupg, pv.pkgutil
        pv.gnupg = FakeGnupgModule
        pv.pkgutil = FakePkgutil(self.p, self.doc)
        return self

    def __exit__(self, *a):
        pv.gnupg, pv.pkgutil = self.g, self.p


def bad_sigs(*plays):
    """protocol field: the signature strings of these plays that the standard library's base64 rejects"""
    out = []
    for p in plays:
        v = p.get("vars") if isinstance(p, dict) else None
        sig = v.get(SIG) if isinstance(v, dict) else None
        if isinstance(sig, str):
            try:
                base64.b64decode(sig)
            except Exception:
                out.append(enc(sig))
    return ",".join(out) if out else "-"


def fake_sign(digest):
    return base64.b64encode(b"FAKESIG:" + binascii.hexlify(digest)).decode("ascii")


def impl_ser(obj):
    try:
        return enc(PlaybookSerializer.serialize(obj))
    except Exception as e:                      # the serializer has no documented failure
        return "crash:" + type(e).__name__


def impl_excl(obj):
    """exclude_dynamic_elements + serialize_play + hash_play -> (answer line, digest or None)"""
    try:
        cleaned = pv.exclude_dynamic_elements(obj)
        b = pv.serialize_play(cleaned)
        d = pv.hash_play(b)
    except pv.PlaybookVerificationError:
        return "verr", None, None
    except Exception:
        return "crash", None, None
    return "ok\t" + enc(b.decode("utf-8")), d, b


def impl_vplay(obj):
    """verify_play with the stand-in GPG -> (answer line, digest GPG was asked about)"""
    del FakeGPG.seen[:]
    try:
        with Patched():
            res, d = pv.verify_play(obj)
    except pv.PlaybookVerificationError:
        return "verr", None
    except Exception:
        return "crash", None
    if FakeGPG.seen != [bytes(d)]:
        return "gpg-saw-other-digest", d
    return "ok", d


def impl_verify(obj, doc_bytes):
    try:
        with Patched(doc_bytes):
            r = pv.verify(obj)
    except pv.PlaybookVerificationError:
        return "verr"
    except Exception:
        return "crash"
    return "ok" if r is obj else "returned-other-object"


def _dumper():
    """a YAML instance of the harness's own, set up like the verifier's (the verifier's instance keeps state from the
    texts it loaded, e.g. a %YAML directive, which must not leak into the texts rendered here)"""
    y = _RYAML(typ="rt")
    y.indent(mapping=2, sequence=4, offset=2)
    y.default_flow_style = False
    y.preserve_quotes = True
    y.width = 200
    return y


def dump_yaml(obj):
    buf = io.StringIO()
    _dumper().dump(obj, buf)
    return buf.getvalue()


def via_yaml(plain):
    """the object the verifier's own loader builds from the rendered play, if it denotes the same play"""
    try:
        text = dump_yaml([to_ruamel(plain)])
        loaded = pv.load_playbook_yaml(text)[0]
        if canon(from_ruamel(loaded)) == canon(plain):
            return loaded
    except Exception:
        pass
    return None


# ------------------------------------------------------------------ generators

NASTY = ["'", '"', "\\", "\n", "\t", "\u200b", "\u200c", "\u200d", ", ", "(", ")", "[", "]", "ordereddict(",
         "', '", "'), ('", "\\'", "\\n", "\\t", "\\u200b", "\\\\", "é", "€", "\r", " ", "a", "b", "x",
         "0", "1", "-", "True", "None", ":", "#", "{", "}", "])", "ordereddict()", "\U0001f600", "/", ","]
WORDS = ["name", "hosts", "vars", "tasks", "become", "yes", "localhost", "all", "command", "shell", "when",
         "register", "item", "state", "present", "insights", "remove", "pkg", "1", "True", "None", ""]


def gen_str(rng):
    r = rng.random()
    if r < 0.35:
        return rng.choice(WORDS)
    if r < 0.45:
        return rng.choice(WORDS) + rng.choice(NASTY) + rng.choice(WORDS)
    return "".join(rng.choice(NASTY) for _ in range(rng.choice([0, 1, 1, 2, 2, 3, 4, 6])))


def gen_int(rng):
    return rng.choice([0, 1, -1, 2, 7, 10, 12, -5, 99, 100, 1000, 65535, -123456, 10 ** 18 + 3, -10 ** 30,
                       rng.randrange(-50, 50), rng.randrange(10 ** 6)])


def gen_scalar(rng):
    r = rng.random()
    if r < 0.55:
        return gen_str(rng)
    if r < 0.78:
        return gen_int(rng)
    if r < 0.9:
        return rng.random() < 0.5
    return None


def gen_key(rng):
    r = rng.random()
    if r < 0.8:
        return gen_str(rng)
    if r < 0.92:
        return gen_int(rng)
    if r < 0.97:
        return rng.random() < 0.5
    return None


def gen_value(rng, depth):
    r = rng.random()
    if depth <= 0 or r < 0.5:
        return gen_scalar(rng)
    n = rng.choice([0, 1, 1, 2, 2, 3, 4])
    if r < 0.75:
        return [gen_value(rng, depth - 1) for _ in range(n)]
    d = {}
    for _ in range(n):
        d[gen_key(rng)] = gen_value(rng, depth - 1)
    return d


GOOD_EXCL = ["/hosts,/vars/insights_signature", "/vars/insights_signature", "/hosts,/vars/insights_signature",
             "/vars/insights_signature,/hosts", "hosts,vars/insights_signature", "/hosts,/vars/insights_signature,/vars/dyn",
             "/hosts/web,/vars/insights_signature", "/vars", "/hosts,/vars", "//hosts//,/vars//insights_signature/"]
BAD_EXCL = ["", ",", "/name", "/tasks", "/hosts,/name", "/vars/a/b", "/vars/insights_signature/x", " /hosts", "/hosts ,/vars/insights_signature",
            "/hosts,", "/Hosts", "hosts/vars", "/", "/hosts/web/x", "/vars/insights_signature,/tasks/0", "name", "/hostsx", "/var"]
NONSTR_EXCL = [None, 5, True, ["/hosts"], {"hosts": None}, 0]


def gen_play(rng):
    ents = []
    ents.append(("name", rng.choice(["demo", gen_str(rng)])))
    r = rng.random()
    if r < 0.88:
        ents.append(("hosts", rng.choice(["localhost", "all", gen_str(rng), ["a", "b"], {"web": "w1", "db": gen_value(rng, 1)},
                                           {"web": {"x": 1}}, gen_value(rng, 2)])))
    if rng.random() < 0.5:
        ents.append(("become", rng.random() < 0.5))
    r = rng.random()
    if r < 0.92:
        v = []
        r2 = rng.random()
        if r2 < 0.7:
            v.append((EXCL, rng.choice(GOOD_EXCL)))
        elif r2 < 0.88:
            v.append((EXCL, rng.choice(BAD_EXCL)))
        elif r2 < 0.94:
            v.append((EXCL, rng.choice(NONSTR_EXCL)))
        r3 = rng.random()
        if r3 < 0.9:
            v.append((SIG, "UExBQ0VIT0xERVI="))
        elif r3 < 0.95:
            v.append((SIG, None))
        if rng.random() < 0.6:
            v.append(("dyn", gen_value(rng, 1)))
        for _ in range(rng.choice([0, 0, 1, 2])):
            v.append((gen_key(rng), gen_value(rng, 2)))
        rng.shuffle(v)
        ents.append(("vars", dict(v)))
    elif r < 0.97:
        ents.append(("vars", rng.choice([None, 5, "abc", "x insights_signature_exclude y", [EXCL], ["x"], True, [], ""])))
    tasks = []
    for _ in range(rng.choice([0, 1, 1, 2, 3])):
        t = {"name": gen_str(rng)}
        t[rng.choice(["command", "shell", "yum", "copy"])] = gen_value(rng, 2)
        if rng.random() < 0.3:
            t["when"] = gen_str(rng)
        tasks.append(t)
    ents.append(("tasks", tasks))
    for _ in range(rng.choice([0, 0, 1, 2])):
        ents.append((gen_key(rng), gen_value(rng, 2)))
    if rng.random() < 0.5:
        rng.shuffle(ents)
    play = dict(ents)
    # exclusion requests derived from the play's OWN structure: existing children of hosts/vars (valid) and of any other
    # top-level mapping, whole top-level keys, sequence children (all invalid: must be a verification error)
    v = play.get("vars")
    if isinstance(v, dict) and isinstance(v.get(EXCL), str) and rng.random() < 0.3:
        reqs = []
        for k, val in play.items():
            if not isinstance(k, str) or "," in k or "/" in k:
                continue
            reqs.append("/" + k)
            if isinstance(val, dict):
                reqs.extend("/%s/%s" % (k, c) for c in val if isinstance(c, str) and "," not in c and "/" not in c and c != EXCL)
            if isinstance(val, list) and val:
                reqs.append("/%s/0" % k)
        if reqs:
            chosen = [rng.choice(reqs) for _ in range(rng.choice([1, 1, 2]))]
            base = rng.choice(["/vars/insights_signature", "/hosts,/vars/insights_signature", ""])
            v[EXCL] = ",".join([x for x in [base] + chosen if x])
    return play


# ---- edits: every result is just another play; the oracle decides from the cores what must happen

def paths_of(o, pre=()):
    """all node paths; a step is ('k', key) into a mapping or ('i', index) into a sequence"""
    yield pre
    if isinstance(o, dict):
        for k, v in o.items():
            for p in paths_of(v, pre + (("k", canon(k), k),)):
                yield p
    elif isinstance(o, list):
        for i, v in enumerate(o):
            for p in paths_of(v, pre + (("i", i, i),)):
                yield p


def get_at(o, path):
    for st in path:
        o = o[st[2]]
    return o


def rebuild(o, path, fn):
    """copy of o with the node at path replaced by fn(node); fn may return DROP"""
    if not path:
        return fn(o)
    st = path[0]
    if isinstance(o, dict):
        out = {}
        for k, v in o.items():
            if canon(k) == st[1]:
                nv = rebuild(v, path[1:], fn)
                if nv is not DROP:
                    out[k] = nv
            else:
                out[k] = v
        return out
    out = []
    for i, v in enumerate(o):
        if i == st[1]:
            nv = rebuild(v, path[1:], fn)
            if nv is not DROP:
                out.append(nv)
        else:
            out.append(v)
    return out


DROP = object()


def retype(rng, x):
    """a different scalar that is easily confused with x"""
    if isinstance(x, bool):
        return rng.choice([str(x), int(x), not x])
    if x is None:
        return rng.choice(["None", "", 0, False])
    if isinstance(x, int):
        return rng.choice([str(x), x + 1, -x if x else 1, bool(x) if x in (0, 1) else str(x) + "0"])
    c = [x + rng.choice(NASTY), x[:-1] if x else "x", rng.choice(NASTY) + x, x.replace("'", '"') if "'" in x else x + "'",
         x.replace("\n", "\\n") if "\n" in x else x + "\n", x.replace("\u200b", "\\u200b") if "\u200b" in x else x + "\u200b"]
    for conv in (lambda s: int(s), lambda s: {"True": True, "False": False, "None": None}[s]):
        try:
            c.append(conv(x))
        except Exception:
            pass
    return rng.choice(c)


def text_of(o):
    """attack text: what the serializer prints for o (used only to craft inputs)"""
    try:
        return PlaybookSerializer.serialize(to_ruamel(o))
    except Exception:
        return "x"


def insert_pairs(d, pos, k, v):
    items = list(d.items())
    items.insert(pos, (k, v))
    return dict(items)


def one_edit(rng, play):
    """(kind, edited play) — one change/insert/delete/reorder/re-nest/retype/crafted-collision edit"""
    paths = list(paths_of(play))
    for _ in range(20):
        path = rng.choice(paths)
        node = get_at(play, path)
        kind = rng.choice(["chg", "chg", "ins", "del", "swap", "wrap", "unwrap", "split", "merge", "stringify", "rekey", "move"])
        if kind == "chg" and not isinstance(node, (dict, list)):
            return kind, rebuild(play, path, lambda n: retype(rng, n) if rng.random() < 0.7 else gen_scalar(rng))
        if kind == "ins" and isinstance(node, list):
            i = rng.randrange(len(node) + 1)
            nv = rng.choice(node) if node and rng.random() < 0.3 else gen_value(rng, 1)
            return kind, rebuild(play, path, lambda n: n[:i] + [nv] + n[i:])
        if kind == "ins" and isinstance(node, dict):
            i = rng.randrange(len(node) + 1)
            k, nv = gen_key(rng), gen_value(rng, 1)
            if canon(k) not in [canon(x) for x in node] and k not in node:
                return kind, rebuild(play, path, lambda n: insert_pairs(n, i, k, nv))
        if kind == "del" and path:
            return kind, rebuild(play, path, lambda n: DROP)
        if kind == "swap" and isinstance(node, list) and len(node) >= 2:
            i, j = rng.sample(range(len(node)), 2)

            def sw(n):
                n = list(n)
                n[i], n[j] = n[j], n[i]
                return n
            return kind, rebuild(play, path, sw)
        if kind == "swap" and isinstance(node, dict) and len(node) >= 2:
            i, j = rng.sample(range(len(node)), 2)

            def swd(n):
                it = list(n.items())
                it[i], it[j] = it[j], it[i]
                return dict(it)
            return kind, rebuild(play, path, swd)
        if kind == "wrap" and path:
            w = rng.choice(["l", "m", "l2"])
            k = gen_key(rng)
            return kind, rebuild(play, path, lambda n: [n] if w == "l" else {k: n} if w == "m" else [[n]])
        if kind == "unwrap" and path and isinstance(node, list) and len(node) == 1:
            return kind, rebuild(play, path, lambda n: n[0])
        if kind == "unwrap" and path and isinstance(node, dict) and len(node) == 1:
            return kind, rebuild(play, path, lambda n: list(n.values())[0])
        if kind == "split" and isinstance(node, list) and len(node) >= 2:
            i = rng.randrange(1, len(node))
            return kind, rebuild(play, path, lambda n: rng.choice([n[:i] + [n[i:]], [n[:i]] + n[i:], [n[:i], n[i:]]]))
        if kind == "split" and isinstance(node, dict) and len(node) >= 2:
            it = list(node.items())
            i = rng.randrange(1, len(it))
            k = gen_key(rng)
            if k not in dict(it[:i]):
                return kind, rebuild(play, path, lambda n: dict(it[:i] + [(k, dict(it[i:]))]))
        if kind == "merge" and isinstance(node, list) and len(node) >= 2:
            # two neighbours become ONE string that spells both (the classic delimiter collision)
            i = rng.randrange(len(node) - 1)
            a, b = text_of(node[i]), text_of(node[i + 1])
            glued = rng.choice([a + ", " + b, a[1:] + ", " + b[:-1], a[1:-1] + "', '" + b[1:-1], a.strip("'\"") + '", "' + b.strip("'\"")])
            return kind, rebuild(play, path, lambda n: n[:i] + [glued] + n[i + 2:])
        if kind == "merge" and isinstance(node, dict) and len(node) >= 2:
            it = list(node.items())
            i = rng.randrange(len(it) - 1)
            (k1, v1), (k2, v2) = it[i], it[i + 1]
            raw = lambda k: k if isinstance(k, str) else str(k)
            forms = [
                # the raw-key collision of the unfixed serializer: key text re-creates the entry boundary
                (raw(k1) + "', " + text_of(v1) + "), ('" + raw(k2), v2),
                (text_of(k1)[1:-1] + "', " + text_of(v1) + "), ('" + text_of(k2)[1:-1], v2),
                (text_of(k1) + ", " + text_of(v1) + "), (" + text_of(k2), v2),
                (k1, text_of(v1) + "), (" + text_of(k2) + ", " + text_of(v2)),
                (k1, text_of(v1)[1:-1] + "'), ('" + raw(k2) + "', '" + text_of(v2)[1:-1]),
            ]
            nk, nv = rng.choice(forms)
            if nk not in dict(it[:i] + it[i + 2:]):
                return kind, rebuild(play, path, lambda n: dict(it[:i] + [(nk, nv)] + it[i + 2:]))
        if kind == "stringify" and path:
            t = text_of(node)
            return kind, rebuild(play, path, lambda n: rng.choice([t, t[1:-1], t.replace("\\", ""), "[" + t + "]"]))
        if kind == "rekey" and path and path[-1][0] == "k":
            parent = get_at(play, path[:-1])
            old = path[-1][2]
            new = retype(rng, old) if rng.random() < 0.7 else gen_key(rng)
            if isinstance(new, (dict, list)) or new in parent:
                continue
            return kind, rebuild(play, path[:-1], lambda n: dict((new if canon(k) == canon(old) else k, v) for k, v in n.items()))
        if kind == "move" and len(path) >= 1 and path[-1][0] == "k":
            # re-nest: the entry leaves its mapping and goes into a sibling mapping (or one level up)
            parent = get_at(play, path[:-1])
            sibs = [k for k, v in parent.items() if isinstance(v, dict) and canon(k) != path[-1][1]]
            if sibs:
                tgt = rng.choice(sibs)
                key = path[-1][2]
                if key not in parent[tgt]:
                    def mv(n):
                        out = {}
                        for k, v in n.items():
                            if canon(k) == path[-1][1]:
                                continue
                            out[k] = dict(list(v.items()) + [(key, node)]) if canon(k) == canon(tgt) else v
                        return out
                    return kind, rebuild(play, path[:-1], mv)
    return "none", play


def touches_excluded_only(play, edited):
    return spec_core(play) == spec_core(edited) and spec_core(play)[0] == "core" and canon(play) != canon(edited)


# ------------------------------------------------------------------ large plays: every byte is under the digest

LARGE_FIXED = [4095, 4096, 4097, 8191, 8192, 8193, 8194, 16382, 16383, 16384, 16385, 16386,
               65534, 65535, 65536, 65537, 65538]
PLAINCH = "abcdefghijklmnopqrstuvwxyz0123456789 -_=/.;|&$(){}[]<>:,+*#@!%^~ABCDEFXYZ"   # nothing the serializer escapes or quotes around
PLAIN_RE = re.compile(r"^S\d{5}:")


def gen_large_play(rng, target):
    """a play whose serialisation after exclusion is `target` bytes (long inline scripts, many tasks, long lists);
    strings that start with S<5 digits>: are unique, ASCII and printed verbatim, so a serialised offset inside
    one of them maps back to one character of the play"""
    ctr = [0]

    def plain(n):
        ctr[0] += 1
        head = "S%05d:" % ctr[0]
        return head + "".join(rng.choices(PLAINCH, k=max(0, n - len(head))))

    def est(o):
        return len(PlaybookSerializer.serialize(o).encode("utf-8")) + 2

    shape = rng.choice(["script", "tasks", "lists", "mixed"])
    p = {"name": plain(14),
         "hosts": rng.choice(["all", ["a", "b"], {"web": "w1"}]),
         "become": rng.random() < 0.5,
         "vars": {EXCL: "/hosts,/vars/insights_signature", SIG: "UExBQ0VIT0xERVI=",
                  "insights_remediation": plain(24), "note": "\u00e9\n'\"\\ \u200b \u20ac"},
         "tasks": [{"name": plain(10), "shell": plain(40)}]}
    size = est({k: v for k, v in p.items() if k != "hosts"})
    room = target - size - 64
    if shape == "script":
        p["tasks"].append({"name": plain(10), "shell": plain(max(8, room - 60)), "when": "x is defined"})
    else:
        while room > 120:
            kind = shape if shape != "mixed" else rng.choice(["tasks", "lists", "ints"])
            if kind == "tasks":
                t = {"name": plain(rng.randint(8, 30)), rng.choice(["shell", "command"]): plain(min(room, rng.randint(60, 700)))}
                if rng.random() < 0.4:
                    t["register"] = plain(9)
                if rng.random() < 0.3:
                    t["args"] = {"chdir": plain(12), "creates": "/tmp/\u00fc", 7: None}
            elif kind == "lists":
                n = max(1, min(room // 20, rng.randint(5, 80)))
                t = {"name": plain(9), "yum": {"name": [plain(rng.randint(8, 16)) for _ in range(n)], "state": "present"}}
            else:
                n = max(1, min(room // 8, rng.randint(10, 200)))
                t = {"name": plain(9), "set_fact": {"ports": [rng.randrange(-9, 70000) for _ in range(n)], "on": True, "off": None}}
            e = est(t)
            if e > room:
                break
            p["tasks"].append(t)
            room -= e
    # exact length: stretch or shrink the filler (first task's script, ASCII, one byte per character)
    for _ in range(3):
        ans, d, raw = impl_excl(to_ruamel(p))
        if raw is None:
            return p
        delta = target - len(raw)
        if delta == 0:
            break
        f = p["tasks"][0]["shell"]
        if delta > 0:
            p["tasks"][0]["shell"] = f + "".join(rng.choices(PLAINCH, k=delta))
        elif len(f) + delta >= 8:
            p["tasks"][0]["shell"] = f[:len(f) + delta]
        else:
            # shrink the biggest plain string instead
            best = max((pp for pp in paths_of(p) if isinstance(get_at(p, pp), str) and PLAIN_RE.match(get_at(p, pp))),
                       key=lambda pp: len(get_at(p, pp)))
            v = get_at(p, best)
            p = rebuild(p, best, lambda n: v[:max(8, len(v) + delta)])
    return p


def plain_spans(play, tbytes):
    """[(start, end, path)] byte ranges of the serialisation that are the verbatim content of one plain string value
    outside the excluded elements"""
    spans = []
    for pp in paths_of(play):
        if pp and pp[0][2] == "hosts":
            continue
        v = get_at(play, pp)
        if isinstance(v, str) and PLAIN_RE.match(v) and not (pp and pp[-1][0] == "k" and False):
            needle = b"'" + v.encode("ascii") + b"'"
            i = tbytes.find(needle)
            if i >= 0 and tbytes.find(needle, i + 1) < 0:
                spans.append((i + 1, i + 1 + len(v), pp))
    spans.sort()
    return spans


def locate(spans, k, slack=24):
    """(offset, path, index in the string) of the covered offset nearest to k"""
    best = None
    for a, b, pp in spans:
        if a <= k < b:
            return k, pp, k - a
        c = a if k < a else b - 1
        if abs(c - k) <= slack and (best is None or abs(c - k) < abs(best[0] - k)):
            best = (c, pp, c - a)
    return best


def edit_offsets(rng, L, quick):
    """serialised offsets to edit, most telling first: at and around multiples of 4096/4097 (first, last, then the
    others), the ends, multiples of 512/1024, random positions; the caller stops after its budget"""
    def trio(m):
        return [m, m - 1, m + 1]
    first, rest, small = [], [], []
    for B in (4096, 4097):
        ms = list(range(B, L + 2, B))
        for m in ms[:1] + ms[-1:]:
            first += trio(m)
        mid = ms[1:-1]
        rng.shuffle(mid)
        for m in mid:
            rest += trio(m)
    for B in (512, 1024):
        for m in range(B, L + 2, B):
            if m % 4096:
                small += trio(m)
    ends = [1, 63, 64, 65, L - 65, L - 64, L - 2]
    rnd = [rng.randrange(L) for _ in range(6 if quick else 40)]
    if quick:
        # interleave so that a small budget still sees every class
        rng.shuffle(small)
        rest_it, small_it = iter(rest), iter(small)
        mixed = []
        for _ in range(max(len(rest), len(small))):
            for it in (rest_it, small_it, small_it):
                v = next(it, None)
                if v is not None:
                    mixed.append(v)
        order = first + ends + rnd + mixed
    else:
        order = first + ends + rnd + rest + small
    seen, out = set(), []
    for k in order:
        if 0 <= k < L and k not in seen:
            seen.add(k)
            out.append(k)
    return out


def path_json(pp):
    return [[st[0], st[2]] for st in pp]


def set_in(obj, pj, value):
    """assign inside a (ruamel or plain) object along a json path; returns the old value"""
    for kind, key in pj[:-1]:
        obj = obj[key]
    old = obj[pj[-1][1]]
    obj[pj[-1][1]] = value
    return old


def large_edit_check(obj, pj, idx, ch, tbytes, offset, base_digest):
    """edit one character in place, ask verify_play, undo; -> (problem or None, digest hex)"""
    cur = obj
    for kind, key in pj:
        cur = cur[key]
    old = str(cur)
    set_in(obj, pj, old[:idx] + ch + old[idx + 1:])
    try:
        a, d = impl_vplay(obj)
    finally:
        set_in(obj, pj, old)
    want = hashlib.sha256(tbytes[:offset] + ch.encode("ascii") + tbytes[offset + 1:]).digest()
    if a != "ok":
        return "verify_play of the edited play ended in %r" % a, None
    if d == base_digest:
        return "the digest shown to GPG did not change", d
    if d != want:
        return "the digest shown to GPG is not SHA-256 of the whole serialisation", d
    return None, d


def run_large(chk, quick):
    rng = chk.rng
    targets = list(LARGE_FIXED if not quick else LARGE_FIXED[:12] + [65535, 65536, 65537])
    targets += [rng.randrange(3072, 40960) for _ in range(6 if quick else 120)]
    targets += [rng.choice([64, 512, 4096]) * rng.randrange(8, 80) + rng.choice([-9, -8, -1, 0, 1, 55, 56]) for _ in range(4 if quick else 60)]
    plays = [gen_large_play(rng, max(3072, min(t, 66000))) for t in targets]
    out = run_driver("C18", ["vplay\t-\t" + wire(p) for p in plays])
    impl, model, vcases, vimpl, vlines = [], [], [], [], []
    for t, p, m in zip(targets, plays, out):
        f = m.split("\t")
        if f[0] != "ok":
            impl.append("?")
            model.append(m)
            continue
        text = dec(f[1])
        tbytes = text.encode("utf-8")
        dm = hashlib.sha256(tbytes).digest()
        L = len(tbytes)
        chk.count("large:len=%s" % ("target" if L == t else "off-target"))
        chk.count("large:%dKiB" % (L // 1024) if L < 8192 else "large:%dKiB+" % (8 * (L // 8192)))
        chk.case(("large", canon(p)), True)
        obj = to_ruamel(p)
        ans, d1, raw = impl_excl(obj)
        a2, d2 = impl_vplay(obj)
        hx = lambda d: binascii.hexlify(d).decode() if d else "-"
        impl.append("%s\t%s\t%s\t%s" % (ans.split("\t")[0], hx(d1), a2, hx(d2)))
        model.append("ok\t%s\tok\t%s" % (hx(dm), hx(dm)))
        case = {"op": "large-digest", "play": to_json(p), "bytes": L}
        if d1 is not None and d1 != hashlib.sha256(raw).digest():
            chk.failure("hash_play is not SHA-256 of the %d serialised bytes" % len(raw), case)
        if d1 is not None and d2 is not None and d1 != d2:
            chk.failure("verify_play shows GPG a digest other than hash_play(serialize_play(exclude(play))) on a %d-byte play" % L, case)
        if d2 is not None and d2 != dm:
            chk.failure("the digest shown to GPG is not SHA-256 (computed in one piece) of the %d-byte serialisation" % L, case)
        if d2 is None:
            continue
        # (b) sensitivity at offsets spread over the whole serialisation
        spans = plain_spans(p, tbytes)
        done = set()
        budget = max(10, min(40, 250000 // L)) if quick else 10 ** 9     # an edit of a 64 KiB play costs ~50 ms
        for k in edit_offsets(rng, L, quick):
            if len(done) >= budget:
                break
            loc = locate(spans, k)
            if loc is None:
                chk.count("large:offset-not-in-a-plain-string")
                continue
            if loc[0] in done:
                continue
            off, pp, idx = loc
            done.add(off)
            oldc = chr(tbytes[off])
            ch = "x" if oldc != "x" else "y"
            pj = path_json(pp)
            problem, _ = large_edit_check(obj, pj, idx, ch, tbytes, off, d2)
            chk.count("large:edits")
            for B in (4097, 4096, 1024, 512):
                if min(off % B, B - off % B) <= 1:
                    chk.count("large:edit-at-multiple-of-%d" % B)
                    break
            if problem:
                chk.failure("large play (%d bytes): one character changed at serialised offset %d, %s" % (L, off, problem),
                            {"op": "large-edit", "play": to_json(p), "path": pj, "index": idx, "new": ch, "offset": off})
        # verify() end to end: the signature and the revocation entry are made from the digest computed in one piece
        revoked = rng.random() < 0.5
        p2 = copy.deepcopy(p)
        p2["vars"][SIG] = fake_sign(dm)
        rdoc = {"name": "revocation list", "timestamp": 1632510092,
                "vars": {EXCL: "/vars/insights_signature", SIG: "UExBQ0VIT0xERVI="},
                "revoked_playbooks": [{"name": "other", "hash": hashlib.sha256(b"other").hexdigest()}]}
        if revoked:
            rdoc["revoked_playbooks"].append({"name": "big", "hash": hx(dm)})
        _, rd, rraw = impl_excl(to_ruamel(rdoc))
        rdoc["vars"][SIG] = fake_sign(rd)
        doc_bytes = dump_yaml([to_ruamel(rdoc)]).encode("utf-8")
        rplain = from_ruamel(pv.yaml.load(doc_bytes)[0])
        a = impl_verify(to_ruamel(p2), doc_bytes)
        enc_tab = lambda tab: ",".join(enc(x) + ":" + enc(y) for x, y in tab) if tab else "-"
        sigtab = [(p2["vars"][SIG], text), (rdoc["vars"][SIG], rraw.decode("utf-8"))]
        hashtab = [(hashlib.sha256(b"other").hexdigest(), "other")] + ([(hx(dm), text)] if revoked else [])
        if not quick or L <= 17000 or L == 65536:      # the model side of the biggest plays costs seconds of driver time
            vlines.append("verify\t-\t%s\t%s\t%s\t%s" % (enc_tab(sigtab), enc_tab(hashtab), wire(rplain), wire(p2)))
            vcases.append({"bytes": L, "revoked": revoked})
            vimpl.append(a)
        chk.count("large:verify:%s/%s" % ("revoked" if revoked else "clean", a))
        if a == "ok" and revoked:
            chk.failure("verify() accepted a %d-byte play whose SHA-256 is on the revocation list" % L,
                        {"op": "large-digest", "play": to_json(p), "bytes": L})
    chk.compare("large plays: hash_play and digest shown to GPG = sha256(model serialisation)",
                [{"bytes": t} for t in targets], impl, model)
    if vlines:
        chk.compare("large plays: verify (signature and revocation made from the one-piece digest)",
                    vcases, vimpl, run_driver("C18", vlines))


# ------------------------------------------------------------------ histories of calls in one process

VLOG = "insights.client.apps.ansible.playbook_verifier"
LEVELS = ["default", "default", "root-debug", "verifier-debug", "all-debug"]
logging.getLogger().addHandler(logging.NullHandler())      # DEBUG records of the verifier go nowhere


def set_levels(level):
    root, v = logging.getLogger(), logging.getLogger(VLOG)
    old = (root.level, v.level)
    if level in ("root-debug", "all-debug"):
        root.setLevel(logging.DEBUG)
    if level in ("verifier-debug", "all-debug"):
        v.setLevel(logging.DEBUG)
    return old


def restore_levels(old):
    logging.getLogger().setLevel(old[0])
    logging.getLogger(VLOG).setLevel(old[1])


def do_call(call, level=None):
    """one call of a public entry point -> {'verdict': ..., 'seen': [hex digests GPG was shown, in order]}"""
    obj = to_ruamel(call["play"]) if "play" in call else None
    doc = call["doc"].encode("utf-8") if call.get("doc") is not None else None
    old = set_levels(level or "default")
    del FakeGPG.seen[:]
    try:
        with Patched(doc):
            if call["entry"] == "text":
                o = text_outcome(call["text"])
                verdict = o[0] + ":" + (",".join(o[1]) if o[0] == "digests" else o[1])
            elif call["entry"] == "verify":
                r = pv.verify(obj)
                verdict = "ok" if r is obj else "returned-other-object"
            elif call["entry"] == "verify_play":
                res, d = pv.verify_play(obj)
                verdict = ("valid" if res.valid else "invalid") + ":" + binascii.hexlify(d).decode()
            else:
                cleaned = pv.exclude_dynamic_elements(obj)
                res, d = pv.execute_verification(cleaned, obj["vars"][SIG])
                verdict = ("valid" if res.valid else "invalid") + ":" + binascii.hexlify(d).decode()
    except pv.PlaybookVerificationError:
        verdict = "verr"
    except Exception as e:
        verdict = "crash"
    finally:
        restore_levels(old)
    return {"verdict": verdict, "seen": [binascii.hexlify(x).decode() for x in FakeGPG.seen]}


class RefServer(object):
    """
    The reference for "the same call as the FIRST call of a fresh process": a child forked before this process
    made any call into the verifier; it forks a grandchild per call, so every reference call starts from the
    state right after import.  Reference calls run at the default logging level.
    """

    def __init__(self):
        r1, w1 = os.pipe()
        r2, w2 = os.pipe()
        self.pid = os.fork()
        if self.pid == 0:
            code = 0
            try:
                os.close(w1)
                os.close(r2)
                self._serve(os.fdopen(r1, "rb"), os.fdopen(w2, "wb"))
            except BaseException:
                code = 1
            finally:
                os._exit(code)
        os.close(r1)
        os.close(w2)
        self.w, self.r = os.fdopen(w1, "wb"), os.fdopen(r2, "rb")

    @staticmethod
    def _serve(rd, wr):
        while True:
            try:
                calls = pickle.load(rd)
            except EOFError:
                return
            out = []
            for call in calls:
                a, b = os.pipe()
                pid = os.fork()
                if pid == 0:
                    try:
                        os.close(a)
                        with os.fdopen(b, "wb") as f:
                            pickle.dump(do_call(call), f)
                    finally:
                        os._exit(0)
                os.close(b)
                with os.fdopen(a, "rb") as f:
                    try:
                        out.append(pickle.load(f))
                    except EOFError:
                        out.append({"verdict": "reference-child-died", "seen": []})
                os.waitpid(pid, 0)
            pickle.dump(out, wr)
            wr.flush()

    def run(self, calls):
        pickle.dump(calls, self.w)
        self.w.flush()
        return pickle.load(self.r)

    def close(self):
        try:
            self.w.close()
            self.r.close()
            os.waitpid(self.pid, 0)
        except Exception:
            pass


def module_containers():
    """sizes of the module-level containers of the verifier package (not the vendored libraries): module globals,
    class attributes, mutable default arguments, lru_cache sizes"""
    out = {}
    kinds = (dict, list, set, frozenset, bytearray, collections.deque)
    for name, mod in list(sys.modules.items()):
        if mod is None or not name.startswith(VLOG) or ".contrib" in name:
            continue
        for k, v in list(vars(mod).items()):
            if k.startswith("__"):
                continue
            if isinstance(v, kinds):
                out["%s.%s" % (name, k)] = len(v)
            elif isinstance(v, type) and getattr(v, "__module__", None) == name:
                for ck, cv in list(vars(v).items()):
                    if isinstance(cv, kinds) and not ck.startswith("__"):
                        out["%s.%s.%s" % (name, k, ck)] = len(cv)
            elif callable(v) and getattr(v, "__module__", None) == name:
                if hasattr(v, "cache_info"):
                    out["%s.%s<lru_cache>" % (name, k)] = v.cache_info().currsize
                f = getattr(v, "__wrapped__", v)
                for i, dv in enumerate(getattr(f, "__defaults__", None) or ()):
                    if isinstance(dv, kinds):
                        out["%s.%s<default %d>" % (name, k, i)] = len(dv)
                for dk, dv in (getattr(f, "__kwdefaults__", None) or {}).items():
                    if isinstance(dv, kinds):
                        out["%s.%s<default %s>" % (name, k, dk)] = len(dv)
                for dk, dv in list(getattr(f, "__dict__", {}).items()):
                    if isinstance(dv, kinds):
                        out["%s.%s.%s" % (name, k, dk)] = len(dv)
    return out


def gen_signed_play(rng):
    """a play that verifies: good exclusion list covering the signature, signed with the stand-in for its own digest"""
    for _ in range(30):
        p = gen_play(rng)
        if not isinstance(p.get("vars"), dict):
            p["vars"] = {}
        p["vars"][EXCL] = rng.choice(GOOD_EXCL[:7])
        p["vars"][SIG] = "UExBQ0VIT0xERVI="
        for c in spec_requests(p)[1]:
            if len(c) == 1 and c[0] == "hosts":
                p.setdefault("hosts", "all")
            if len(c) == 2 and c[0] == "hosts":
                if not isinstance(p.get("hosts"), dict):
                    p["hosts"] = {}
                p["hosts"].setdefault(c[1], "w")
            if len(c) == 2 and c[0] == "vars":
                p["vars"].setdefault(c[1], "d")
        want = spec_core(p)
        if want[0] != "core":
            continue
        p2 = copy.deepcopy(p)
        p2["vars"][SIG] = "x"
        if spec_core(p2) != want:
            continue            # the signature itself is under the digest: nothing can sign this play
        return p
    return None


def gen_history(rng, sign):
    """2-6 calls over a small universe: genuine A and B, tampered A re-using A's signature, A again, A changed only
    inside excluded elements, B's signature on A, an unsigned play; one revocation document for the whole history
    (as in one process) that may list A's or B's digest.  `sign(play) -> (signed play, digest, text)`."""
    A = sign(gen_signed_play(rng))
    B = sign(gen_signed_play(rng))
    if A is None or B is None:
        return None
    (pa, da, ta), (pb, db, tb) = A, B
    uni = {"A": pa, "B": pb}
    for _ in range(10):
        k, q = one_edit(rng, pa)
        if isinstance(q, dict) and spec_core(q) != spec_core(pa) and isinstance(q.get("vars"), dict) and q["vars"].get(SIG) == pa["vars"][SIG]:
            uni["T"] = q            # tampered outside the excluded elements, A's signature kept
            break
    for _ in range(10):
        k, q = one_edit(rng, pa)
        if isinstance(q, dict) and touches_excluded_only(pa, q) and isinstance(q.get("vars"), dict) and q["vars"].get(SIG) == pa["vars"][SIG]:
            uni["X"] = q            # only excluded elements changed
            break
    q = copy.deepcopy(pa)
    q["vars"][SIG] = pb["vars"][SIG]
    uni["AsigB"] = q
    q = copy.deepcopy(pb)
    q["vars"][SIG] = pa["vars"][SIG]
    uni["BsigA"] = q
    q = copy.deepcopy(pa)
    del q["vars"][SIG]
    uni["U"] = q
    mode = rng.choice(["clean", "clean", "revA", "revA", "revB", "none"])
    entries = [{"name": "x", "hash": hashlib.sha256(b"other-%d" % rng.randrange(10 ** 6)).hexdigest()} for _ in range(rng.choice([0, 1, 2]))]
    if mode == "revA":
        entries.insert(rng.randrange(len(entries) + 1), {"name": "A", "hash": binascii.hexlify(da).decode()})
    if mode == "revB":
        entries.insert(rng.randrange(len(entries) + 1), {"name": "B", "hash": binascii.hexlify(db).decode()})
    rdoc = {"name": "revocation list", "timestamp": 1632510092,
            "vars": {EXCL: "/vars/insights_signature", SIG: "UExBQ0VIT0xERVI="}}
    if mode != "none":
        rdoc["revoked_playbooks"] = entries
    names = list(uni)
    tpl = rng.choice([["A", "T"], ["A", "T", "A"], ["A", "A"], ["T", "A", "T"], ["B", "A", "T"], ["A", "B", "T", "X"],
                      ["A", "BsigA", "B"], ["B", "A", "B"], ["A", "X", "T", "A"], ["A", "U", "A"], None, None])
    if tpl is None:
        tpl = [rng.choice(names) for _ in range(rng.randint(2, 6))]
    tpl = [n for n in tpl if n in uni]
    if len(tpl) < 2:
        tpl = ["A", "A"]
    calls = []
    for n in tpl:
        calls.append({"what": n, "entry": rng.choice(["verify", "verify", "verify", "verify_play", "verify_play", "execute_verification"]),
                      "play": uni[n], "level": rng.choice(LEVELS)})
    return {"calls": calls, "rdoc": rdoc, "mode": mode, "texts": {binascii.hexlify(da).decode(): ta, binascii.hexlify(db).decode(): tb},
            "signed_core": {pa["vars"][SIG]: spec_core(pa), pb["vars"][SIG]: spec_core(pb)},
            "revoked_digest": da if mode == "revA" else db if mode == "revB" else None}


def run_history(chk, h, ref, doc_text):
    """run the calls of one history in this process, compare each with the fresh-process reference; -> per-call results"""
    calls = [dict(c, doc=doc_text) for c in h["calls"]]
    uniq, keys = [], []
    for c in calls:             # the same call twice in a history has one reference
        k = (c["entry"], canon(c["play"]))
        if k not in keys:
            keys.append(k)
            uniq.append({"entry": c["entry"], "play": c["play"], "doc": doc_text})
    got_ref = ref.run(uniq)
    refs = [got_ref[keys.index((c["entry"], canon(c["play"])))] for c in calls]
    results = []
    shown = {"op": "history", "doc": doc_text,
             "calls": [{"what": c.get("what"), "entry": c["entry"], "level": c["level"], "play": to_json(c["play"])} for c in calls]}
    for i, (c, want) in enumerate(zip(calls, refs)):
        before = module_containers()
        got = do_call(c, c["level"])
        after = module_containers()
        results.append(got)
        where = "call %d of %d (%s %s, logging %s, after %s)" % (i + 1, len(calls), c["entry"], c.get("what", "?"), c["level"],
                                                               "+".join(x.get("what", "?") for x in calls[:i]) or "nothing")
        if got["verdict"] != want["verdict"]:
            chk.failure("%s ended in %s, the same call as the first call of a fresh process ends in %s"
                        % (where, got["verdict"][:40], want["verdict"][:40]), shown)
        elif got["seen"] != want["seen"]:
            chk.failure("%s: GPG was shown %s, in a fresh process it is shown %s" % (
                where, [x[:12] for x in got["seen"]] or "nothing", [x[:12] for x in want["seen"]] or "nothing"), shown)
        for k, n in after.items():
            if n > before.get(k, 0):
                chk.failure("%s: module-level container %s grew from %d to %d entries" % (where, k, before.get(k, 0), n), shown)
    return results


def run_histories(chk, ref, quick):
    rng = chk.rng
    n_hist = 60 if quick else 2500

    def sign(p):
        if p is None:
            return None
        ans, digest, raw = impl_excl(to_ruamel(p))
        if digest is None:
            return None
        p = copy.deepcopy(p)
        p["vars"][SIG] = fake_sign(digest)
        return p, digest, raw.decode("utf-8")
    cases, impl, lines, expect = [], [], [], []
    for _ in range(n_hist):
        h = gen_history(rng, sign)
        if h is None:
            continue
        rdoc = h["rdoc"]
        _, rd, rraw = impl_excl(to_ruamel(rdoc))
        rdoc["vars"][SIG] = fake_sign(rd)
        doc_text = dump_yaml([to_ruamel(rdoc)])
        try:
            rplain = from_ruamel(pv.yaml.load(doc_text)[0])
        except Exception:
            continue
        texts = dict(h["texts"])
        texts[binascii.hexlify(rd).decode()] = rraw.decode("utf-8")
        results = run_history(chk, h, ref, doc_text)
        chk.case(("history", tuple((c["what"], c["entry"], c["level"]) for c in h["calls"]), canon(h["calls"][0]["play"])), True)
        chk.count("history:len%d" % len(h["calls"]))
        chk.count("history:revocation-%s" % h["mode"])
        enc_tab = lambda tab: ",".join(enc(x) + ":" + enc(y) for x, y in tab) if tab else "-"
        for i, (c, got) in enumerate(zip(h["calls"], results)):
            q = c["play"]
            chk.count("history:%s/%s/%s" % (c["what"], c["entry"], got["verdict"].split(":")[0]))
            chk.count("history:level-" + c["level"])
            sg = q.get("vars", {}).get(SIG) if isinstance(q.get("vars"), dict) else None
            accepted = got["verdict"] == "ok" or got["verdict"].startswith("valid:")
            shown = {"op": "history", "doc": doc_text,
                     "calls": [{"what": x["what"], "entry": x["entry"], "level": x["level"], "play": to_json(x["play"])} for x in h["calls"]]}
            # the property itself, per call
            if accepted and h["signed_core"].get(sg) != spec_core(q):
                chk.failure("call %d (%s %s after %s): a play was accepted with a signature made for a play that differs outside the excluded elements"
                            % (i + 1, c["entry"], c["what"], "+".join(x["what"] for x in h["calls"][:i]) or "nothing"), shown)
            dq = impl_excl(to_ruamel(q))[1]
            if c["entry"] == "verify" and got["verdict"] == "ok" and h["revoked_digest"] is not None and dq == h["revoked_digest"]:
                chk.failure("call %d (verify %s, logging %s): a play whose digest is on the revocation list was accepted" % (i + 1, c["what"], c["level"]), shown)
            # GPG must have been shown THIS play's digest whenever the play got as far as the signature check
            if dq is not None and not signature_missing(q) and bad_sigs(q) == "-" and isinstance(sg, str) \
                    and got["verdict"] not in ("crash",) and not (c["entry"] == "verify" and len(got["seen"]) == 0):
                if binascii.hexlify(dq).decode() not in got["seen"]:
                    chk.failure("call %d (%s %s after %s): GPG was never shown the digest of this play (shown: %s)"
                                % (i + 1, c["entry"], c["what"], "+".join(x["what"] for x in h["calls"][:i]) or "nothing",
                                   [x[:12] for x in got["seen"]] or "nothing"), shown)
            # correspondence with the (stateless) model, call by call
            if dq is not None:
                texts.setdefault(binascii.hexlify(dq).decode(), None)
            if c["entry"] == "verify":
                tt = dict((k, v) for k, v in texts.items() if v is not None)
                if dq is not None and binascii.hexlify(dq).decode() not in tt:
                    tt[binascii.hexlify(dq).decode()] = impl_excl(to_ruamel(q))[2].decode("utf-8")
                sigtab = []
                for d in (q, rplain):
                    v = d.get("vars") if isinstance(d, dict) else None
                    s_ = v.get(SIG) if isinstance(v, dict) else None
                    if isinstance(s_, str):
                        try:
                            b = base64.b64decode(s_)
                        except Exception:
                            continue
                        hx_ = b[8:].decode("ascii", "replace")
                        if b.startswith(b"FAKESIG:") and hx_ in tt:
                            sigtab.append((s_, tt[hx_]))
                hashtab = [(e["hash"], tt[e["hash"]]) for e in (rdoc.get("revoked_playbooks") or []) if e["hash"] in tt]
                lines.append("verify\t%s\t%s\t%s\t%s\t%s" % (bad_sigs(q, rplain), enc_tab(sigtab), enc_tab(hashtab), wire(rplain), wire(q)))
                expect.append(("verify", None))
            else:
                lines.append("vplay\t%s\t%s" % (bad_sigs(q), wire(q)))
                expect.append(("vplay", sg))
            impl.append(got["verdict"])
            cases.append({"history": [x["what"] for x in h["calls"]], "call": i + 1, "entry": c["entry"], "level": c["level"]})
    out = run_driver("C18", lines)
    model = []
    for (kind, sg), a in zip(expect, out):
        if kind == "verify":
            model.append(a)
            continue
        f = a.split("\t")
        if f[0] != "ok":
            model.append(a)
            continue
        hx_ = hashlib.sha256(dec(f[1]).encode("utf-8")).hexdigest()
        valid = False
        try:
            valid = base64.b64decode(sg) == b"FAKESIG:" + hx_.encode("ascii")
        except Exception:
            pass
        model.append(("valid:" if valid else "invalid:") + hx_)
    chk.compare("histories: every call in one process = the stateless model", cases, impl, model)


# ------------------------------------------------------------------ the TEXT entry point (load_playbook_yaml) and unencodable strings

STD = "tag:yaml.org,2002:"
FINDING_COLLTAG = "tag-not-in-digest"
NONSTR_PLAIN = re.compile(r"^([-+]?(0x[0-9a-fA-F_]+|0o[0-7_]+|0b[01_]+|[0-9][0-9_]*)|true|True|TRUE|false|False|FALSE|~|null|Null|NULL|)$")


def compose_docs(text):
    """node graphs of all documents of a YAML text (a parser instance of its own, not the verifier's)"""
    y = _RYAML(typ="safe", pure=True)
    constructor, parser = y.get_constructor_parser(text)
    out = []
    try:
        while constructor.composer.check_node():
            out.append(constructor.composer.get_node())
    finally:
        parser.dispose()
    return out


def _build(node, flags, stack):
    """what a consumer that keeps the LAST value of a repeated key and expands merge keys gets; tags it would not
    know are kept as ('tag', tag, value) so that adding one changes the denotation"""
    if id(node) in stack:
        return ("recursive",)
    if isinstance(node, _rnodes.ScalarNode):
        t, v = node.tag, node.value
        if t == STD + "str":
            return v
        if t == STD + "null":
            return None
        if t == STD + "bool" and v.lower() in ("true", "false"):
            return v.lower() == "true"
        if t == STD + "int":
            w = v.replace("_", "")
            sign = -1 if w.startswith("-") else 1
            w = w.lstrip("+-")
            try:
                if w.lower().startswith("0x"):
                    return sign * int(w[2:], 16)
                if w.lower().startswith("0o"):
                    return sign * int(w[2:], 8)
                if w.lower().startswith("0b"):
                    return sign * int(w[2:], 2)
                return sign * int(w, 10)
            except ValueError:
                pass
        flags["nonplain-type"] = True
        if t not in (STD + "str", STD + "int", STD + "bool", STD + "null", STD + "float", STD + "binary", STD + "timestamp") \
                and NONSTR_PLAIN.match(v) and not node.style:
            flags["tag-on-nonstring-scalar"] = True      # untagged, the same characters are an integer / boolean / null
        return ("tag", t, v)
    stack = stack | {id(node)}
    if isinstance(node, _rnodes.SequenceNode):
        items = [_build(x, flags, stack) for x in node.value]
        if node.tag != STD + "seq":
            flags["collection-tag"] = True
            return ("tag", node.tag, tuple(canon(i) for i in items))
        return items
    own, merged = [], []
    for kn, vn in node.value:
        if kn.tag == STD + "merge":
            flags["merge"] = True
            srcs = vn.value if isinstance(vn, _rnodes.SequenceNode) else [vn]
            for src in srcs:
                if not isinstance(src, _rnodes.MappingNode):
                    flags["bad-merge"] = True
                    continue
                m = _build(src, flags, stack)
                if isinstance(m, dict):
                    merged.append(m)
            continue
        k = _build(kn, flags, stack)
        if isinstance(k, (dict, list)):
            k = ("complex-key", repr(canon(k)))
        own.append((k, _build(vn, flags, stack)))
    out = {}
    for k, v in own:            # a repeated key keeps its LAST value
        out[k] = v
    for m in merged:            # merged keys never override explicit ones, earlier sources win
        for k, v in m.items():
            if k not in out:
                out[k] = v
    if node.tag != STD + "map":
        flags["collection-tag"] = True
        return ("tag", node.tag, canon(out))
    return out


def denote(text):
    """('ok', [plays], flags) or ('unloadable', why, {})"""
    flags = {}
    try:
        docs = compose_docs(text)
    except Exception as e:
        return ("unloadable", type(e).__name__, flags)
    if len(docs) != 1:
        return ("unloadable", "%d documents" % len(docs), flags)
    if isinstance(docs[0], _rnodes.SequenceNode):
        for item in docs[0].value:
            if isinstance(item, _rnodes.MappingNode) and any(kn.tag == STD + "merge" for kn, _ in item.value):
                flags["play-level-merge"] = True
    try:
        top = _build(docs[0], flags, frozenset())
    except RecursionError:
        return ("unloadable", "recursion", flags)
    if not isinstance(top, list):
        return ("unloadable", "not a list of plays", flags)
    return ("ok", top, flags)


def denoted_cores(d):
    if d[0] != "ok":
        return ("unloadable",)
    return tuple(spec_core(p) if isinstance(p, dict) else ("not-a-play", canon(p)) for p in d[1])


def text_outcome(text):
    """what __main__ does with a playbook text, play by play: ('refused', where) or ('digests', (digest shown to GPG, ...))"""
    try:
        plays = pv.load_playbook_yaml(text)
    except pv.PlaybookVerificationError:
        return ("refused", "load")
    except Exception:
        return ("refused", "load-crash")
    if not isinstance(plays, list):
        return ("refused", "not a list")
    ds = []
    for play in plays:
        if not isinstance(play, dict):
            return ("refused", "not a play")
        a, d = impl_vplay(play)
        if a != "ok":
            return ("refused", a)
        ds.append(binascii.hexlify(d).decode())
    return ("digests", tuple(ds))


SIMPLE_LINE = re.compile(r"^(?P<ind>\s*(?:- )?)(?P<key>[A-Za-z_]\w*): (?P<val>[^\s#&*!|>'\"\[\]{}%@`,][^#]*?)$")
BLOCK_LINE = re.compile(r"^(?P<ind>\s*(?:- )?)(?P<key>[A-Za-z_]\w*):$")


def text_edit(rng, text):
    """(kind, edited text) — an edit of the TEXT that does not go through a Python dict"""
    lines = text.split("\n")
    if lines and lines[-1] == "":
        lines.pop()
    m0 = re.match(r"^(\s*)- ", lines[0]) if lines else None
    if not m0:
        return None
    pind = " " * (len(m0.group(1)) + 2)           # indentation of the play's own keys
    simple = [(i, SIMPLE_LINE.match(l)) for i, l in enumerate(lines)]
    simple = [(i, m) for i, m in simple if m]
    blocks = [(i, BLOCK_LINE.match(l)) for i, l in enumerate(lines)]
    blocks = [(i, m) for i, m in blocks if m]

    def ind_of(m):
        return " " * len(m.group("ind"))

    def join(ls):
        return "\n".join(ls) + "\n"
    n = rng.randrange(10 ** 4)
    kind = rng.choice(["dup-after", "dup-after", "dup-before", "dup-play-key", "dup-play-key", "merge-inline", "merge-shadowed",
                       "merge-own-subtree", "merge-own-subtree", "merge-own-signed", "merge-earlier", "alias-value", "second-doc", "second-doc-first",
                       "chain-inline", "chain-inline", "chain-inline", "chain-anchors", "chain-anchors", "chain-list", "chain-task", "chain-vars",
                       "spelling-verbatim", "spelling-verbatim", "spelling-verbatim", "spelling-shorthand", "spelling-handle",
                       "tag-scalar", "tag-scalar", "tag-collection", "style", "style", "style-int", "comment", "comment", "whitespace", "doc-markers"])
    if kind in ("dup-after", "dup-before", "merge-inline", "merge-shadowed", "tag-scalar", "style", "comment", "merge-earlier", "alias-value") and not simple:
        return None
    if kind == "dup-after":
        i, m = rng.choice(simple)
        return kind, join(lines[:i + 1] + ["%s%s: evil-%d" % (ind_of(m), m.group("key"), n)] + lines[i + 1:])
    if kind == "dup-before":
        c = [(i, m) for i, m in simple if "- " not in m.group("ind")]
        if not c:
            return None
        i, m = rng.choice(c)
        return kind, join(lines[:i] + ["%s%s: evil-%d" % (ind_of(m), m.group("key"), n)] + lines[i:])
    if kind == "dup-play-key":
        k = rng.choice(["tasks", "tasks", "name", "vars", "hosts", "become"])
        if k == "tasks":
            extra = [pind + "tasks:", pind + "  - name: evil", pind + "    command: evil-%d" % n]
        elif k == "vars":
            extra = [pind + "vars:", pind + "  insights_signature_exclude: /vars", pind + "  insights_signature: UExB"]
        else:
            extra = [pind + "%s: evil-%d" % (k, n)]
        return kind + ":" + k, join(lines + extra)
    if kind.startswith("spelling-"):
        # a merge key that is not written '<<': the explicit tag, verbatim / shorthand / through a %TAG handle (the text has no '<<' at all)
        if "<<" in text or not simple:
            return None
        VERB = "!<tag:yaml.org,2002:merge>"
        tag = {"spelling-verbatim": VERB, "spelling-shorthand": "!!merge", "spelling-handle": "!y!merge"}[kind]
        deep = rng.choice(["evil_%d: DEEPVAL" % n, "evil_%d: [DEEPVAL, 2]" % n, "pre_tasks: [{command: DEEPVAL}]", "evil_%d: {k: DEEPVAL}" % n])
        form = rng.choice(["inline", "inline", "alias", "list", "chain"])
        key = rng.choice(["k", "anykey", "m%d" % n])
        where = rng.choice(["play", "play", "below"])
        cand = [(i, m) for i, m in simple if (ind_of(m) == pind) == (where == "play")] or simple
        i, m = rng.choice(cand)
        ls = list(lines)
        if form == "inline":
            val = "{%s}" % deep
        elif form == "chain":
            val = "{mid_%d: 1, %s inner: {%s}}" % (n, tag, deep)
        elif form == "list":
            val = "[{first_%d: 1}, {%s}]" % (n, deep)
        else:
            c = [(j, mm) for j, mm in simple if mm.group("key") == "hosts" and mm.group("ind") in (pind, lines[0][:len(pind) - 2] + "- ") and j < i]
            if not c:
                return None
            j, mm = c[0]
            ls[j] = "%shosts: &anc%d {%s}" % (mm.group("ind"), n, deep)
            val = "*anc%d" % n
        ls = ls[:i + 1] + ["%s%s %s: %s" % (ind_of(m), tag, key, val)] + ls[i + 1:]
        if kind == "spelling-handle":
            ls = ["%TAG !y! tag:yaml.org,2002:", "---"] + ls
        return "%s:%s:%s" % (kind, form, where), join(ls)
    if kind.startswith("chain-"):
        # a merged mapping that itself carries a merge key, 2-4 levels deep; DEEPVAL marks a value of the deepest level
        deep = rng.choice(["evil_%d: DEEPVAL" % n, "evil_%d: [DEEPVAL, 2]" % n, "evil_%d: {k: DEEPVAL}" % n, "pre_tasks: [{command: DEEPVAL}]",
                           "evil_%d: DEEPVAL, also_%d: [1]" % (n, n)])
        depth = rng.choice([2, 2, 3, 3, 4])

        def nest(levels, shadow):
            inner = "{%s}" % deep
            for lv in range(levels - 1):
                extra = ""
                if shadow and lv == 0:
                    extra = "evil_%d: shadowed-at-level-%d, " % (n, lv)      # an intermediate level sets the deepest key itself
                elif rng.random() < 0.4:
                    extra = "mid_%d_%d: %s, " % (n, lv, rng.choice(["1", "[a]", "{b: c}"]))
                inner = "{%s<<: %s}" % (extra, inner)
            return inner
        shadow = rng.random() < 0.25
        if kind in ("chain-inline", "chain-task", "chain-vars"):
            if kind == "chain-inline":
                where = [(i, m) for i, m in simple if ind_of(m) == pind] or simple
            elif kind == "chain-task":
                where = [(i, m) for i, m in simple if len(ind_of(m)) > len(pind) + 2]
            else:
                where = [(i, m) for i, m in simple if m.group("key") in ("insights_signature_exclude", "dyn")]
            if not where:
                return None
            i, m = rng.choice(where)
            return "%s:%d%s" % (kind, depth, ":shadow" if shadow else ""), join(lines[:i + 1] + ["%s<<: %s" % (ind_of(m), nest(depth, shadow))] + lines[i + 1:])
        c = [(i, m) for i, m in simple if m.group("key") == "hosts" and m.group("ind") in (pind, lines[0][:len(pind) - 2] + "- ")]
        if not c:
            return None
        i, m = c[0]
        ls = list(lines)
        if kind == "chain-anchors":
            # the chain runs through anchors that sit in the excluded hosts element: c <- b <- a, the play merges a
            names = ["c%d" % n, "b%d" % n, "a%d" % n][3 - min(depth, 3):]
            parts = ["%s: &%s {%s}" % (names[0], names[0], deep)]
            for prev, cur in zip(names, names[1:]):
                parts.append("%s: &%s {<<: *%s%s}" % (cur, cur, prev, ", mid_%s: 1" % cur if rng.random() < 0.5 else ""))
            ls[i] = "%shosts: {%s}" % (m.group("ind"), ", ".join(parts))
            later = [(j, mm) for j, mm in simple if j > i and len(ind_of(mm)) > len(pind) + 2]
            if later and rng.random() < 0.4:
                j, mm = rng.choice(later)
                return "%s:%d:task" % (kind, len(names)), join(ls[:j + 1] + ["%s<<: *%s" % (ind_of(mm), names[-1])] + ls[j + 1:])
            return "%s:%d" % (kind, len(names)), join(ls + ["%s<<: *%s" % (pind, names[-1])])
        # chain-list: a list of merges mixing an alias with an inline mapping that merges another alias
        ls[i] = "%shosts: {a: &a%d {first_%d: 1, evil_%d: from-a}, b: &b%d {%s}}" % (m.group("ind"), n, n, n, n, deep)
        form = rng.choice(["[*a%d, {<<: *b%d}]", "[{<<: *b%d}, *a%d]", "[{<<: {<<: *b%d}}, *a%d]"])
        form = form % ((n, n))
        return "%s" % kind, join(ls + ["%s<<: %s" % (pind, form)])
    if kind == "merge-inline":
        i, m = rng.choice(simple)
        return kind, join(lines[:i + 1] + ["%s<<: {evil_%d: true}" % (ind_of(m), n)] + lines[i + 1:])
    if kind == "merge-shadowed":      # every merged key is already set explicitly: the play is the same
        i, m = rng.choice(simple)
        return kind, join(lines[:i + 1] + ["%s<<: {%s: evil}" % (ind_of(m), m.group("key"))] + lines[i + 1:])
    if kind == "merge-own-subtree":   # the anchor sits in an excluded element of the play it is merged into
        c = [(i, m) for i, m in simple if m.group("key") == "hosts" and m.group("ind") in (pind, lines[0][:len(pind) - 2] + "- ")]
        if not c:
            return None
        i, m = c[0]
        new = "%shosts: &anc {ignore_errors: true, evil_%d: 1}" % (m.group("ind"), n)
        return kind, join(lines[:i] + [new] + lines[i + 1:] + [pind + "<<: *anc"])
    if kind == "merge-own-signed":    # the anchor is put on a signed mapping of the play, which is then merged into the play
        c = [(i, m) for i, m in blocks if m.group("ind") == pind and i + 1 < len(lines) and not lines[i + 1].lstrip().startswith("- ")
             and lines[i + 1].startswith(pind + "  ")]
        if not c:
            return None
        i, m = rng.choice(c)
        return kind, join(lines[:i] + [lines[i] + " &anc"] + lines[i + 1:] + [pind + "<<: *anc"])
    if kind == "merge-earlier":       # anchor in an earlier element, merged into a later mapping
        c = [(i, m) for i, m in simple if m.group("key") == "hosts" and m.group("ind") in (pind, lines[0][:len(pind) - 2] + "- ")]
        if not c:
            return None
        i, m = c[0]
        later = [(j, mm) for j, mm in simple if j > i and len(mm.group("ind")) > len(pind)]
        if not later:
            return None
        j, mm = rng.choice(later)
        ls = list(lines)
        ls[i] = "%shosts: &anc {when_%d: evil}" % (m.group("ind"), n)
        return kind, join(ls[:j + 1] + [ind_of(mm) + "<<: *anc"] + ls[j + 1:])
    if kind == "alias-value":
        c = [(i, m) for i, m in simple if m.group("key") == "hosts" and m.group("ind") in (pind, lines[0][:len(pind) - 2] + "- ")]
        if not c:
            return None
        i, m = c[0]
        later = [(j, mm) for j, mm in simple if j > i]
        if not later:
            return None
        j, mm = rng.choice(later)
        ls = list(lines)
        ls[i] = "%shosts: &anc evil-%d" % (m.group("ind"), n)
        ls[j] = "%s%s: *anc" % (mm.group("ind"), mm.group("key"))
        return kind, join(ls)
    if kind == "second-doc":
        return kind, join(lines + rng.choice([["---", "- name: other", "  hosts: all"], ["...", "---", "- name: other"], ["---", "evil"]]))
    if kind == "second-doc-first":
        return kind, join(["- name: first", "  hosts: all", "---"] + lines)
    if kind == "tag-scalar":
        i, m = rng.choice(simple)
        tag = rng.choice(["!unsafe", "!unsafe", "!!python/object/apply:os.system", "!!python/name:os.system", "!!str", "!vault", "!!binary", "!custom"])
        return kind + ":" + tag, join(lines[:i] + ["%s%s: %s %s" % (m.group("ind"), m.group("key"), tag, m.group("val"))] + lines[i + 1:])
    if kind == "tag-collection":
        if not blocks:
            return None
        i, m = rng.choice(blocks)
        tag = rng.choice(["!unsafe", "!!python/object/apply:os.system", "!custom"])
        return kind + ":" + tag, join(lines[:i] + [lines[i] + " " + tag] + lines[i + 1:])
    if kind == "style":
        i, m = rng.choice(simple)
        v = m.group("val").rstrip()
        how = rng.choice(["dq", "sq", "True", "tilde", "block", "folded"])
        if how == "dq" and '"' not in v and "\\" not in v:
            v2 = '"%s"' % v
        elif how == "sq" and "'" not in v:
            v2 = "'%s'" % v
        elif how == "True" and v in ("true", "false"):
            v2 = rng.choice([v.capitalize(), v.upper()])
        elif how == "tilde" and v == "null":
            v2 = rng.choice(["~", "Null", "NULL"])
        elif how == "block":
            v2 = "|-\n%s  %s" % (ind_of(m), v)
        elif how == "folded":
            v2 = ">-\n%s  %s" % (ind_of(m), v)
        else:
            return None
        return kind + ":" + how, join(lines[:i] + ["%s%s: %s" % (m.group("ind"), m.group("key"), v2)] + lines[i + 1:])
    if kind == "style-int":
        c = [(i, m) for i, m in simple if re.match(r"^-?\d+$", m.group("val").rstrip())]
        if not c:
            return None
        i, m = rng.choice(c)
        x = int(m.group("val"))
        v2 = rng.choice([hex(x) if x >= 0 else None, oct(x) if x >= 0 else None, "+%d" % x if x >= 0 else None,
                         "{:_}".format(x) if abs(x) >= 1000 else None, '!!int "%d"' % x])
        if v2 is None:
            return None
        return kind, join(lines[:i] + ["%s%s: %s" % (m.group("ind"), m.group("key"), v2)] + lines[i + 1:])
    if kind == "comment":
        i, m = rng.choice(simple)
        how = rng.randrange(3)
        if how == 0:
            return kind, join(lines[:i] + [lines[i] + "  # evil: true"] + lines[i + 1:])
        if how == 1:
            return kind, join(lines[:i] + [" " * rng.randrange(8) + "# tasks: [evil]"] + lines[i:])
        return kind, join(["# a comment", ""] + lines + ["", "# the end"])
    if kind == "whitespace":
        i = rng.randrange(len(lines))
        how = rng.randrange(3)
        if how == 0:
            return kind, join(lines[:i] + ["", "   "] + lines[i:])
        if how == 1:
            return kind, join([l + ("  " if SIMPLE_LINE.match(l) else "") for l in lines])
        return kind, "\r\n".join(lines) + "\r\n"
    if kind == "doc-markers":
        return kind, join(rng.choice([["---"], ["%YAML 1.2", "---"], []]) + lines + rng.choice([["..."], []]))
    return None


def classify_text_finding(d1):
    """input predicate of the two known findings on YAML text"""
    fl = d1[2] if len(d1) > 2 else {}
    if fl.get("collection-tag") or fl.get("tag-on-nonstring-scalar"):
        return FINDING_COLLTAG
    return None


def check_text_pair(chk, text0, text1, kind, o0=None, d0=None):
    """the oracle on one text edit; -> (outcome of the edited text, its denotation)"""
    o0 = o0 or text_outcome(text0)
    d0 = d0 or denote(text0)
    o1, d1 = text_outcome(text1), denote(text1)
    same = d1[0] == "ok" and denoted_cores(d1) == denoted_cores(d0)
    case = {"op": "text-edit", "edit": kind, "text0": text0, "text1": text1}
    if o0[0] == "digests" and o1[0] == "digests":
        if same and o1[1] != o0[1]:
            chk.failure("text edit (%s) that leaves the denoted play unchanged outside the excluded elements changes the digest shown to GPG" % kind, case)
        if not same and o1[1] == o0[1]:
            chk.failure("text edit (%s) changes what the text denotes outside the excluded elements (last value of a repeated key, merges expanded, "
                        "tags kept), but the text still loads and the digest shown to GPG is unchanged" % kind, case, finding=classify_text_finding(d1))
    return o1, d1


SURROGATE_FORMS = ["\ud83d", "\udc00", "\ud800", "\udfff", "?", "�", "", "\U0001f600", "😀", "\\ud83d", "x"]


def run_text_and_encoding(chk, quick):
    rng = chk.rng
    n_base = 50 if quick else 1500
    n_edits = 9 if quick else 14
    # ---- (1) text edits
    cases, impl, lines = [], [], []
    for _ in range(n_base):
        p = gen_signed_play(rng)
        if p is None:
            continue
        try:
            text0 = dump_yaml([to_ruamel(p)])
        except Exception:
            continue
        d0 = denote(text0)
        if d0[0] != "ok" or len(d0[1]) != 1 or canon(d0[1][0]) != canon(p):
            chk.count("text:base-not-round-tripping")
            continue
        o0 = text_outcome(text0)
        if o0[0] != "digests":
            chk.count("text:base-refused")
            continue
        chk.case(("text", canon(p)), True)
        cases.append({"text": text0, "edit": "none"})
        impl.append(o0[1][0])
        lines.append("vplay\t%s\t%s" % (bad_sigs(p), wire(p)))
        for _ in range(n_edits):
            e = None
            for _try in range(4):
                e = e or text_edit(rng, text0)
            if e is None:
                continue
            kind, text1 = e
            text2 = None
            if "DEEPVAL" in text1:
                text2 = text1.replace("DEEPVAL", rng.choice(["other", "7", "[x]"]))
                text1 = text1.replace("DEEPVAL", "deepest")
            o1, d1 = check_text_pair(chk, text0, text1, kind, o0, d0)
            if text2 is not None and o1[0] == "digests":
                # a value inside the deepest level of the chain changes: the digest must follow
                check_text_pair(chk, text1, text2, kind + ":deepest-value", o1, d1)
                chk.count("text:chain-deepest-value-changed")
            if d1[0] == "ok" and d1[2].get("merge") and set(d1[2]) <= {"merge", "play-level-merge"} and o1[0] == "digests" and len(d1[1]) == 1 \
                    and not kind.startswith(("spelling-shorthand", "spelling-handle")):
                # ('!!merge k:' and %TAG handles are not merge keys for the vendored loader: the entry is in the digest as a tagged key)
                # the digest must be that of the explicitly written play (what a merge-expanding consumer sees)
                try:
                    explicit = dump_yaml([to_ruamel(d1[1][0])])
                    ok_explicit = canon(denote(explicit)[1][0]) == canon(d1[1][0])
                except Exception:
                    ok_explicit = False
                if ok_explicit:
                    chk.count("text:merge-vs-explicit-play")
                    oe = text_outcome(explicit)
                    if oe != o1:
                        chk.failure("text edit (%s): the digest shown to GPG is not the digest of the explicitly written play (merges expanded)" % kind,
                                    {"op": "text-equal", "expect": "equal", "text0": explicit, "text1": text1})
            k0 = kind.split(":")[0]
            same = d1[0] == "ok" and denoted_cores(d1) == denoted_cores(d0)
            chk.count("text:%s/%s/%s" % (k0, "same-play" if same else "other-play" if d1[0] == "ok" else "unloadable",
                                         "same-digest" if o1 == o0 else "refused" if o1[0] == "refused" else "other-digest"))
            # tie: when the text loads and denotes one modelled play, the digest is SHA-256 of the model's serialisation of THAT play
            if o1[0] == "digests" and d1[0] == "ok" and len(d1[1]) == 1 and not d1[2] and isinstance(d1[1][0], dict):
                try:
                    w = wire(d1[1][0])
                    from_json(to_json(d1[1][0]))
                except Exception:
                    continue
                cases.append({"text": text1, "edit": kind})
                impl.append(o1[1][0])
                lines.append("vplay\t%s\t%s" % (bad_sigs(d1[1][0]), w))
    out = run_driver("C18", lines)
    model = []
    for a in out:
        f = a.split("\t")
        model.append(hashlib.sha256(dec(f[1]).encode("utf-8")).hexdigest() if f[0] == "ok" else a)
    chk.compare("text entry point: digest of the loaded play = sha256(model serialisation of the play the text denotes)", cases, impl, model)

    # ---- regression witnesses of the repaired defect 9593a34 (merged keys outside the digest)
    for c in load_corpus():
        if c.get("op") != "text-regress":
            continue
        for k in c["cases"]:
            o = text_outcome(k["text"])
            same = text_outcome(k["same_digest_as"]) if k.get("same_digest_as") else o
            other = text_outcome(k["other_digest_than"]) if k.get("other_digest_than") else None
            ok = o[0] == "digests" and o == same and (other is None or o != other)
            chk.witnesses.append({"corpus": c["file"], "case": k["what"], "holds": ok})
            if not ok:
                if o != same:
                    chk.failure("regression witness %s (%s): the text does not verify to the digest of the explicitly written play" % (c["file"], k["what"]),
                                {"op": "text-equal", "expect": "equal", "text0": k["same_digest_as"], "text1": k["text"]})
                else:
                    chk.failure("regression witness %s (%s): the merged keys do not change the digest" % (c["file"], k["what"]),
                                {"op": "text-equal", "expect": "different", "text0": k["other_digest_than"], "text1": k["text"]})

    # ---- known finding on YAML text: witness against the implementation
    base = ("- name: w\n  hosts: all\n  vars:\n    insights_signature_exclude: /hosts,/vars/insights_signature\n"
            "    insights_signature: UExBQ0VIT0xERVI=\n  tasks:\n    - name: t\n      command: ok\n")
    w_tag = base.replace("  tasks:\n", "  tasks: !unsafe\n")
    for fid, w in ((FINDING_COLLTAG, w_tag),):
        o0, o1 = text_outcome(base), text_outcome(w)
        d0, d1 = denote(base), denote(w)
        rep = o0[0] == "digests" and o1 == o0 and denoted_cores(d1) != denoted_cores(d0) and classify_text_finding(d1) == fid
        chk.witnesses.append({"finding": fid, "text": w, "reproduces": rep})
        if rep:
            chk.finding_reproduced(fid)

    # ---- (2) code points UTF-8 cannot encode, in keys and values of the signed part
    n_sur = 45 if quick else 1200
    cases, impl, lines, want = [], [], [], []
    for _ in range(n_sur):
        p = gen_signed_play(rng)
        if p is None:
            continue
        where = rng.choice(["value", "value", "key", "task"])
        pre, post = rng.choice(["", "a", "é"]), rng.choice(["", "b", "'", "\\"])
        variants = {}
        for form in SURROGATE_FORMS:
            q = copy.deepcopy(p)
            s_ = pre + form + post
            if where == "value":
                q["marker"] = s_
            elif where == "key":
                q["vars"][s_ + "k"] = 1
            else:
                q.setdefault("tasks", [])
                if not isinstance(q["tasks"], list):
                    q["tasks"] = []
                q["tasks"] = q["tasks"] + [{"name": "t", "shell": s_}]
            variants[form] = q
        seen = {}
        for form, q in variants.items():
            lone = any(0xD800 <= ord(ch) <= 0xDFFF for ch in form)
            obj = to_ruamel(q)
            a, d = impl_vplay(obj)
            chk.count("encoding:%s/%s" % ("lone-surrogate" if lone else "encodable", a))
            chk.case(("sur", where, form, canon(p)), not lone)
            # tie of the encoding step: the bytes hashed are the strict UTF-8 of the serialisation text
            enc_ok = "-"
            if a == "ok":
                try:
                    cleaned = pv.exclude_dynamic_elements(obj)
                    raw = pv.serialize_play(cleaned)
                    enc_ok = "utf8" if raw.decode("utf-8") == PlaybookSerializer.serialize(cleaned) else "not-the-utf8-of-the-text"
                except UnicodeDecodeError:
                    enc_ok = "not-utf8"
                except Exception:
                    enc_ok = "?"
                k = binascii.hexlify(d).decode()
                if k in seen and canon(seen[k][1]) != canon(q):
                    chk.failure("two plays that differ only in one code point (%r vs %r, in a %s of the signed part) have the same digest"
                                % (seen[k][0], form, where), {"op": "surrogate-pair", "a": to_json(seen[k][1]), "b": to_json(q)})
                seen.setdefault(k, (form, q))
            cases.append({"where": where, "form": repr(form)})
            impl.append("refused" if a != "ok" else "%s %s" % (binascii.hexlify(d).decode(), enc_ok))
            if lone:
                want.append("refused")       # outside the model's strings (Unicode scalar values): nothing to hash
            else:
                want.append(len(lines))
                lines.append("vplay\t%s\t%s" % (bad_sigs(q), wire(q)))
    out = run_driver("C18", lines)
    model = []
    for w_ in want:
        if w_ == "refused":
            model.append("refused")
        else:
            f = out[w_].split("\t")
            model.append("%s utf8" % hashlib.sha256(dec(f[1]).encode("utf-8")).hexdigest() if f[0] == "ok" else "refused")
    chk.compare("encoding step: lone surrogates are refused, everything else hashes the strict UTF-8 of the model's text", cases, impl, model)
    # the same through the text entry point: JSON-style escapes in double-quoted scalars
    for _ in range(12 if quick else 200):
        tpl = ("- name: w\n  hosts: all\n  vars:\n    insights_signature_exclude: /hosts,/vars/insights_signature\n"
               "    insights_signature: UExBQ0VIT0xERVI=\n  tasks:\n    - name: t\n      %s\n")
        forms = ['"\\ud83d"', '"\\udc00"', '"?"', '"\\ufffd"', '""', '"\\ud800"']
        key = rng.random() < 0.3
        seen = {}
        for f_ in forms:
            text = tpl % (("%s: 1" % f_) if key else ("shell: %s" % f_))
            o = text_outcome(text)
            chk.count("encoding:text/%s" % o[0])
            if o[0] == "digests":
                if o[1] in seen and seen[o[1]][0] != f_:
                    chk.failure("two playbook texts that differ only in one code point (%s vs %s) have the same digest" % (seen[o[1]][0], f_),
                                {"op": "text-edit", "edit": "code point", "text0": seen[o[1]][1], "text1": text})
                seen.setdefault(o[1], (f_, text))


# ------------------------------------------------------------------ the command-line entry point and histories of loads



def run_main(text, doc_bytes):
    """python -m insights.client.apps.ansible.playbook_verifier, in this process: stdin -> (class, exit status, stdout)"""
    import runpy
    saved = sys.stdin, sys.stdout, sys.stderr
    skip = os.environ.pop("SKIP_VERIFY", None)
    sys.stdin, sys.stdout, sys.stderr = io.StringIO(text), io.StringIO(), io.StringIO()
    code, crashed = 0, False
    try:
        with Patched(doc_bytes):
            runpy.run_module(VLOG, run_name="__main__")
    except SystemExit as e:
        code = e.code if isinstance(e.code, int) else (0 if e.code is None else 1)
    except BaseException:
        code, crashed = 1, True
    finally:
        out = sys.stdout.getvalue()
        sys.stdin, sys.stdout, sys.stderr = saved
        if skip is not None:
            os.environ["SKIP_VERIFY"] = skip
    if crashed:
        cls = "crash" if out == "" else "crash-after-printing"
    elif code == 0:
        cls = "accepted" if out == text + "\n" else "exit-0-but-printed-something-else"
    elif code == 101:
        cls = "verr" if out == "" else "rejected-but-printed"
    else:
        cls = "exit-%s" % code
    return cls, code, out


def model_verify_line(q, rplain, texts):
    """protocol line of the model's verify() for play q under revocation document rplain; texts: hex digest -> signed text"""
    sigtab = []
    for d in (q, rplain):
        v = d.get("vars") if isinstance(d, dict) else None
        s_ = v.get(SIG) if isinstance(v, dict) else None
        if isinstance(s_, str):
            try:
                b = base64.b64decode(s_)
            except Exception:
                continue
            hx_ = b[8:].decode("ascii", "replace")
            if b.startswith(b"FAKESIG:") and hx_ in texts:
                sigtab.append((s_, texts[hx_]))
    rev = rplain.get("revoked_playbooks") if isinstance(rplain, dict) else None
    hashtab = [(e["hash"], texts[e["hash"]]) for e in (rev or []) if isinstance(e, dict) and e.get("hash") in texts]
    enc_tab = lambda tab: ",".join(enc(x) + ":" + enc(y) for x, y in tab) if tab else "-"
    return "verify\t%s\t%s\t%s\t%s\t%s" % (bad_sigs(q, rplain), enc_tab(sigtab), enc_tab(hashtab), wire(rplain), wire(q))


def run_main_stream(chk, quick):
    """multi-entry documents through __main__: accepted iff every top-level entry verifies"""
    rng = chk.rng
    n_docs = 70 if quick else 1500

    def sign(p):
        ans, digest, raw = impl_excl(to_ruamel(p))
        if digest is None:
            return None
        p = copy.deepcopy(p)
        p["vars"][SIG] = fake_sign(digest)
        return p, digest, raw.decode("utf-8")

    def without_hosts(p):
        """an entry that is not an ordinary play: no hosts; an import with vars, or only vars / tasks"""
        q = dict((k, v) for k, v in p.items() if k != "hosts")
        q["vars"] = dict(q["vars"])
        q["vars"][EXCL] = rng.choice(["/vars/insights_signature", "vars/insights_signature", "/vars/insights_signature,/vars/dyn"])
        q["vars"].setdefault("dyn", "d")
        shape = rng.choice(["import", "vars-tasks", "vars-only"])
        if shape == "import":
            q = dict([("import_playbook", "other.yml")] + [(k, v) for k, v in q.items() if k in ("vars", "name")])
        elif shape == "vars-only":
            q = {"vars": q["vars"]}
        else:
            q = dict((k, v) for k, v in q.items() if k in ("vars", "tasks", "name"))
            q.setdefault("tasks", [])
        return q
    cases, impl, lines, spans = [], [], [], []
    for _ in range(n_docs):
        tpl = rng.choice([["G"], ["G", "E"], ["G", "Uh"], ["H", "HE"], ["N"], ["G", "G2"], ["G", "X"], ["R"], ["G", "R"], ["R", "G"], ["H"],
                          ["G", "H"], ["G", "N"], ["E"], ["HE"], ["G", "G2", "E"], ["G", "U"], ["Uh"], ["H", "G", "Uh"], ["G", "S"], ["Nh"]])
        a, b = gen_signed_play(rng), gen_signed_play(rng)
        if a is None or b is None:
            continue
        G, G2, H = sign(a), sign(b), sign(without_hosts(a))
        if G is None or G2 is None or H is None:
            continue
        uni, texts = {}, {}
        for name, sg in (("G", G), ("G2", G2), ("H", H)):
            uni[name] = sg[0]
            texts[binascii.hexlify(sg[1]).decode()] = sg[2]
        uni["R"] = G2[0] if "G2" not in tpl else G[0]
        revoked_digest = G2[1] if "G2" not in tpl else G[1]
        for name, src in (("E", G[0]), ("HE", H[0])):
            for _try in range(12):
                k, q = one_edit(rng, src)
                if isinstance(q, dict) and spec_core(q) != spec_core(src) and isinstance(q.get("vars"), dict) and q["vars"].get(SIG) == src["vars"][SIG] \
                        and spec_core(q)[0] == "core":
                    uni[name] = q
                    break
        for _try in range(12):
            k, q = one_edit(rng, G[0])
            if isinstance(q, dict) and touches_excluded_only(G[0], q) and isinstance(q.get("vars"), dict) and q["vars"].get(SIG) == G[0]["vars"][SIG]:
                uni["X"] = q
                break
        q = copy.deepcopy(G2[0])
        del q["vars"][SIG]
        uni["U"] = q
        q = copy.deepcopy(H[0])
        del q["vars"][SIG]
        uni["Uh"] = q
        uni["N"] = dict((k, v) for k, v in G2[0].items() if k != "vars")
        uni["Nh"] = {"import_playbook": "other.yml"}
        uni["S"] = "just a string"
        if any(n not in uni for n in tpl):
            continue
        entries = [uni[n] for n in tpl]
        rdoc = {"name": "revocation list", "timestamp": 1632510092, "vars": {EXCL: "/vars/insights_signature", SIG: "UExBQ0VIT0xERVI="},
                "revoked_playbooks": [{"name": "x", "hash": hashlib.sha256(b"other").hexdigest()}]}
        if "R" in tpl:
            rdoc["revoked_playbooks"].append({"name": "revoked", "hash": binascii.hexlify(revoked_digest).decode()})
        _, rd, rraw = impl_excl(to_ruamel(rdoc))
        rdoc["vars"][SIG] = fake_sign(rd)
        texts[binascii.hexlify(rd).decode()] = rraw.decode("utf-8")
        doc_bytes = dump_yaml([to_ruamel(rdoc)]).encode("utf-8")
        try:
            rplain = from_ruamel(pv.yaml.load(doc_bytes)[0])
            text = dump_yaml(to_ruamel(entries))
            d = denote(text)
            if d[0] != "ok" or [canon(x) for x in d[1]] != [canon(x) for x in entries]:
                chk.count("main:document-not-round-tripping")
                continue
        except Exception:
            continue
        cls, code, out = run_main(text, doc_bytes)
        want_accept = all(n in ("G", "G2", "H", "X") for n in tpl)
        chk.case(("main", tuple(tpl), canon(entries[0])), True)
        chk.count("main:%s/%s" % ("+".join(tpl), cls))
        case = {"op": "main", "entries": tpl, "text": text, "doc": doc_bytes.decode("utf-8")}
        if cls == "accepted" and not want_accept:
            why = [n for n in tpl if n not in ("G", "G2", "H", "X")]
            chk.failure("the command-line entry point accepted (exit 0, document printed) a document with an entry that must not verify (%s: "
                        "E/HE edited outside the excluded elements, U/Uh unsigned, N/Nh without vars, R revoked, S not a mapping)" % "+".join(why), case)
        if cls not in ("accepted", "verr", "crash"):
            chk.failure("the command-line entry point ended as %s (exit status %s, %d characters on stdout)" % (cls, code, len(out)), case)
        cases.append({"entries": tpl, "text": text})
        impl.append(cls)
        start = len(lines)
        for n, e in zip(tpl, entries):
            lines.append(model_verify_line(e, rplain, texts) if isinstance(e, dict) else None)
        spans.append((start, len(lines)))
    out = run_driver("C18", [l for l in lines if l is not None])
    it = iter(out)
    answers = [next(it) if l is not None else "crash" for l in lines]      # an entry that is not a mapping: verify() has nothing to call .get on
    model = []
    for a_, b_ in spans:
        verdict = "accepted"
        for ans in answers[a_:b_]:
            if ans != "ok":
                verdict = ans
                break
        model.append(verdict)
    chk.compare("command-line entry point: accepted iff every top-level entry verifies by the model", cases, impl, model)


YAML_BODIES = [
    "- name: x\n  hosts: all\n  become: %s\n  vars:\n    insights_signature_exclude: /hosts,/vars/insights_signature\n    insights_signature: UExBQ0VIT0xERVI=\n    mode: %s\n  tasks: []\n",
    "- name: y\n  hosts: all\n  vars:\n    insights_signature_exclude: /hosts,/vars/insights_signature\n    insights_signature: UExBQ0VIT0xERVI=\n  tasks:\n    - name: t\n      file: {mode: %s, force: %s}\n  <<: {flags: [%s, %s]}\n",
]
SENSITIVE = ["yes", "no", "on", "off", "010", "0o10", "1_000", "true", "8", "'yes'", "y", "~", "1:30", "0x10"]


def run_load_regressions(chk, ref):
    """corpus histories of loads (fixed 860d3d2): every load must give the fresh-process digest; run before anything else"""
    for c in load_corpus():
        if c.get("op") != "loads-regress":
            continue
        for h in c["histories"]:
            refs = ref.run([{"entry": "text", "text": t} for t in h["texts"]])
            ok = True
            for i, (t, want) in enumerate(zip(h["texts"], refs)):
                got = do_call({"entry": "text", "text": t})
                if got["verdict"] != want["verdict"]:
                    ok = False
                    chk.failure("regression witness %s (%s): load %d of %d verifies to %s, loaded first in a fresh process to %s"
                                % (c["file"], h["what"], i + 1, len(h["texts"]), got["verdict"][:40], want["verdict"][:40]),
                                {"op": "loads", "texts": h["texts"]})
            chk.witnesses.append({"corpus": c["file"], "case": h["what"], "holds": ok})


def run_load_histories(chk, ref, quick):
    """2-4 loads in one process, with and without %YAML directives: the digest of a text is a function of the text alone.
    The histories run on the module state as the earlier streams and histories left it (nothing is reset in between)."""
    rng = chk.rng
    n = 45 if quick else 800
    before = []
    for _ in range(n):
        texts = []
        for _j in range(rng.randint(2, 4)):
            body = rng.choice(YAML_BODIES)
            body = body % tuple(rng.choice(SENSITIVE) for _k in range(body.count("%s")))
            texts.append(rng.choice(["", "", "%YAML 1.1\n---\n", "%YAML 1.1\n---\n", "%YAML 1.2\n---\n"]) + body)
        if rng.random() < 0.3:
            texts[-1] = texts[0].split("---\n")[-1]              # the first document again, without its directive
        refs = ref.run([{"entry": "text", "text": t} for t in texts])
        for i, (t, want) in enumerate(zip(texts, refs)):
            got = do_call({"entry": "text", "text": t})
            chk.case(("loads", tuple(texts[:i + 1])), True)
            chk.count("loads:%s/%s" % ("directive-" + t[6:9] if t.startswith("%YAML") else "no-directive", got["verdict"].split(":")[0]))
            if got["verdict"] != want["verdict"] or got["seen"] != want["seen"]:
                chk.failure("load %d of %d in one process: the text verifies to %s, loaded first in a fresh process it verifies to %s"
                            % (i + 1, len(texts), got["verdict"][:40], want["verdict"][:40]),
                            {"op": "loads", "before": before, "texts": texts})      # `before`: what this process loaded just before
        before = texts


# ------------------------------------------------------------------ the check

# ------------------------------------------------------------------ round 10: the glue around GPG, object kinds, scalar kinds


class GlueGPG(object):
    """stand-in for gnupg.GPG whose every answer is a parameter of the case (import count, the verdict object) and
    which records what the verifier did with it"""
    conf = {"count": 1, "status": "signature valid"}
    log = []

    def __init__(self, *a, **k):
        GlueGPG.log.append(("init", a, dict(k)))

    def import_keys(self, key):
        GlueGPG.log.append(("import", key))
        r = FakeImport()
        r.count = GlueGPG.conf["count"]
        return r

    def verify_data(self, fn, data):
        try:
            with open(fn, "rb") as f:
                sig = f.read()
        except Exception as e:
            sig = None
        GlueGPG.log.append(("verify", fn, sig, bytes(data)))
        r = FakeVerified(sig is not None and sig.startswith(b"FAKESIG:") and sig[8:] == binascii.hexlify(bytes(data)))
        # as gnupg does: 'signature valid' goes with valid; an invalid verdict comes with any other text (GOODSIG of an expired
        # key is 'signature good' with valid = False): the text is not the verdict
        r.status = "signature valid" if r.valid else GlueGPG.conf["status"]
        return r


class GlueModule(object):
    GPG = GlueGPG


def glue_call(entry, obj, doc_bytes, key, count, status):
    """verify / verify_play with the parameterised GPG -> (answer, problems of the glue)"""
    from insights.client.constants import InsightsConstants as _c
    GlueGPG.conf = {"count": count, "status": status}
    del GlueGPG.log[:]
    saved = pv.gnupg, pv.pkgutil, pv.PUBLIC_KEY_PATH
    pv.gnupg, pv.pkgutil, pv.PUBLIC_KEY_PATH = GlueModule, FakePkgutil(saved[1], doc_bytes), key
    try:
        if entry == "verify":
            r = pv.verify(obj)
            ans = "ok" if r is obj else "returned-other-object"
        else:
            res, d = pv.verify_play(obj)
            ans = ("valid\t" if res else "invalid\t") + binascii.hexlify(bytes(d)).decode()
            if bool(res) != bool(getattr(res, "valid", None)):
                ans = "verdict-object-inconsistent"
    except pv.PlaybookVerificationError as e:
        ans = "verr"
        if not isinstance(getattr(e, "message", None), str) or str(e) != e.message:
            ans = "verr-without-message"
    except Exception as e:
        ans = "crash"
    finally:
        pv.gnupg, pv.pkgutil, pv.PUBLIC_KEY_PATH = saved
    problems = []
    log = list(GlueGPG.log)
    verifies = [x for x in log if x[0] == "verify"]
    for i, x in enumerate(log):
        if x[0] == "init" and x[2].get("gnupghome") != _c.insights_core_lib_dir:
            problems.append("GPG started with gnupghome=%r instead of the client's own directory" % (x[2].get("gnupghome"),))
        if x[0] == "verify":
            before = [y for y in log[:i] if y[0] == "import"]
            if not before or before[-1][1] != key:
                problems.append("GPG asked to verify without the shipped public key having been imported")
            if x[2] is None:
                problems.append("the signature file shown to GPG does not exist")
            if os.path.exists(x[1]):
                problems.append("the signature file %s was left behind" % x[1])
                try:
                    os.unlink(x[1])
                except OSError:
                    pass
    return ans, problems, verifies


def gluek_line(line, present, count, doc_mode="good"):
    f = line.split("\t")
    dm = {"good": "good", "entry-scalar": "notmapping"}.get(doc_mode, "unloadable")
    return "\t".join(["verifyd", dm, "1" if present else "0", str(count)] + f[1:])


def glue_case(rng, kind=None):
    """a signed play (or a tampered / unsigned one) + a revocation document + the GPG parameters"""
    p = gen_signed_play(rng)
    if p is None:
        return None
    ans, digest, raw = impl_excl(to_ruamel(p))
    if digest is None:
        return None
    texts = {binascii.hexlify(digest).decode(): raw.decode("utf-8")}
    p["vars"][SIG] = fake_sign(digest)
    what = kind or rng.choice(["genuine"] * 5 + ["tampered", "badsig", "revoked", "empty", "notb64"])
    q = p
    if what == "tampered":
        for _ in range(12):
            k, q2 = one_edit(rng, p)
            if isinstance(q2, dict) and spec_core(q2)[0] == "core" and spec_core(q2) != spec_core(p) and \
                    isinstance(q2.get("vars"), dict) and q2["vars"].get(SIG) == p["vars"][SIG]:
                q = q2
                break
        else:
            what = "genuine"
    elif what == "badsig":
        q = copy.deepcopy(p)
        q["vars"][SIG] = fake_sign(b"\1" * 32)
    elif what == "notb64":
        q = copy.deepcopy(p)
        q["vars"][SIG] = rng.choice(["a", "abc", "!!!!a", "YQ=", "é"])
    elif what == "empty":
        q = {}
    if q is not p and q:
        a2, d2, raw2 = impl_excl(to_ruamel(q))
        if d2 is not None:
            texts[binascii.hexlify(d2).decode()] = raw2.decode("utf-8")
    rdoc = {"name": "revocation list", "timestamp": 1632510092, "vars": {EXCL: "/vars/insights_signature", SIG: "UExBQ0VIT0xERVI="},
            "revoked_playbooks": [{"name": "x", "hash": hashlib.sha256(b"other").hexdigest()}]}
    if what == "revoked":
        rdoc["revoked_playbooks"].append({"name": "r", "hash": binascii.hexlify(digest).decode()})
    _, rd, rraw = impl_excl(to_ruamel(rdoc))
    if rd is None:
        return None
    rdoc["vars"][SIG] = fake_sign(rd)
    texts[binascii.hexlify(rd).decode()] = rraw.decode("utf-8")
    doc_mode = rng.choice(["good"] * 8 + ["unloadable", "not-a-list", "empty-doc", "entry-scalar"])
    if doc_mode == "good":
        doc_bytes = dump_yaml([to_ruamel(rdoc)]).encode("utf-8")
    else:
        doc_bytes = {"unloadable": b"- name: [unclosed\n  vars: {", "not-a-list": b"name: x\n", "empty-doc": b"", "entry-scalar": b"- a\n- b\n"}[doc_mode]
    key = rng.choice(["key", "key", "key", "key", "key", None, b""])
    count = rng.choice([1, 1, 1, 1, 2, 3, 0, 0, -1])
    status = rng.choice(["signature good", "signature bad", "no public key", None, "signature error", "signature good"])
    return {"op": "glue", "what": what, "play": to_json(q), "doc": doc_bytes.decode("utf-8"), "doc_mode": doc_mode,
            "rdoc": to_json(rdoc), "texts": texts, "key": "key" if key == "key" else ("none" if key is None else "empty"),
            "count": count, "status": status, "entry": rng.choice(["verify", "verify", "verify_play"])}


def glue_eval(c):
    """run one glue case -> (implementation answer, model request line, oracle failures)"""
    q, rplain = from_json(c["play"]), from_json(c["rdoc"])
    key = {"key": GlueGPG.real_key, "none": None, "empty": b""}[c["key"]]
    present = c["key"] == "key"
    key_ok = present and c["count"] >= 1
    ans, problems, verifies = glue_call(c["entry"], to_ruamel(q), c["doc"].encode("utf-8"), key, c["count"], c["status"])
    fails = list(problems)
    line = model_verify_line(q, rplain, c["texts"])
    if c["entry"] == "verify":
        mline = gluek_line(line, present, c["count"], c["doc_mode"])
        if ans == "ok" and not key_ok:
            fails.append("verify() accepted a play although the public key was not imported (key file %s, import count %d)" % (c["key"], c["count"]))
        if ans == "ok" and c["doc_mode"] != "good":
            fails.append("verify() accepted a play although the revocation list could not be loaded (%s)" % c["doc_mode"])
        if ans == "ok" and c["what"] != "genuine":
            fails.append("verify() accepted a %s play" % c["what"])
        if ans not in ("ok", "verr", "crash"):
            fails.append("verify() ended as %s" % ans)
        if c["what"] == "empty" and ans != "verr":
            fails.append("verify() of an empty play ended as %s instead of a verification error" % ans)
    else:
        f = line.split("\t")
        mline = "\t".join(["vplayk", "1" if present else "0", str(c["count"]), f[1], f[2], f[5]]) if q else None
        if ans.startswith("valid") and (not key_ok or c["what"] in ("tampered", "badsig")):
            fails.append("verify_play reports a valid signature for a %s play (key file %s, import count %d)" % (c["what"], c["key"], c["count"]))
    for v in verifies:
        sigs = []
        for d in (q, rplain):
            s_ = d.get("vars", {}).get(SIG) if isinstance(d, dict) and isinstance(d.get("vars"), dict) else None
            if isinstance(s_, str):
                try:
                    sigs.append(base64.b64decode(s_))
                except Exception:
                    pass
        if v[2] is not None and v[2] not in sigs:
            fails.append("the signature file shown to GPG (%r...) is not the decoded signature of the play" % (v[2][:24],))
        if binascii.hexlify(v[3]).decode() not in c["texts"]:
            fails.append("GPG was shown %s, which is not the SHA-256 digest of the cleaned play" % binascii.hexlify(v[3]).decode()[:16])
    return ans, mline, fails


def glue_model_answer(c, out):
    if out is None:
        return "no-model-line"
    f = out.split("\t")
    if f[0] in ("valid", "invalid"):
        return f[0] + "\t" + hashlib.sha256(dec(f[1]).encode("utf-8")).hexdigest()
    return out


def run_glue(chk, quick):
    rng = chk.rng
    GlueGPG.real_key = pv.PUBLIC_KEY_PATH
    n = 260 if quick else 4000
    cases, impl, mlines = [], [], []
    for i in range(n):
        c = glue_case(rng)
        if c is None:
            continue
        if c["entry"] == "verify_play" and not from_json(c["play"]):
            continue
        ans, mline, fails = glue_eval(c)
        chk.case(("glue", c["entry"], c["what"], c["key"], c["count"], c["doc_mode"], canon(from_json(c["play"]))), ans in ("ok",) or ans.startswith("valid"))
        chk.count("glue:%s/%s/key=%s,count=%s,doc=%s -> %s" % (c["entry"], c["what"], c["key"], "ok" if c["count"] >= 1 else c["count"], c["doc_mode"], ans.split("\t")[0]))
        for f in fails[:1]:
            chk.failure("GPG glue: " + f, c)
        cases.append({"what": c["what"], "entry": c["entry"], "key": c["key"], "count": c["count"], "doc": c["doc_mode"], "play": c["play"]})
        impl.append(ans)
        mlines.append(mline)
    out = run_driver("C18", [l for l in mlines if l is not None])
    it = iter(out)
    model = [glue_model_answer(c, next(it) if l is not None else None) for c, l in zip(cases, mlines)]
    chk.compare("GPG glue: verify / verify_play with key file, import count, verdict object and revocation text as parameters = the model's verifyDoc / verifyPlayFullK", cases, impl, model)
    if cases:
        chk.sample({"glue": dict((k, v) for k, v in cases[0].items() if k != "play"), "impl": impl[0]})


# ---- object kinds: the same play as CommentedMap / dict / OrderedDict / subclasses, scalars as the loader's own subclasses

class _SubDict(dict):
    pass


class _SubList(list):
    pass


def to_kind(o, kind):
    from insights.client.apps.ansible.playbook_verifier.contrib.ruamel_yaml.ruamel.yaml import scalarstring as _ss, scalarint as _si
    if isinstance(o, dict):
        items = [(to_kind(k, kind) if kind == "loader-scalars" else k, to_kind(v, kind)) for k, v in o.items()]
        if kind in ("ruamel", "loader-scalars"):
            m = CommentedMap()
            for k, v in items:
                m[k] = v
            return m
        if kind == "ordered":
            return collections.OrderedDict(items)
        if kind == "subclass":
            return _SubDict(items)
        return dict(items)
    if isinstance(o, list):
        xs = [to_kind(v, kind) for v in o]
        if kind in ("ruamel", "loader-scalars"):
            s = CommentedSeq()
            s.extend(xs)
            return s
        if kind == "subclass":
            return _SubList(xs)
        if kind == "tuple-free-plain":
            return list(xs)
        return xs
    if kind == "loader-scalars":
        if isinstance(o, bool) or o is None:
            return o
        if isinstance(o, int):
            return [_si.ScalarInt, _si.HexInt, _si.OctalInt, _si.HexCapsInt, _si.BinaryInt, int][abs(o) % 6](o)
        if isinstance(o, str):
            return [_ss.SingleQuotedScalarString, _ss.DoubleQuotedScalarString, _ss.LiteralScalarString, _ss.FoldedScalarString,
                    _ss.PlainScalarString, str][len(o) % 6](o)
    return o


KINDS = ["ruamel", "plain", "ordered", "subclass", "loader-scalars"]


def kinds_eval(p):
    """answers of exclusion+digest and of verify_play for every object kind of one plain play"""
    res = {}
    for kind in KINDS:
        obj = to_kind(p, kind)
        a1, d1, raw = impl_excl(obj)
        a2, d2 = impl_vplay(obj)
        same = None
        try:
            same = canon(from_ruamel(obj)) == canon(p)
        except Exception:
            same = False
        res[kind] = (a1, a2 if a2 != "ok" else "ok\t" + binascii.hexlify(d2).decode(), same)
    return res


def kinds_failures(p, res):
    fails = []
    ref = res["ruamel"]
    for kind in KINDS:
        if not res[kind][2]:
            fails.append("the play given as %s objects was modified by the verifier" % kind)
        if res[kind][:2] != ref[:2]:
            fails.append("the same play given as %s objects and as the loader's mappings / sequences: exclusion+digest %s vs %s, verify_play %s vs %s"
                         % (kind, res[kind][0][:40], ref[0][:40], res[kind][1][:24], ref[1][:24]))
    return fails


def run_kinds(chk, quick):
    rng = chk.rng
    n = 110 if quick else 2500
    plays = []
    for _ in range(n):
        p = gen_play(rng) if rng.random() < 0.4 else gen_signed_play(rng)
        if p is None:
            continue
        plays.append(p)
        if rng.random() < 0.5:
            k, q = one_edit(rng, p)
            if isinstance(q, dict):
                plays.append(q)
    cases, impl, lines = [], [], []
    for p in plays:
        res = kinds_eval(p)
        for f in kinds_failures(p, res)[:1]:
            chk.failure("object kinds: " + f, {"op": "kinds", "play": to_json(p)})
        chk.case(("kinds", canon(p)), res["ruamel"][0].startswith("ok"))
        for kind in KINDS[1:]:
            cases.append({"kind": kind, "play": to_json(p)})
            impl.append(res[kind][0] + ";" + res[kind][1])
            chk.count("kinds:%s/%s" % (kind, res[kind][0].split("\t")[0]))
        lines.append("ev\t%s\t%s" % (bad_sigs(p), wire(p)))
    out = run_driver("C18", lines)
    model = []
    for b in out:
        e, v = (b.split(";") + [b])[:2] if ";" in b else (b, b)
        f = v.split("\t")
        v = "ok\t" + hashlib.sha256(dec(f[1]).encode("utf-8")).hexdigest() if f[0] == "ok" else v
        model += [e + ";" + v] * (len(KINDS) - 1)
    chk.compare("object kinds: dict / OrderedDict / subclasses / the loader's scalar classes = the model on the plain play", cases, impl, model)


# ---- scalar kinds: every scalar the verifier's loader can produce, inside and outside the model

# (spelling in YAML, value identity).  identity ("m", plain value): inside the model; the digest must be the model's.
# other identities: outside the model (floats, dates, binaries, sets, ordered maps): different identities must give
# different digests, and the token the serializer prints for a float must read back as that float and not as an integer.
SCALAR_TABLE = [
    ("0x1F", ("m", 31)), ("0o17", ("m", 15)), ("017", ("m", 17)), ("+12", ("m", 12)), ("1_000", ("m", 1000)), ("-0", ("m", 0)),
    ("0b101", ("m", 5)), ("31", ("m", 31)), ("'31'", ("m", "31")), ("yes", ("m", "yes")), ("True", ("m", True)), ("TRUE", ("m", True)),
    ("true", ("m", True)), ("false", ("m", False)), ("'true'", ("m", "true")), ("~", ("m", None)), ("null", ("m", None)), ("Null", ("m", None)),
    ("'null'", ("m", "null")), ("''", ("m", "")), ("'a'", ("m", "a")), ('"a\\tb"', ("m", "a\tb")), ('"a\\\\tb"', ("m", "a\\tb")),
    ("1:30", ("m", "1:30")), ("!!str 7", ("m", "7")), ("!!int '7'", ("m", 7)), ("7", ("m", 7)), ("'1.0'", ("m", "1.0")),
    ("'2001-12-14'", ("m", "2001-12-14")), ("'inf'", ("m", "inf")), ("nan", ("m", "nan")), ("inf", ("m", "inf")), ("1e3x", ("m", "1e3x")),
    ("1.0", ("f", 1.0)), ("1.00", ("f", 1.0)), ("1.", ("f", 1.0)), ("1", ("m", 1)), ("1e3", ("f", 1000.0)), ("1000.0", ("f", 1000.0)),
    ("1000", ("m", 1000)), ("1.5e-7", ("f", 1.5e-07)), ("1.5e-8", ("f", 1.5e-08)), (".inf", ("f", float("inf"))), ("-.inf", ("f", float("-inf"))),
    (".nan", ("f", "nan")), ("-0.0", ("f", -0.0)), ("0.0", ("f", 0.0)), ("0", ("m", 0)), ("1.0e+20", ("f", 1e20)), ("1.0e+21", ("f", 1e21)),
    ("123456789.123456789", ("f", 123456789.123456789)), ("123456789.12345", ("f", 123456789.12345)), ("123456789.0", ("f", 123456789.0)),
    ("123456789", ("m", 123456789)), ("+.5", ("f", 0.5)), ("685230.15", ("f", 685230.15)), ("6.8523015e+5", ("f", 685230.15)),
    ("0.1", ("f", 0.1)), ("0.10000000000000002", ("f", 0.10000000000000002)), ("1e400", ("f", float("inf"))), ("2.5", ("f", 2.5)), ("3.0", ("f", 3.0)),
    ("3", ("m", 3)), ("1e16", ("f", 1e16)), ("10000000000000000", ("m", 10 ** 16)), ("1e22", ("f", 1e22)), ("1.2345678e+8", ("f", 123456780.0)),
    ("123456789.5", ("f", 123456789.5)), ("123457000.0", ("f", 123457000.0)),
    ("2001-12-14", ("d", "2001-12-14")), ("2001-12-15", ("d", "2001-12-15")), ("!!timestamp 2001-12-14", ("d", "2001-12-14")),
    ("2001-12-14 21:59:43", ("t", "2001-12-14 21:59:43")), ("2001-12-14t21:59:43", ("t", "2001-12-14 21:59:43")),
    ("2001-12-14 21:59:44", ("t", "2001-12-14 21:59:44")), ("2001-12-14 21:59:43.10", ("t", "2001-12-14 21:59:43.1")),
    ("2001-12-14 00:00:00", ("t", "2001-12-14 00:00:00")), ("2001-12-14 21:59:43 +05:00", ("t", "2001-12-14 16:59:43")),
    ("2001-12-14 16:59:43", ("t", "2001-12-14 16:59:43")), ("2001-12-15 00:00:00", ("t", "2001-12-15 00:00:00")),
    ("!!binary aGVsbG8=", ("b", b"hello")), ("!!binary aGVsbG9v", ("b", b"helloo")), ("!!binary aGVsbG8n", ("b", b"hello'")),
    ("\"b'hello'\"", ("m", "b'hello'")),
    ("!!set {a, b}", ("s", ("a", "b"))), ("!!set {a}", ("s", ("a",))), ("!!set {b, a}", ("s", ("b", "a"))), ("!!set {\"a', 'b\"}", ("s", ("a', 'b",))),
    ("!!omap [a: 1, b: 2]", ("o", (("a", 1), ("b", 2)))), ("!!omap [b: 2, a: 1]", ("o", (("b", 2), ("a", 1)))), ("!!omap [a: 1]", ("o", (("a", 1),))),
]
SCALAR_PLACES = [
    ("value", "    - x: %s\n"), ("item", "    - [k, %s, k]\n"), ("last-item", "    - [%s]\n"), ("nested", "    - x: {y: [%s]}\n"), ("key", "    - {%s: v}\n"),
]
SCALAR_HEAD = ("- name: k\n  hosts: all\n  vars:\n    insights_signature_exclude: /hosts,/vars/insights_signature\n"
               "    insights_signature: UExBQ0VIT0xERVI=\n  tasks:\n")


def scalar_text(spelling, place):
    return SCALAR_HEAD + dict(SCALAR_PLACES)[place] % spelling


def scalar_plain(ident, place):
    v = ident[1]
    t = {"value": {"x": v}, "item": ["k", v, "k"], "last-item": [v], "nested": {"x": {"y": [v]}}, "key": {v: "v"}}[place]
    return {"name": "k", "hosts": "all", "vars": {EXCL: "/hosts,/vars/insights_signature", SIG: "UExBQ0VIT0xERVI="}, "tasks": [t]}


def scalar_outcome(text):
    """digest of the play a text loads as (through load_playbook_yaml, exclusion, serialize_play, hash_play)"""
    try:
        plays = pv.load_playbook_yaml(text)
    except pv.PlaybookVerificationError:
        return "load-verr", None
    except Exception as e:
        return "load-crash:" + type(e).__name__, None
    if not isinstance(plays, list) or len(plays) != 1:
        return "not-one-play", None
    a, d, raw = impl_excl(plays[0])
    return (a.split("\t")[0], raw)


def float_token_problem(spelling, ident):
    """the token printed for a float must read back as exactly that float and must not be an integer's token"""
    try:
        v = pv.load_playbook_yaml("- x: %s\n" % spelling)[0]["x"]
        tok = PlaybookSerializer.serialize(v)
    except Exception as e:
        return "serialising the float raised %s" % type(e).__name__
    if not isinstance(tok, str):
        return "the serializer returned %s" % type(tok).__name__
    if re.match(r"^[-+]?[0-9]+$", tok):
        return "the float is printed as %r, the token of an integer" % tok
    try:
        back = float(tok)
    except ValueError:
        return "the float is printed as %r, which does not read back as a number" % tok
    want = ident[1]
    if want == "nan":
        return None if back != back else "nan is printed as %r" % tok
    import math
    if back != want or math.copysign(1.0, back) != math.copysign(1.0, want):
        return "the float %r is printed as %r, which reads back as %r" % (want, tok, back)
    return None


def scalar_pair_check(sp_a, id_a, sp_b, id_b, place):
    """-> failure text or None: two spellings of different values must not share a digest"""
    oa, ob = scalar_outcome(scalar_text(sp_a, place)), scalar_outcome(scalar_text(sp_b, place))
    if oa[0] != "ok" or ob[0] != "ok":
        return None
    if id_a != id_b and oa[1] == ob[1]:
        return "%s and %s (as %s) denote different values but the signed text is the same: %r" % (sp_a, sp_b, place, oa[1][-60:])
    return None


def run_scalars(chk, quick):
    rng = chk.rng
    table = list(SCALAR_TABLE)
    # random floats and integers around them, spelled by Python
    for _ in range(25 if quick else 400):
        f = rng.choice([rng.random(), rng.uniform(-1e6, 1e6), rng.uniform(-1, 1) * 10 ** rng.randrange(-30, 30), float(rng.randrange(-10 ** 6, 10 ** 6)),
                        rng.randrange(1, 10 ** 6) / 1000.0])
        sp = repr(f)
        if re.match(r"^-?[0-9]+\.[0-9]+(e[-+][0-9]+)?$", sp):       # YAML 1.2 float spellings only
            table.append((sp, ("f", f)))
            if f == int(f) and abs(f) < 1e15:
                table.append((str(int(f)), ("m", int(f))))
    cases, impl, lines = [], [], []
    by_place = {}
    for sp, ident in table:
        if ident[0] == "f":
            prob = float_token_problem(sp, ident)
            chk.count("scalars:float-token/" + ("ok" if prob is None else "bad"))
            if prob:
                chk.failure("scalar kinds: " + prob, {"op": "scalar-float", "spelling": sp, "value": repr(ident[1])})
        for place, _ in SCALAR_PLACES:
            if place == "key" and ident[0] in ("s", "o"):
                continue
            text = scalar_text(sp, place)
            o = scalar_outcome(text)
            chk.case(("scalar", sp, place), o[0] == "ok")
            chk.count("scalars:%s/%s/%s" % (ident[0], place, o[0]))
            if o[0] not in ("ok", "load-verr", "verr"):
                chk.failure("scalar kinds: the play with %s as %s ended as %s" % (sp, place, o[0]), {"op": "scalar-one", "spelling": sp, "place": place})
                continue
            if o[0] != "ok":
                if ident[0] == "m":
                    cases.append({"spelling": sp, "place": place})
                    impl.append(o[0])
                    lines.append("excl\t" + wire(scalar_plain(ident, place)))
                continue
            by_place.setdefault(place, []).append((sp, ident, o[1]))
            if ident[0] == "m":
                cases.append({"spelling": sp, "place": place})
                impl.append("ok\t" + enc(o[1].decode("utf-8", "replace")))
                lines.append("excl\t" + wire(scalar_plain(ident, place)))
    for place, rows in by_place.items():
        seen = {}
        for sp, ident, raw in rows:
            other = seen.get(raw)
            if other is None:
                seen[raw] = (sp, ident)
            elif other[1] != ident:
                chk.failure("scalar kinds: %s and %s (as %s) denote different values but the signed text is the same: %r"
                            % (other[0], sp, place, raw[-60:]),
                            {"op": "scalar-pair", "a": other[0], "b": sp, "ida": repr(other[1]), "idb": repr(ident), "place": place})
    out = run_driver("C18", lines)
    chk.compare("scalar kinds: every spelling of an integer, boolean, null or string the loader accepts = the model on the denoted value", cases, impl, out)


# ---- the command-line entry point as a whole: SKIP_VERIFY, empty / unloadable input, documents that are not a list of plays

def run_main_env(text, doc_bytes, skip_value):
    """like run_main, with SKIP_VERIFY set to skip_value (None = unset)"""
    old = os.environ.get("SKIP_VERIFY")
    import runpy
    saved = sys.stdin, sys.stdout, sys.stderr
    if skip_value is None:
        os.environ.pop("SKIP_VERIFY", None)
    else:
        os.environ["SKIP_VERIFY"] = skip_value
    sys.stdin, sys.stdout, sys.stderr = io.StringIO(text), io.StringIO(), io.StringIO()
    code, crashed = 0, False
    try:
        with Patched(doc_bytes):
            runpy.run_module(VLOG, run_name="__main__")
    except SystemExit as e:
        code = e.code if isinstance(e.code, int) else (0 if e.code is None else 1)
    except BaseException:
        code, crashed = 1, True
    finally:
        out, err = sys.stdout.getvalue(), sys.stderr.getvalue()
        sys.stdin, sys.stdout, sys.stderr = saved
        if old is None:
            os.environ.pop("SKIP_VERIFY", None)
        else:
            os.environ["SKIP_VERIFY"] = old
    printed = "printed" if out == text + "\n" else "silent" if out == "" else "printed-something-else"
    ex = "traceback" if crashed else "exit0" if code == 0 else "exitbad" if code == 101 else "exit-%s" % code
    return ex + "\t" + printed, err


def main2_case(rng):
    g = gen_signed_play(rng)
    if g is None:
        return None
    _, digest, raw = impl_excl(to_ruamel(g))
    if digest is None:
        return None
    g["vars"][SIG] = fake_sign(digest)
    texts = {binascii.hexlify(digest).decode(): raw.decode("utf-8")}
    rdoc = {"name": "revocation list", "timestamp": 1632510092, "vars": {EXCL: "/vars/insights_signature", SIG: "UExBQ0VIT0xERVI="},
            "revoked_playbooks": []}
    _, rd, rraw = impl_excl(to_ruamel(rdoc))
    rdoc["vars"][SIG] = fake_sign(rd)
    texts[binascii.hexlify(rd).decode()] = rraw.decode("utf-8")
    u = copy.deepcopy(g)
    del u["vars"][SIG]
    shape = rng.choice(["good", "good2", "good-unsigned", "unsigned-good", "empty-text", "empty-list", "mapping", "scalar", "unloadable",
                        "list-of-scalars", "good-scalar", "empty-entry", "null-doc", "good-empty-entry"])
    try:
        gt = dump_yaml([to_ruamel(g)])
        ut = dump_yaml([to_ruamel(u)])
        d = denote(gt)
        if d[0] != "ok" or [canon(x) for x in d[1]] != [canon(g)]:
            return None
    except Exception:
        return None
    dy = lambda xs: dump_yaml(to_ruamel(copy.deepcopy(xs)))
    try:
        text, entries, load = {
            "good": (gt, [g], "loaded"), "good2": (dy([g, g]), [g, g], "loaded"), "good-unsigned": (dy([g, u]), [g, u], "loaded"),
            "unsigned-good": (dy([u, g]), [u, g], "loaded"), "empty-text": ("", [], "loaderr"), "empty-list": ("[]\n", [], "loaded"),
            "mapping": ("name: x\nhosts: all\n", ["name", "hosts"], "loaded"), "scalar": ("5\n", None, "loaded"),
            "unloadable": ("- name: [x\n", [], "loaderr"), "list-of-scalars": ("- a\n- b\n", ["a", "b"], "loaded"),
            "good-scalar": (dy([g, "a"]), [g, "a"], "loaded"), "empty-entry": ("- {}\n", [{}], "loaded"), "null-doc": ("~\n", None, "loaded"),
            "good-empty-entry": (dy([g, {}]), [g, {}], "loaded"),
        }[shape]
        if load == "loaded" and entries and isinstance(entries[0], dict) and entries[0]:
            d = denote(text)
            if d[0] != "ok" or [canon(x) for x in d[1]] != [canon(x) for x in entries]:
                return None
    except Exception:
        return None
    skip = rng.choice([None, None, None, "", "1", "0", "yes"])
    return {"op": "main2", "shape": shape, "text": text, "entries": None if entries is None else [to_json(e) for e in entries], "load": load,
            "skip": skip, "doc": dump_yaml([to_ruamel(rdoc)]), "rdoc": to_json(rdoc), "texts": texts}


def main2_eval(c):
    ans, err = run_main_env(c["text"], c["doc"].encode("utf-8"), c["skip"])
    skipping = bool(c["skip"])
    fails = []
    ents = None if c["entries"] is None else [from_json(e) for e in c["entries"]]
    all_good = c["load"] == "loaded" and ents is not None and all(isinstance(e, dict) and e and SIG in (e.get("vars") or {}) for e in ents)
    ex, printed = ans.split("\t")
    if not skipping:
        if printed != "silent" and not all_good:
            fails.append("the playbook was printed for Ansible although not every entry verified (document shape %s)" % c["shape"])
        if (ex == "exit0") != (printed == "printed"):
            fails.append("exit status and output disagree: %s / %s (document shape %s)" % (ex, printed, c["shape"]))
        if all_good and ans != "exit0\tprinted":
            fails.append("a document whose entries all verify ended as %s" % ans.replace("\t", " / "))
        if ex == "exitbad" and not err.strip():
            fails.append("rejected without a message on stderr")
    elif ans != "exit0\tprinted":
        fails.append("SKIP_VERIFY=%r: ended as %s" % (c["skip"], ans.replace("\t", " / ")))
    return ans, fails


def run_main2(chk, quick):
    rng = chk.rng
    n = 45 if quick else 800
    cs, impl, vlines, owners = [], [], [], []
    for _ in range(n):
        c = main2_case(rng)
        if c is None:
            continue
        ans, fails = main2_eval(c)
        chk.case(("main2", c["shape"], c["skip"], c["text"]), ans == "exit0\tprinted")
        chk.count("main2:%s/skip=%r -> %s" % (c["shape"], c["skip"], ans.replace("\t", "/")))
        for f in fails[:1]:
            chk.failure("command-line entry point: " + f, c)
        rplain = from_json(c["rdoc"])
        toks = []
        if c["entries"] is not None:
            for e in c["entries"]:
                e = from_json(e)
                if isinstance(e, dict):
                    toks.append(len(vlines))
                    vlines.append(model_verify_line(e, rplain, c["texts"]))
                else:
                    toks.append("notmap")
        cs.append(c)
        impl.append(ans)
        owners.append(toks)
    vout = run_driver("C18", vlines) if vlines else []
    mlines = []
    for c, toks in zip(cs, owners):
        if c["entries"] is None:
            mlines.append(None)          # a document that is a scalar / null: the `for` itself raises
            continue
        es = ",".join(t if t == "notmap" else vout[t] for t in toks) or "-"
        mlines.append("main\t%s\t%s\t%s" % ("1" if c["skip"] else "0", c["load"], es))
    mout = run_driver("C18", [l for l in mlines if l is not None])
    it = iter(mout)
    model = []
    for c, l in zip(cs, mlines):
        if l is None:
            model.append("exit0\tprinted" if c["skip"] else "traceback\tsilent")
        else:
            model.append(next(it))
    chk.compare("command-line entry point as a whole (SKIP_VERIFY, empty / unloadable input, documents that are not a list of plays) = the model's mainRun",
                [{"shape": c["shape"], "skip": c["skip"], "text": c["text"]} for c in cs], impl, model)


# ---- real signatures: the playbooks Red Hat signed that ship with the repo, through the real gnupg glue and the gpg binary

REAL_DIR = os.path.join("insights", "tests", "client", "apps", "playbooks")


def _repo_root():
    return os.path.dirname(os.path.dirname(os.path.abspath(sys.modules["insights"].__file__)))


def real_sources():
    """[(label, text)] of really signed plays: the shipped revocation list and the repo's example playbooks"""
    out = []
    try:
        out.append(("revocation-list", pv.pkgutil.get_data("insights", "revoked_playbooks.yaml").decode("utf-8")))
    except Exception:
        pass
    d = os.path.join(_repo_root(), REAL_DIR)
    if os.path.isdir(d):
        for fn in sorted(os.listdir(d)):
            if fn.endswith(".yml"):
                with io.open(os.path.join(d, fn), encoding="utf-8") as f:
                    out.append((fn, f.read()))
    return out


class RealGPGHome(object):
    """a scratch GnuPG home instead of /var/lib/insights for the time of the calls"""

    def __enter__(self):
        import tempfile
        from insights.client.constants import InsightsConstants as _c
        self.c, self.old, self.home = _c, _c.insights_core_lib_dir, tempfile.mkdtemp(prefix="c18gpg")
        _c.insights_core_lib_dir = self.home
        return self

    def __exit__(self, *a):
        import shutil
        self.c.insights_core_lib_dir = self.old
        shutil.rmtree(self.home, ignore_errors=True)


def leaf_paths(o, pre=()):
    out = []
    if isinstance(o, dict):
        for k, v in o.items():
            out += leaf_paths(v, pre + (k,))
    elif isinstance(o, list):
        for i, v in enumerate(o):
            out += leaf_paths(v, pre + (i,))
    else:
        out.append(pre)
    return out


def real_excluded(play, path):
    try:
        s_ = play["vars"][EXCL]
    except Exception:
        return False
    for el in str(s_).split(","):
        comps = [x for x in el.split("/") if x]
        if comps and list(path[:len(comps)]) == comps:
            return True
    return False


def real_apply(play, edit):
    """apply an edit descriptor to a freshly loaded play; returns False when it does not apply"""
    path = edit["path"]
    try:
        parent = play
        for k in path[:-1]:
            parent = parent[k]
        last = path[-1]
        if edit["kind"] == "set":
            if parent[last] == edit["new"] and type(parent[last]) is type(edit["new"]):
                return False
            parent[last] = edit["new"]
        elif edit["kind"] == "delete":
            del parent[last]
        elif edit["kind"] == "swap":
            a, b = parent[last], parent[last + 1]
            if dump_yaml([a]) == dump_yaml([b]):
                return False
            parent[last], parent[last + 1] = b, a
        elif edit["kind"] == "key-to-end":
            if list(parent.keys())[-1] == last:
                return False
            parent.move_to_end(last)
        else:
            return False
    except Exception:
        return False
    return True


def real_edit(rng, play):
    """a single edit outside / inside the excluded elements of a really signed play -> (descriptor, inside_excluded)"""
    paths = [p for p in leaf_paths(play) if list(p[:2]) not in (["vars", SIG], ["vars", EXCL])]
    if not paths:
        return None
    path = rng.choice(paths)
    v = play
    for k in path:
        v = v[k]
    kind = rng.choice(["set", "set", "set", "retype", "delete", "swap", "key-to-end"])
    if kind in ("set", "retype"):
        if isinstance(v, bool):
            new = (not v) if kind == "set" else str(v)
        elif isinstance(v, int):
            new = int(v) + rng.choice([1, -1, 10]) if kind == "set" else str(int(v))
        elif isinstance(v, float):
            new = float(v) + 1.0 if kind == "set" else int(v)
        elif isinstance(v, str):
            new = (str(v) + rng.choice(["x", " ", "'", "\\", "\n"])) if kind == "set" or not v.isdigit() else int(v)
            if kind == "set" and rng.random() < 0.3 and v:
                new = str(v)[:-1]
        elif v is None:
            new = "None" if kind == "retype" else ""
        else:
            return None
        e = {"kind": "set", "path": list(path), "new": new}
    elif kind == "delete":
        cut = rng.randrange(1, len(path) + 1)
        e = {"kind": "delete", "path": list(path[:cut])}
    elif kind == "swap":
        idx = [i for i, k in enumerate(path) if isinstance(k, int)]
        if not idx:
            return None
        i = rng.choice(idx)
        e = {"kind": "swap", "path": list(path[:i]) + [max(0, path[i] - 1)]}
    else:
        idx = [i for i, k in enumerate(path) if not isinstance(k, int)]
        if not idx:
            return None
        i = rng.choice(idx)
        e = {"kind": "key-to-end", "path": list(path[:i + 1])}
    if list(e["path"][:2]) in (["vars", SIG], ["vars", EXCL]) or e["path"] == ["vars"]:
        return None
    if e["kind"] == "delete" and real_excluded(play, e["path"]) and not real_excluded(play, e["path"][:-1]):
        return None          # deleting an element the exclusion list names: the request then fails, by design
    return e, real_excluded(play, e["path"])


def real_verify(label, text, index, edit):
    """verify() of entry `index` of a really signed text, after `edit` (None = as signed), with the real GPG"""
    plays = pv.load_playbook_yaml(text)
    play = plays[index]
    if edit is not None and not real_apply(play, edit):
        return "edit-does-not-apply"
    with RealGPGHome():
        try:
            r = pv.verify(play)
            return "ok" if r is play else "returned-other-object"
        except pv.PlaybookVerificationError as e:
            return "verr"
        except Exception as e:
            return "crash:" + type(e).__name__


def real_failure(label, edit, inside, ans):
    if ans == "edit-does-not-apply":
        return None
    if edit is None:
        return None if ans == "ok" else ("the play signed by Red Hat in %s is no longer accepted (%s): the digest of an unchanged play is not the one that was signed" % (label, ans))
    if inside:
        return None if ans == "ok" else ("an edit inside an excluded element of %s (%s at %s) ended as %s" % (label, edit["kind"], edit["path"], ans))
    if ans == "ok":
        return "a really signed play of %s was edited outside the excluded elements (%s at %s) and GPG still accepts the signature" % (label, edit["kind"], edit["path"])
    return None


def run_real(chk, quick):
    import shutil
    rng = chk.rng
    if shutil.which("gpg") is None and shutil.which("gpg2") is None:
        chk.count("real-gpg:no gpg binary, stream skipped")
        return
    n_edits = 9 if quick else 120
    cases, impl, lines = [], [], []
    for label, text in real_sources():
        try:
            plays = pv.load_playbook_yaml(text)
            n = len(plays)
        except Exception as e:
            chk.failure("real signatures: %s does not load (%s)" % (label, type(e).__name__), {"op": "realgpg", "label": label, "index": 0, "edit": None})
            continue
        for i in range(n):
            ans = real_verify(label, text, i, None)
            chk.case(("real", label, i, None), ans == "ok")
            chk.count("real-gpg:as-signed/%s" % ans)
            f = real_failure(label, None, False, ans)
            if f:
                chk.failure("real signatures: " + f, {"op": "realgpg", "label": label, "index": i, "edit": None})
            # the model on the really signed text, where the play is inside the model's value type
            # (the signature is a !!binary, outside the value type, and excluded from the digest: a string stands in for it)
            try:
                twin = copy.deepcopy(plays[i])
                if isinstance(twin["vars"][SIG], bytes) and real_excluded(twin, ("vars", SIG)):
                    twin["vars"][SIG] = "SIGNATURE"
                plain = from_ruamel(twin)
            except Exception:
                plain = None
                chk.count("real-gpg:outside-the-model-types")
            if plain is not None:
                a0, d0, raw0 = impl_excl(plays[i])
                a1, d1, raw = impl_excl(twin)
                if a0 != a1:
                    chk.failure("real signatures: the signature value of %s, an excluded element, is reflected in the digest" % label,
                                {"op": "realgpg", "label": label, "index": i, "edit": {"kind": "set", "path": ["vars", SIG], "new": "SIGNATURE"}, "inside": True})
                cases.append({"label": label, "index": i})
                impl.append(a1)
                lines.append("excl\t" + wire(plain))
            for _ in range(n_edits):
                made = real_edit(rng, plays[i])
                if made is None:
                    continue
                edit, inside = made
                ans = real_verify(label, text, i, edit)
                chk.case(("real", label, i, json.dumps(edit, sort_keys=True, default=str)), ans == "verr" and not inside)
                chk.count("real-gpg:%s%s/%s" % (edit["kind"], "-inside-excluded" if inside else "", ans))
                f = real_failure(label, edit, inside, ans)
                if f:
                    chk.failure("real signatures: " + f, {"op": "realgpg", "label": label, "index": i, "edit": edit, "inside": inside})
    out = run_driver("C18", lines) if lines else []
    chk.compare("real signatures: the text Red Hat signed (repo's example playbooks, shipped revocation list) = the model's serialisation of the cleaned play",
                cases, impl, out)


def replay_real(c):
    texts = dict(real_sources())
    if c["label"] not in texts:
        print("source %s not found" % c["label"])
        return False
    ans = real_verify(c["label"], texts[c["label"]], c["index"], c.get("edit"))
    f = real_failure(c["label"], c.get("edit"), c.get("inside", False), ans)
    print("%s entry %d, edit %s -> %s" % (c["label"], c["index"], json.dumps(c.get("edit"), default=str), ans))
    if f:
        print("  " + f)
    return f is not None


# ---- integers at and beyond Python's int -> str digit limit (str(n) raises ValueError for |n| >= 10**4300)

BIG_DIGITS = 4000          # from here on the harness itself never uses str()/int() on the integer


def int_from_dec(s):
    """int(s) without the interpreter's digit limit"""
    neg = s.startswith("-")
    if neg:
        s = s[1:]
    if len(s) <= BIG_DIGITS:
        v = int(s)
    else:
        v = int_from_dec(s[:-2000]) * 10 ** 2000 + int(s[-2000:])
    return -v if neg else v


def is_big(n):
    return isinstance(n, int) and not isinstance(n, bool) and abs(n) >= 10 ** BIG_DIGITS


def int_tag(n):
    """short printable identity of an integer (for keys, counts and messages)"""
    h = "%x" % n
    return h if len(h) <= 40 else "%s..%s(%d hex digits, sha %s)" % (h[:8], h[-6:], len(h.lstrip("-")), hashlib.sha256(h.encode()).hexdigest()[:10])


BIG_PLACES = ["value", "item", "last-item", "nested", "key", "excluded", "top-key"]


def big_plain(n, place):
    t = {"value": {"x": n}, "item": ["k", n, "k"], "last-item": [n], "nested": {"x": {"y": [n]}}, "key": {n: "v"}}.get(place, "t")
    p = {"name": "k", "hosts": "all", "vars": {EXCL: "/hosts,/vars/insights_signature", SIG: "UExBQ0VIT0xERVI="}, "tasks": [t]}
    if place == "excluded":
        p["hosts"] = {"a": [n]}
    if place == "top-key":
        p[n] = "v"
    return p


def big_cleaned(p):
    q = dict((k, v) for k, v in p.items() if k != "hosts")
    q["vars"] = dict((k, v) for k, v in p["vars"].items() if k != SIG)
    return q


def big_text(lit, place):
    if place == "excluded":
        return SCALAR_HEAD.replace("hosts: all\n", "hosts:\n    a: [%s]\n" % lit) + "    - t\n"
    if place == "top-key":
        return SCALAR_HEAD + "    - t\n  %s: v\n" % lit
    return scalar_text(lit, place)


def big_ints(rng, quick):
    """[(label, integer, sibling or None)]: sibling = the decimal integer whose digits are the hex / octal digits of the integer"""
    out = []
    L = 10 ** 4300
    for lab, n in (("limit-1", L - 1), ("limit", L), ("limit+1", L + 1), ("-limit+1", -(L - 1)), ("-limit", -L)):
        out.append((lab, n, None))
    for d in (4299, 4300, 4301, 5000):
        out.append(("%d-digits" % d, 10 ** (d - 1) + rng.randrange(10 ** 50), None))
    ks = [3500, 3572, 3600, 4300] if quick else [3500, 3550, 3571, 3572, 3573, 3600, 3800, 4000, 4299, 4300]
    for k in ks:
        for dg in ("1", "9", None):
            ds = dg * k if dg else "".join(rng.choice("0123456789") for _ in range(k - 1)) + "7"
            ds = ds.lstrip("0") or "1"
            out.append(("hex-decimal-digits-%d-%s" % (k, dg or "mixed-decimal"), int(ds, 16), int_from_dec(ds)))
        hx = rng.choice("123456789abcdef") + "".join(rng.choice("0123456789abcdef") for _ in range(k - 1))
        out.append(("hex-%d" % k, int(hx, 16), None))
    out.append(("-hex-3600-ones", -int("1" * 3600, 16), -int_from_dec("1" * 3600)))
    out.append(("octal-sevens-4790", int("7" * 4790, 8), int_from_dec("7" * 4790)))
    out.append(("octal-ones-4300", int("1" * 4300, 8), int_from_dec("1" * 4300)))
    out.append(("binary-14300", int("1" + "01" * 7150, 2), None))
    return out


def big_eval_object(p, kind):
    obj = to_kind(p, kind)
    a1, d1, raw = impl_excl(obj)
    a2, d2 = impl_vplay(obj)
    return a1, (a2 if a2 != "ok" else "ok\t" + binascii.hexlify(d2).decode()), raw


def big_eval_text(text):
    try:
        plays = pv.load_playbook_yaml(text)
    except pv.PlaybookVerificationError:
        return "load-verr", "load-verr", None
    except Exception as e:
        return "load-crash", "load-crash", None
    if not isinstance(plays, list) or len(plays) != 1:
        return "not-one-play", "not-one-play", None
    a1, d1, raw = impl_excl(plays[0])
    a2, d2 = impl_vplay(plays[0])
    return a1, (a2 if a2 != "ok" else "ok\t" + binascii.hexlify(d2).decode()), raw


def big_readback(raws):
    """[(raw bytes, expected cleaned plain play)] -> failure texts: the text must decode (model's decoder) to exactly that play"""
    if not raws:
        return []
    out = run_driver("C18", ["decv\t" + enc(r.decode("utf-8", "replace")) for r, _ in raws])
    fails = []
    for (r, want), g in zip(raws, out):
        f = g.split("\t")
        ok = False
        if f[0] == "some" and len(f) == 3 and f[2] == "-":
            try:
                ok = canon(unwire(f[1])) == canon(want)
            except Exception:
                ok = False
        fails.append(None if ok else "the serialisation does not read back as the play it was made from (an integer is written so that it reads as another value): ...%r" % r[-70:])
    return fails


def run_bigint(chk, quick):
    rng = chk.rng
    cases, impl, lines = [], [], []
    pools = {}
    readback = []
    for lab, n, sib in big_ints(rng, quick):
        for place in BIG_PLACES:
            group = [(n, lab)] + ([(sib, lab + "/decimal-sibling")] if sib is not None else [])
            for m, mlab in group:
                p = big_plain(m, place)
                runs = [("object:" + k, big_eval_object(p, k)) for k in (["ruamel", "plain"] if m is n and (place in ("value", "key") or not quick) else ["ruamel"])]
                if m is n:
                    lits = [("hex", ("-0x%x" % -m) if m < 0 else "0x%x" % m)]
                    if "octal" in lab:
                        lits = [("octal", "0o%o" % m)]
                    if "binary" in lab:
                        lits = [("binary", "0b" + format(m, "b"))]
                    if abs(m) < 10 ** 4300:
                        lits.append(("decimal", str(m)))
                    for ll, lit in lits:
                        r = big_eval_text(big_text(lit, place))
                        if r[0] in ("load-verr",):
                            chk.count("digit-limit:text-%s/%s/load refused" % (ll, place))
                            continue
                        runs.append(("text:" + ll, r))
                line = "evg\t%s\t%s" % (bad_sigs(p), wire(p))
                for via, (a1, a2, raw) in runs:
                    key = ("bigint", mlab, place, via)
                    chk.case(key, a1.startswith("ok"))
                    beyond = abs(m) >= 10 ** 4300
                    chk.count("digit-limit:%s/%s/%s -> %s" % ("beyond" if beyond else "below", place, via.split(":")[0], a1.split("\t")[0]))
                    case = {"op": "bigint", "label": mlab, "int": "%x" % m, "place": place, "via": via}
                    if a1.split("\t")[0] not in ("ok", "verr", "crash"):
                        chk.failure("digit limit: the play with the integer %s as %s (%s) ended as %s" % (int_tag(m), place, via, a1[:30]), case)
                    if raw is not None and place == "excluded":
                        readback.append((raw, big_cleaned(p), case, m, place, via))     # the integer is not under the digest
                    elif raw is not None:
                        other = pools.setdefault(place, {}).get(raw)
                        if other is None:
                            pools[place][raw] = (m, mlab, via)
                        elif other[0] != m:
                            chk.failure("digit limit: two plays that differ in one integer (%s: %s and %s: %s, as %s) have the same serialisation ...%r"
                                        % (other[1], int_tag(other[0]), mlab, int_tag(m), place, raw[-60:]),
                                        {"op": "bigint-pair", "a": "%x" % other[0], "b": "%x" % m, "place": place, "via_a": other[2], "via_b": via})
                        readback.append((raw, big_cleaned(p), case, m, place, via))
                    cases.append({"label": mlab, "place": place, "via": via})
                    impl.append(a1 + ";" + a2)
                    lines.append(line)
    rb = big_readback([(r, w) for r, w, _, _, _, _ in readback])
    for (r, w, case, m, place, via), f in zip(readback, rb):
        if f:
            chk.failure("digit limit: integer %s as %s (%s): %s" % (int_tag(m), place, via, f), case)
    uniq = sorted(set(lines))
    out = dict(zip(uniq, run_driver("C18", uniq)))
    model = []
    for l in lines:
        b = out[l]
        e, v = b.split(";") if ";" in b else (b, b)
        f = v.split("\t")
        v = "ok\t" + hashlib.sha256(dec(f[1]).encode("utf-8")).hexdigest() if f[0] == "ok" else v
        model.append(e + ";" + v)
    chk.compare("digit limit: integers of 4299-5000 digits (hex / octal / binary literals, Python ints) at every place = the model with the refusal (excludeSerG / verifyPlayG)",
                cases, impl, model)


def big_replay_one(m, place, via):
    p = big_plain(m, place)
    if via.startswith("object:"):
        return big_eval_object(p, via.split(":")[1]), p
    ll = via.split(":")[1]
    lit = {"hex": ("-0x%x" % -m) if m < 0 else "0x%x" % m, "octal": ("-0o%o" % -m) if m < 0 else "0o%o" % m,
           "binary": "0b" + format(m, "b")}.get(ll)
    if lit is None:
        lit = str(m)
    return big_eval_text(big_text(lit, place)), p


def replay_bigint(c):
    if c["op"] == "bigint":
        m = int(c["int"], 16)
        (a1, a2, raw), p = big_replay_one(m, c["place"], c["via"])
        print("integer %s as %s (%s): exclusion+serialisation %s, verify_play %s" % (int_tag(m), c["place"], c["via"], a1[:12], a2[:24]))
        if a1.split("\t")[0] not in ("ok", "verr", "crash"):
            return True
        if raw is None:
            print("  refused: no digest")
            return False
        f = big_readback([(raw, big_cleaned(p))])[0]
        print("  " + (f or "the serialisation reads back as the play"))
        return f is not None
    a, b = int(c["a"], 16), int(c["b"], 16)
    ra, _ = big_replay_one(a, c["place"], c["via_a"])
    rb, _ = big_replay_one(b, c["place"], c["via_b"])
    same = ra[2] is not None and ra[2] == rb[2]
    print("integers %s and %s as %s: %s" % (int_tag(a), int_tag(b), c["place"], "the same serialisation" if same else "different serialisations / refused"))
    return same and a != b


def replay_round10(c):
    op = c.get("op")
    if op == "realgpg":
        return replay_real(c)
    if op in ("bigint", "bigint-pair"):
        return replay_bigint(c)
    if op == "glue":
        GlueGPG.real_key = pv.PUBLIC_KEY_PATH
        ans, mline, fails = glue_eval(c)
        print("%s of a %s play, key file %s, import count %s, status text %r, revocation document %s -> %s" % (
            c["entry"], c["what"], c["key"], c["count"], c["status"], c["doc_mode"], ans[:40]))
        for f in fails:
            print("  " + f)
        return bool(fails)
    if op == "kinds":
        p = from_json(c["play"])
        res = kinds_eval(p)
        for k in KINDS:
            print("  %-15s exclusion+digest %s; verify_play %s" % (k, res[k][0][:50], res[k][1][:30]))
        fails = kinds_failures(p, res)
        for f in fails:
            print("  " + f)
        return bool(fails)
    if op == "scalar-float":
        ident = ("f", "nan" if c["value"] == "'nan'" else float(c["value"]))
        prob = float_token_problem(c["spelling"], ident)
        print("float %s: %s" % (c["spelling"], prob or "printed as a token that reads back as the same float"))
        return prob is not None
    if op == "scalar-pair":
        prob = scalar_pair_check(c["a"], c["ida"], c["b"], c["idb"], c["place"])
        print(prob or "the two spellings have different signed texts")
        return prob is not None
    if op == "scalar-one":
        o = scalar_outcome(scalar_text(c["spelling"], c["place"]))
        print("outcome: %s" % o[0])
        return o[0] not in ("ok", "load-verr", "verr")
    if op == "main2":
        ans, fails = main2_eval(c)
        print("document shape %s, SKIP_VERIFY=%r -> %s" % (c["shape"], c["skip"], ans.replace("\t", " / ")))
        for f in fails:
            print("  " + f)
        return bool(fails)
    return None


class Pool(object):
    """every play explored: digest <-> core must be a bijection"""

    def __init__(self, chk):
        self.chk = chk
        self.by_digest = {}
        self.by_core = {}

    def add(self, play, digest, core):
        chk = self.chk
        o = self.by_digest.get(digest)
        if o is None:
            self.by_digest[digest] = (core, play)
        elif o[0] != core:
            chk.failure("two plays that differ outside their excluded elements have the same digest %s"
                        % binascii.hexlify(digest).decode(), {"op": "pair", "a": to_json(o[1]), "b": to_json(play), "expect": "different"})
        o = self.by_core.get(core)
        if o is None:
            self.by_core[core] = (digest, play)
        elif o[0] != digest:
            chk.failure("two plays that differ only in excluded elements have different digests",
                        {"op": "pair", "a": to_json(o[1]), "b": to_json(play), "expect": "equal"})
        else:
            if canon(o[1]) != canon(play):
                chk.count("oracle:equal-core-pairs")


def oracle_errors(chk, play, answer, via, case=None):
    """the error clauses, on the outcome of exclude (via='excl') or verify_play / verify"""
    want = spec_core(play)
    cls = answer.split("\t")[0]
    case = case or {"op": via, "play": to_json(play)}
    if want[0] == "must-verr" and cls != "verr":
        chk.failure("%s: %s, but the outcome is %r instead of a verification error" % (via, want[1], cls), case)
    if via != "excl" and signature_missing(play) and cls != "verr":
        chk.failure("%s: the play has no signature, but the outcome is %r instead of a verification error" % (via, cls), case)


def load_corpus():
    d = os.path.join(VERIF, "corpus", "C18")
    out = []
    for f in sorted(os.listdir(d)):
        if f.endswith(".json"):
            j = json.load(open(os.path.join(d, f), encoding="utf-8"))
            j["file"] = f
            out.append(j)
    return out


def run(chk):
    rng = chk.rng
    quick = chk.tier == "quick"
    chk.rule = ("values and plays built from an alphabet of quotes, backslashes, control and zero-width characters, the "
                "serializer's own delimiters ('ordereddict(', \"', '\", '), (') and look-alike scalars (1/'1'/True/'True'/None/'None'); "
                "each play with several single edits (change, retype, insert, delete, reorder, wrap/unwrap/split/move, re-key, "
                "stringify, delimiter-collision merges) anywhere in the tree incl. inside hosts/vars; exclusion lists valid, "
                "invalid, missing, non-string; about a third of the plays go through the verifier's own YAML loader; "
                "plus large plays (serialised 3 KiB - 64 KiB, lengths 4095..4097, 8191..8194, 16382..16386, 65535..65537 and random) "
                "whose digest (hash_play, the one shown to GPG, the one compared with the revocation list) is compared with "
                "SHA-256 computed in one piece over the model's serialisation, each with single-character edits at and around "
                "multiples of 512/1024/4096/4097 of the serialised offset; "
                "plus histories of 2-6 verify / verify_play / execute_verification calls in one process (genuine, tampered re-using an "
                "earlier signature, the same again, other signatures, revoked before/after not revoked, logging levels varied per call), "
                "each call compared with the same call as the first call of a freshly forked process; "
                "plus YAML TEXTS rendered from plays and edited as text (repeated keys at every level, merge keys / anchors / aliases, a second "
                "document, tags, other scalar styles, comments / white space) through load_playbook_yaml, judged against an independent "
                "last-value-wins, merge-expanding reading of the text; plus plays that differ only in one code point among lone surrogates, "
                "'?', U+FFFD and valid characters; "
                "plus multi-entry documents (good, edited, unsigned, without vars, without hosts, revoked, not a mapping) through the "
                "command-line entry point, and histories of 2-4 loads with %YAML directives against a fresh process per load; "
                "plus (round 10) verify / verify_play with a GPG stand-in whose key file, import count and verdict object are parameters "
                "(genuine, tampered, wrongly signed, revoked, empty, non-base64 plays; revocation documents good / unloadable / not a list / empty); "
                "the same play as dict / OrderedDict / subclasses / the loader's scalar classes; a table of YAML scalar spellings (integers, booleans, "
                "nulls, strings inside the model; floats, dates, timestamps, binaries, sets, ordered maps outside it) at five places of a play; the "
                "command-line entry point with SKIP_VERIFY unset / empty / set on empty, unloadable and not-a-list-of-plays documents; "
                "non-trivial = distinct canonical play whose exclusion succeeds (a digest exists)")
    chk.assumptions = [
        "SHA-256 is treated as injective (the theorems are about the serialised text; the harness compares hash_play with hashlib on the model's text)",
        "GPG is replaced by a stand-in that accepts exactly the signature made for the digest it is shown (and the shipped revocation list's real signature for that list's digest); whether base64.b64decode accepts a signature string is taken from the standard library",
        "YAML loading (ruamel) is outside the model: plays enter as CommentedMap/CommentedSeq objects (built directly or loaded from rendered text)",
        "floats, timestamps, binaries and sets are outside the quantifier and the Lean value type; the harness searches them for two different values with one signed text",
        "the gpg binary and contrib/gnupg.py run only on the five really signed plays of the real-signature stream; elsewhere GPG is a stand-in whose key import count and verdict object are parameters",
        "YAML merge keys are expanded by load_playbook_yaml before the modelled functions see the play: the serialisation model has no merge notion; "
        "the expansion is tied by the text stream (edited texts against an independent merge-expanding reading) and by corpus/C18/merge_keys.json "
        "(each merge text must verify to the digest of the explicitly written play)",
    ]
    ref = RefServer()          # forked before this process makes any call into the verifier
    try:
        _run(chk, ref)
    finally:
        ref.close()


def _run(chk, ref):
    rng = chk.rng
    quick = chk.tier == "quick"
    n_vals = 2500 if quick else 60000
    n_plays = 700 if quick else 10000
    n_edits = 5 if quick else 8
    n_verify = 350 if quick else 4000
    chk.lean()
    run_load_regressions(chk, ref)       # first calls of this process into the verifier

    corpus = load_corpus()

    # ---------------- stream 1: the serializer on arbitrary values; injectivity over everything seen
    vals = []
    for c in corpus:
        if c.get("op") == "ser-pair":
            a, b = from_json(c["a"]), from_json(c["b"])
            vals += [a, b]
            ta, tb = impl_ser(to_ruamel(a)), impl_ser(to_ruamel(b))
            chk.witnesses.append({"corpus": c["file"], "distinct_now": ta != tb})
            if ta == tb and canon(a) != canon(b):
                chk.failure("regression witness %s: different values, same serialisation %r" % (c["file"], dec(ta)),
                            {"op": "ser-pair", "a": c["a"], "b": c["b"]})
    for _ in range(n_vals):
        v = gen_value(rng, 3)
        vals.append(v)
        if rng.random() < 0.5:
            vals.append(one_edit(rng, v)[1])
    impl, seen = [], {}
    for v in vals:
        plain_obj = rng.random() < 0.2
        t = impl_ser(copy.deepcopy(v) if plain_obj else to_ruamel(v))   # dict/list are accepted like CommentedMap/Seq
        impl.append(t)
        cv = canon(v)
        chk.case(("ser", cv), cv not in seen.values() and isinstance(v, (dict, list)))
        chk.count("ser:" + ("map" if isinstance(v, dict) else "seq" if isinstance(v, list) else "scalar"))
        o = seen.get(t)
        if o is None:
            seen[t] = cv
        elif o != cv:
            chk.failure("serializer not injective: two different values print as %r" % dec(t)[:200],
                        {"op": "ser-collision", "b": to_json(v), "text": dec(t)})
    lines = ["ser\t" + wire(v) for v in vals]
    rt_lines = ["rt\t" + wire(v) for v in vals[:400]]
    out = run_driver("C18", lines + rt_lines)
    chk.compare("serialize", vals, impl, out[:len(vals)], show=to_json)
    # failing-input search when the tie on the serializer broke: read the implementation's text with the
    # model's decoder; if that yields another value which the implementation prints the same way, the
    # two values are a collision
    bad = [(v, t) for v, t, m in zip(vals, impl, out[:len(vals)]) if t != m and not t.startswith("crash:")][:400]
    if bad:
        got = run_driver("C18", ["decv\t" + t for _, t in bad])
        for (v, t), g in zip(bad, got):
            f = g.split("\t")
            if f[0] == "some" and f[2] == "-":
                try:
                    v2 = unwire(f[1])
                except Exception:
                    continue
                if canon(v2) != canon(v) and impl_ser(to_ruamel(v2)) == t:
                    chk.failure("serializer not injective: two different values print as %r" % dec(t)[:200],
                                {"op": "ser-pair", "a": to_json(v), "b": to_json(v2)})
    chk.compare("decode(ser v)=v (model self-check)", vals[:400], ["1"] * len(rt_lines), out[len(vals):], show=to_json)
    chk.sample({"serialize": to_json(vals[len(corpus) * 2 + 1]), "impl": dec(impl[len(corpus) * 2 + 1])})

    # ---------------- stream 2+3: plays and their edits: exclusion, digest, verify_play
    plays = []
    for c in corpus:
        if c.get("op") in ("pair", "excl", "vplay"):
            for k in ("a", "b", "play"):
                if k in c:
                    plays.append(("corpus", from_json(c[k])))
    for _ in range(n_plays):
        p = gen_play(rng)
        plays.append(("base", p))
        for _ in range(n_edits):
            kind, q = one_edit(rng, p)
            if isinstance(q, dict):
                plays.append((kind, q))
                if touches_excluded_only(p, q):
                    chk.count("edit:inside-excluded-only")
    pool = Pool(chk)
    impl_e, impl_v, lines_e, lines_v, shown = [], [], [], [], []
    for kind, p in plays:
        obj = None
        if rng.random() < 0.33:
            obj = via_yaml(p)
            chk.count("input:via-yaml-loader" if obj is not None else "input:yaml-roundtrip-differs")
        if obj is None:
            obj = to_ruamel(p)
        ans, digest, raw = impl_excl(obj)
        if canon(from_ruamel(obj)) != canon(p):
            chk.failure("exclude_dynamic_elements modified the play it was given", {"op": "excl", "play": to_json(p)})
        impl_e.append(ans)
        lines_e.append("excl\t" + wire(p))
        core = spec_core(p)
        chk.case(("play", canon(p)), digest is not None)
        chk.count("edit:" + kind)
        chk.count("excl:" + ans.split("\t")[0] + "/" + core[0])
        oracle_errors(chk, p, ans, "excl")
        if digest is not None:
            if digest != hashlib.sha256(raw).digest():
                chk.failure("hash_play is not SHA-256 of the serialised play", {"op": "excl", "play": to_json(p)})
            if core[0] == "core":
                pool.add(p, digest, core[1])
        a2, d2 = impl_vplay(obj)
        impl_v.append(a2 if a2 != "ok" else "ok\t" + binascii.hexlify(d2).decode())
        lines_v.append("vplay\t%s\t%s" % (bad_sigs(p), wire(p)))
        oracle_errors(chk, p, a2, "verify_play")
        if a2 == "ok" and digest is not None and d2 != digest:
            chk.failure("verify_play checks a digest other than hash(serialize(exclude(play)))", {"op": "vplay", "play": to_json(p)})
        chk.count("vplay:" + a2)
    both = run_driver("C18", ["ev" + l[5:] for l in lines_v])      # one request per play: exclusion answer ; verify_play answer
    out = [b.split(";")[0] for b in both] + [b.split(";")[1] if ";" in b else b for b in both]
    only = [p for _, p in plays]
    chk.compare("exclude+serialize_play", only, impl_e, out[:len(plays)], show=to_json)
    mv = []
    for a in out[len(plays):]:
        f = a.split("\t")
        mv.append("ok\t" + hashlib.sha256(dec(f[1]).encode("utf-8")).hexdigest() if f[0] == "ok" else a)
    chk.compare("verify_play (digest shown to GPG)", only, impl_v, mv, show=to_json)
    for kind, p in plays[len(plays) // 2:len(plays) // 2 + 2]:
        chk.sample({"play": to_json(p), "edit": kind, "exclude": impl_excl(to_ruamel(p))[0][:300]})

    # ---------------- stream 4: verify() end to end: signatures bound to cores, revocation lists
    real_doc = pv.pkgutil.get_data("insights", "revoked_playbooks.yaml")
    real_plain = None
    try:
        rp = pv.yaml.load(real_doc)[0]
        rp_bytes = pv.serialize_play(pv.exclude_dynamic_elements(rp))
        rp_text = rp_bytes.decode("utf-8")
        FakeGPG.real = (base64.b64decode(rp["vars"][SIG]), pv.hash_play(rp_bytes))
        rp["vars"][SIG] = "REAL-GPG-SIGNATURE"          # a binary in the file; opaque to the model
        real_plain = from_ruamel(rp)
    except Exception as e:
        chk.tie_broken("shipped revocation list", "insights/revoked_playbooks.yaml does not load as a signed play: %r" % (e,), None)

    def sig_table(texts, *docs):
        """which signature strings GPG accepts for which signed text (signatures are compared after base64 decoding)"""
        tab = []
        for d in docs:
            v = d.get("vars") if isinstance(d, dict) else None
            sg = v.get(SIG) if isinstance(v, dict) else None
            if not isinstance(sg, str):
                continue
            if sg == "REAL-GPG-SIGNATURE" and d is real_plain:
                tab.append((sg, rp_text))
                continue
            try:
                b = base64.b64decode(sg)
            except Exception:
                continue
            if b.startswith(b"FAKESIG:") and b[8:].decode("ascii", "replace") in texts:
                tab.append((sg, texts[b[8:].decode("ascii", "replace")]))
        return tab
    cases, impl, lines = [], [], []
    for n in range(n_verify):
        p = gen_play(rng)
        if rng.random() < 0.8:   # mostly verifiable plays
            p.setdefault("vars", {})
            if not isinstance(p["vars"], dict):
                p["vars"] = {}
            p["vars"][EXCL] = rng.choice(GOOD_EXCL[:7])
            p["vars"][SIG] = "UExBQ0VIT0xERVI="
            for c in spec_requests(p)[1]:
                if len(c) == 1 and c[0] == "hosts":
                    p.setdefault("hosts", "all")
                if len(c) == 2 and c[0] == "hosts":
                    if not isinstance(p.get("hosts"), dict):
                        p["hosts"] = {}
                    p["hosts"].setdefault(c[1], "w")
                if len(c) == 2 and c[0] == "vars":
                    p["vars"].setdefault(c[1], "d")
        ans, digest, raw = impl_excl(to_ruamel(p))
        hashtab, texts = [], {}
        signed_core = None
        if digest is not None and isinstance(p.get("vars"), dict):
            sig = fake_sign(digest)
            p["vars"][SIG] = sig
            texts[binascii.hexlify(digest).decode()] = raw.decode("utf-8")
            signed_core = spec_core(p)
        # the play that is presented: the signed one or one edit of it
        q, kind = p, "signed"
        if rng.random() < 0.6:
            kind, q = one_edit(rng, p)
            if not isinstance(q, dict):
                q, kind = p, "signed"
        ansq, dq, rawq = impl_excl(to_ruamel(q))
        if dq is not None:
            texts[binascii.hexlify(dq).decode()] = rawq.decode("utf-8")
        # revocation document
        mode = rng.choice(["empty", "other", "revoked", "revoked", "real", "badsig", "nolist", "malformed"])
        entries = []
        if mode in ("other", "revoked"):
            for _ in range(rng.choice([1, 2, 3])):
                t = "other-%d" % rng.randrange(10 ** 6)
                entries.append({"name": "x", "hash": hashlib.sha256(t.encode()).hexdigest()})
                hashtab.append((entries[-1]["hash"], t))
        revoked = False
        if mode == "revoked" and dq is not None:
            h = binascii.hexlify(dq).decode()
            if rng.random() < 0.3:
                h = h.upper()
            entries.insert(rng.randrange(len(entries) + 1), {"name": "bad play", "hash": h})
            hashtab.append((h, rawq.decode("utf-8")))
            revoked = True
        if mode == "malformed":
            entries = rng.choice([[{"name": "no hash"}], [{"name": "x", "hash": 5}], "abc", 5, None, {"a": 1}, [], {}])
        if mode == "real" and real_plain is not None:
            doc_bytes, rplain = None, real_plain
        else:
            rdoc = {"name": "revocation list", "timestamp": 1632510092,
                    "vars": {EXCL: "/vars/insights_signature", SIG: "UExBQ0VIT0xERVI="}}
            if mode != "nolist":
                rdoc["revoked_playbooks"] = entries
            _, rd, rraw = impl_excl(to_ruamel(rdoc))
            rsig = fake_sign(rd if mode != "badsig" else b"\0" * 32)
            rdoc["vars"][SIG] = rsig
            texts[binascii.hexlify(rd).decode()] = rraw.decode("utf-8")
            doc_bytes = dump_yaml([to_ruamel(rdoc)]).encode("utf-8")
            try:
                rplain = from_ruamel(pv.yaml.load(doc_bytes)[0])
            except Exception:
                continue
        sigtab = sig_table(texts, q, rplain)
        a = impl_verify(to_ruamel(q), doc_bytes)
        cases.append({"play": to_json(q), "revocation": mode, "edit": kind})
        impl.append(a)
        enc_tab = lambda tab: ",".join(enc(x) + ":" + enc(y) for x, y in tab) if tab else "-"
        lines.append("verify\t%s\t%s\t%s\t%s\t%s" % (bad_sigs(q, rplain), enc_tab(sigtab), enc_tab(hashtab), wire(rplain), wire(q)))
        chk.case(("verify", canon(q), mode), a == "ok" or revoked)
        chk.count("verify:%s/%s" % (mode, a))
        case = {"op": "verify", "play": to_json(q), "signed": to_json(p), "revocation_doc": doc_bytes.decode("utf-8") if doc_bytes else None}
        if a == "ok":
            if revoked:
                chk.failure("verify() accepted a play whose digest is on the revocation list", case)
            if signed_core is None or spec_core(q) != signed_core:
                chk.failure("verify() accepted a play whose signature was made for a play that differs outside the excluded elements", case)
            if mode == "badsig":
                chk.failure("verify() accepted a play although the revocation list's own signature is invalid", case)
        oracle_errors(chk, q, a, "verify", case)
    out = run_driver("C18", lines)
    chk.compare("verify (signature, revocation)", cases, impl, out)
    if cases:
        chk.sample({"verify": cases[0], "impl": impl[0]})

    # ---------------- stream 5: large plays (3 KiB - 64 KiB): the digest covers every byte
    run_large(chk, quick)

    # ---------------- stream 6: histories of calls in one process vs. a fresh process per call
    run_histories(chk, ref, quick)

    # ---------------- stream 7: the TEXT entry point (edits of the YAML text) and strings UTF-8 cannot encode
    run_text_and_encoding(chk, quick)

    # ---------------- stream 8: the command-line entry point on multi-entry documents; histories of loads
    run_main_stream(chk, quick)
    run_load_histories(chk, ref, quick)

    # ---------------- round 10: GPG glue as parameters, object kinds, scalar kinds, the entry point as a whole
    run_glue(chk, quick)
    run_kinds(chk, quick)
    run_scalars(chk, quick)
    run_main2(chk, quick)
    run_real(chk, quick)
    run_bigint(chk, quick)

    # ---------------- regression witnesses of the repaired defect 5a7421c (non-string list, non-mapping vars)
    for c in corpus:
        if c.get("op") == "vplay":
            w = from_json(c["play"])
            a1 = impl_excl(to_ruamel(w))[0].split("\t")[0]
            a2, _ = impl_vplay(to_ruamel(w))
            chk.witnesses.append({"corpus": c["file"], "exclude": a1, "verify_play": a2})
            if a1 != "verr" or a2 != "verr":
                chk.failure("regression witness %s: exclude_dynamic_elements -> %s, verify_play -> %s instead of a verification error"
                            % (c["file"], a1, a2), {"op": "verify_play", "play": c["play"]})


# ------------------------------------------------------------------ replay

class _Collect(object):
    def __init__(self):
        self.failures = []

    def failure(self, desc, case, finding=None):
        self.failures.append(desc)


def replay(data):
    c = data["case"]
    op = c.get("op")
    r10 = replay_round10(c)
    if r10 is not None:
        print("property violated on this input" if r10 else "property holds on this input")
        return 1 if r10 else 0
    if op == "text-edit":
        col = _Collect()
        o0, o1 = text_outcome(c["text0"]), text_outcome(c["text1"])
        d0, d1 = denote(c["text0"]), denote(c["text1"])
        print("original text: %s; edited text (%s): %s" % (o0, c.get("edit"), o1))
        print("the edited text denotes %s outside the excluded elements" % (
            "the same play" if d1[0] == "ok" and denoted_cores(d1) == denoted_cores(d0) else "another play" if d1[0] == "ok" else "nothing loadable (%s)" % d1[1]))
        if c.get("edit") == "code point":
            bad = o0[0] == "digests" and o0 == o1 and c["text0"] != c["text1"]
        else:
            check_text_pair(col, c["text0"], c["text1"], c.get("edit"))
            bad = bool(col.failures)
        print("property violated on this input" if bad else "property holds on this input")
        return 1 if bad else 0
    if op == "main":
        cls, code, out = run_main(c["text"], c["doc"].encode("utf-8"))
        want = all(n in ("G", "G2", "H", "X") for n in c["entries"])
        print("entries %s: the entry point ended as %s (exit status %s, %d characters printed); every entry verifies: %s" % (
            "+".join(c["entries"]), cls, code, len(out), want))
        bad = (cls == "accepted" and not want) or cls not in ("accepted", "verr", "crash")
        print("property violated on this input" if bad else "property holds on this input")
        return 1 if bad else 0
    if op == "loads":
        ref = RefServer()
        try:
            refs = ref.run([{"entry": "text", "text": t} for t in c["texts"]])
            bad = False
            for t in c.get("before") or []:
                do_call({"entry": "text", "text": t})
            for i, (t, want) in enumerate(zip(c["texts"], refs)):
                got = do_call({"entry": "text", "text": t})
                print("load %d (%s): %s; first in a fresh process: %s" % (i + 1, t.split("\n")[0][:12] if t.startswith("%YAML") else "no directive",
                                                                         got["verdict"][:40], want["verdict"][:40]))
                bad = bad or got["verdict"] != want["verdict"]
        finally:
            ref.close()
        print("property violated on this input" if bad else "property holds on this input")
        return 1 if bad else 0
    if op == "text-equal":
        o0, o1 = text_outcome(c["text0"]), text_outcome(c["text1"])
        print("reference text: %s\ntext under test: %s\nexpected: %s digests" % (o0, o1, c["expect"]))
        bad = o1[0] != "digests" or ((o0 == o1) != (c["expect"] == "equal"))
        print("property violated on this input" if bad else "property holds on this input")
        return 1 if bad else 0
    if op == "surrogate-pair":
        a, b = from_json(c["a"]), from_json(c["b"])
        ra, rb = impl_vplay(to_ruamel(a)), impl_vplay(to_ruamel(b))
        print("a: %s %s\nb: %s %s" % (ra[0], binascii.hexlify(ra[1] or b"").decode()[:16], rb[0], binascii.hexlify(rb[1] or b"").decode()[:16]))
        bad = ra[0] == "ok" and rb[0] == "ok" and ra[1] == rb[1] and canon(a) != canon(b)
        print("property violated on this input" if bad else "property holds on this input")
        return 1 if bad else 0
    if op == "history":
        ref = RefServer()          # before any call into the verifier in this process
        try:
            col = _Collect()
            h = {"calls": [{"what": x.get("what"), "entry": x["entry"], "level": x["level"], "play": from_json(x["play"])} for x in c["calls"]]}
            print("replaying a history of %d calls: %s" % (len(h["calls"]), ", ".join("%s %s [%s]" % (x["entry"], x["what"], x["level"]) for x in h["calls"])))
            res = run_history(col, h, ref, c["doc"])
            for x, r in zip(h["calls"], res):
                print("  %s %s -> %s; GPG shown %s" % (x["entry"], x["what"], r["verdict"][:24], [d[:12] for d in r["seen"]] or "nothing"))
            for x, r in zip(h["calls"], res):
                # the per-call clause of the history stream: GPG must have been shown THIS play's digest
                q = x["play"]
                sg = q.get("vars", {}).get(SIG) if isinstance(q, dict) and isinstance(q.get("vars"), dict) else None
                dq = impl_excl(to_ruamel(q))[1] if isinstance(q, dict) else None
                if dq is not None and not signature_missing(q) and bad_sigs(q) == "-" and isinstance(sg, str) \
                        and r["verdict"] not in ("crash",) and not (x["entry"] == "verify" and len(r["seen"]) == 0) \
                        and binascii.hexlify(dq).decode() not in r["seen"]:
                    col.failures.append("%s %s: GPG was never shown the digest of this play (shown: %s)" % (
                        x["entry"], x["what"], [d[:12] for d in r["seen"]] or "nothing"))
            for f in col.failures:
                print("  " + f)
            bad = bool(col.failures)
        finally:
            ref.close()
        print("property violated on this input" if bad else "property holds on this input")
        return 1 if bad else 0
    print("replaying", json.dumps(c, ensure_ascii=False)[:2000])
    bad = False
    if op in ("ser-pair", "ser-collision"):
        b = from_json(c["b"])
        tb = impl_ser(to_ruamel(b))
        if "a" in c:
            a = from_json(c["a"])
            ta = impl_ser(to_ruamel(a))
        else:
            # the other value is recovered from the text by the model's decoder
            ta, a = enc(c["text"]), None
        m = run_driver("C18", ["ser\t" + wire(b)])[0]
        print("impl b: %r\nimpl a: %r\nmodel b: %r" % (dec(tb), dec(ta), dec(m) if m != "bad-op" else m))
        bad = ta == tb and (a is None or canon(a) != canon(b))
    elif op == "pair":
        a, b = from_json(c["a"]), from_json(c["b"])
        ra, rb = impl_excl(to_ruamel(a)), impl_excl(to_ruamel(b))
        ca, cb = spec_core(a), spec_core(b)
        print("impl a: %s\nimpl b: %s\ncores equal: %s" % (ra[0][:6] + " " + (binascii.hexlify(ra[1]).decode() if ra[1] else "-"),
                                                           rb[0][:6] + " " + (binascii.hexlify(rb[1]).decode() if rb[1] else "-"), ca == cb))
        if ra[1] is not None and rb[1] is not None and ca[0] == "core" and cb[0] == "core":
            bad = (ra[1] == rb[1]) != (ca == cb)
    elif op in ("excl", "verify_play", "vplay"):
        p = from_json(c["play"])
        a1 = impl_excl(to_ruamel(p))[0].split("\t")[0]
        a2 = impl_vplay(to_ruamel(p))[0]
        want = spec_core(p)
        m = run_driver("C18", ["excl\t" + wire(p), "vplay\t%s\t%s" % (bad_sigs(p), wire(p))])
        print("impl exclude: %s, verify_play: %s; model: %s, %s; oracle expects: %s" % (a1, a2, m[0].split("\t")[0], m[1].split("\t")[0], want[0:2] if want[0] != "core" else "a digest"))
        bad = (want[0] == "must-verr" and (a1 != "verr" or a2 != "verr")) or (signature_missing(p) and a2 != "verr")
    elif op == "verify":
        q, p = from_json(c["play"]), from_json(c["signed"])
        doc = c.get("revocation_doc")
        a = impl_verify(to_ruamel(q), doc.encode("utf-8") if doc is not None else None)
        dq = impl_excl(to_ruamel(q))[1]
        revoked = False
        if doc is not None and dq is not None:
            try:
                items = pv.yaml.load(doc)[0].get("revoked_playbooks", [])
                revoked = any(isinstance(i, dict) and str(i.get("hash", "")).lower() == binascii.hexlify(dq).decode() for i in items)
            except Exception:
                pass
        print("impl verify: %s; digest on the list: %s; core equals signed core: %s" % (a, revoked, spec_core(q) == spec_core(p)))
        want = spec_core(q)
        bad = (a == "ok" and (revoked or spec_core(q) != spec_core(p))) or (a != "verr" and (want[0] == "must-verr" or signature_missing(q)))
    elif op in ("large-digest", "large-edit"):
        p = from_json(c["play"])
        m = run_driver("C18", ["vplay\t-\t" + wire(p)])[0].split("\t")
        tbytes = dec(m[1]).encode("utf-8") if m[0] == "ok" else b""
        obj = to_ruamel(p)
        ans, d1, raw = impl_excl(obj)
        a2, d2 = impl_vplay(obj)
        dm = hashlib.sha256(tbytes).digest()
        print("serialisation: model %d bytes, implementation %s bytes; sha256(model text)=%s hash_play=%s shown to GPG=%s" % (
            len(tbytes), len(raw) if raw else "-", binascii.hexlify(dm).decode()[:16], binascii.hexlify(d1 or b"").decode()[:16],
            binascii.hexlify(d2 or b"").decode()[:16]))
        bad = d1 != dm or d2 != dm or (raw is not None and d1 != hashlib.sha256(raw).digest())
        if op == "large-edit" and d2 is not None:
            problem, d = large_edit_check(obj, c["path"], c["index"], c["new"], tbytes, c["offset"], d2)
            print("edit at serialised offset %d: %s" % (c["offset"], problem or "digest changes to SHA-256 of the edited serialisation"))
            bad = bad or problem is not None
    print("property violated on this input" if bad else "property holds on this input")
    return 1 if bad else 0
