"""
C05 — the latest implementation for the active context is the one that supplies a spec.

Tie: REAL SpecSet subclasses (fresh root class with RegistryPoints, fresh implementing classes with
generated @datasource functions bound to fresh ExecutionContext subclasses) are created in random
registration histories through the real metaclass; `dr.run` evaluates the points with each context
seeded; registration state (dependency order of every point, dr.IGNORE) and evaluation (values,
missing reports, invocation log) are compared with IV.Specs + IV.Dr (Drivers/C05.lean).
Evaluations are also interleaved BETWEEN class definitions (late registration after a first run): each is
compared with the model's evaluation of the corresponding prefix of the history (`register` is a fold).
The live registration data of the shipped spec sets goes through the same model.
Oracle: stated on the invocation log and the broker, with "declared for c" = the implementation's
requirements can be met when c is the only context supplied (computed from the generated shapes).
"""
import json
import logging
import os

logging.disable(logging.CRITICAL)

from harness.common import VERIF, run_driver

from insights.core import dr
from insights.core.context import ExecutionContext, SerializedArchiveContext
from insights.core.exceptions import ContentException, SkipComponent
from insights.core.plugins import datasource, is_datasource
from insights.core.spec_factory import RegistryPoint, SpecDescriptor, SpecSet

OUTCOMES = ["v", "n", "skip", "content", "crash"]
F_FREE = "context-free-implementation"
F_REACH = "context-through-registry-point"


class Crash(Exception):
    pass


_counter = [0]


def fresh_tag():
    _counter[0] += 1
    return "c05_%d" % _counter[0]


# --------------------------------------------------------------------------- a generated world of real classes

class SWorld(object):
    """
    case = {"nctx", "serialized", "npoints", "classes": [{"parent": -1|idx, "entries": [entry]}]}
    entry = {"name", "cid", "kind": single|group|via|free|viafree|pdep, "ctxs": [ctx ids], "helper": cid|None, "pdep": name|None}
    component ids: contexts 0..nctx-1, points nctx..nctx+npoints-1 (point of name k = nctx+k), then helpers / implementations.
    Attribute names: "p<k>"; names >= npoints are not registry points.
    """

    def __init__(self, case, define_all=True):
        tag = fresh_tag()
        self.tag = tag
        self.case = case
        self.nctx, self.npoints = case["nctx"], case["npoints"]
        self.outcome = {}
        self.calls = []
        self.comps = {}
        self.ctxs = []
        for i in range(self.nctx):
            if i == 0 and case.get("serialized"):
                self.ctxs.append(SerializedArchiveContext)
            else:
                self.ctxs.append(type("Ctx%d_%s" % (i, tag), (ExecutionContext,), {}))
            self.comps[i] = self.ctxs[i]
        self.root = type("Root_" + tag, (SpecSet,), dict(("p%d" % k, RegistryPoint()) for k in range(self.npoints)))
        for k in range(self.npoints):
            self.comps[self.nctx + k] = getattr(self.root, "p%d" % k)
        self.classes = []
        self.decls = {}     # cid -> (items text for the driver)
        self.defined = 0    # number of classes of the history created so far
        self.ids = dict((c, i) for i, c in self.comps.items())
        while define_all and self.defined < len(case["classes"]):
            self.define_next()

    def define_next(self):
        """create the next spec-set class of the history through the real metaclass; returns the new component ids"""
        ci = self.defined
        cd = self.case["classes"][ci]
        before = set(self.decls)
        ns = {}
        for e in cd["entries"]:
            ns["p%d" % e["name"]] = self._make(e, self.tag)
        parent = self.root if cd["parent"] < 0 else self.classes[cd["parent"]]
        self.classes.append(type("I%d_%s" % (ci, self.tag), (parent,), ns))
        self.defined += 1
        self.ids = dict((c, i) for i, c in self.comps.items())
        return sorted(set(self.decls) - before)

    def pcase(self):
        """the history as far as it has been created"""
        return dict(self.case, classes=self.case["classes"][:self.defined])

    def _ds(self, cid, deps, tag):
        world = self

        def fn(broker):
            world.calls.append(cid)
            o = world.outcome.get(cid, "v")
            if o == "v":
                return 1000 + cid
            if o == "n":
                return None
            if o == "skip":
                raise SkipComponent("skip %d" % cid)
            if o == "content":
                raise ContentException("content %d" % cid)
            raise Crash("crash %d" % cid)
        fn.__name__ = "d%d_%s" % (cid, tag)
        fn.__qualname__ = fn.__name__
        comp = datasource(*deps)(fn)
        self.comps[cid] = comp
        return comp

    def _ctx_items(self, ctxs, grouped):
        if grouped:
            return [[self.ctxs[c] for c in ctxs]], "g" + ",".join(map(str, ctxs))
        return [self.ctxs[c] for c in ctxs], ";".join("o%d" % c for c in ctxs)

    def _make(self, e, tag):
        kind, cid = e["kind"], e["cid"]
        if kind in ("single", "group"):
            deps, items = self._ctx_items(e["ctxs"], kind == "group")
        elif kind == "free":
            deps, items = [], "-"
        elif kind in ("via", "viafree"):
            if kind == "via":
                hdeps, hitems = self._ctx_items(e["ctxs"], len(e["ctxs"]) > 1)
            else:
                hdeps, hitems = [], "-"
            helper = self._ds(e["helper"], hdeps, tag)
            self.decls[e["helper"]] = hitems
            deps, items = [helper], "o%d" % e["helper"]
        elif kind == "pdep":
            deps, items = self._ctx_items(e["ctxs"], False)
            deps = deps + [getattr(self.root, "p%d" % e["pdep"])]
            items = items + ";o%d" % (self.nctx + e["pdep"])
        else:
            raise ValueError(kind)
        self.decls[cid] = items
        return self._ds(cid, deps, tag)

    # -- what the generator knows, independently of the implementation
    def direct_entries(self):
        return [e for cd in self.case["classes"][:self.defined] if cd["parent"] < 0 for e in cd["entries"]]

    def impls_of(self, name):
        return [e for e in self.direct_entries() if e["name"] == name and name < self.npoints]

    # -- protocol
    def header_lines(self):
        return ["new"] + ["point\t%d\t%d" % (k, self.nctx + k) for k in range(self.npoints)]

    def class_lines(self, ci, walk, new_cids):
        cd = self.case["classes"][ci]
        es = ";".join("%d:%d:%s" % (e["name"], e["cid"], ".".join(map(str, sorted(walk[e["cid"]]))) or "-") for e in cd["entries"])
        out = ["class\t%d\t%s" % (1 if cd["parent"] < 0 else 0, es or "-")]
        for cid in new_cids:
            out.append("decl\t%d\t%s\t-" % (cid, self.decls[cid]))
        return out

    def reg_line(self):
        return "reg\t%s\t%s" % (",".join(map(str, range(self.npoints + 1))), ",".join(map(str, self.univ())) or "-")

    def run_line(self, active, order, keys, outcome):
        return "run\t%s\t%s\t%s\t%s\t%s" % (",".join(map(str, active)) or "-", ",".join(map(str, order)) or "-",
                                              ",".join(map(str, sorted(keys))) or "-",
                                              ",".join(map(str, self.univ())) or "-", outs_text(outcome))

    def univ(self):
        return sorted(c for c in self.comps if c >= self.nctx)

    # -- implementation side
    def reg_text(self):
        deps = ";".join("%d:%s" % (k, ",".join(str(self.ids.get(d, "?")) for d in dr.get_delegate(self.comps[self.nctx + k]).deps))
                        for k in range(self.npoints))
        # a name that is not a registry point has no dependency list at all
        deps += (";" if deps else "") + "%d:" % self.npoints
        ign = []
        for cid in self.univ():
            s = dr.IGNORE.get(self.comps[cid])
            if s:
                ign.append("%d:%s" % (cid, ",".join(str(x) for x in sorted(self.ids.get(c, 10 ** 6) for c in s))))
        alo = all(dr.get_delegate(self.comps[self.nctx + k]).at_least_one == [dr.get_delegate(self.comps[self.nctx + k]).deps]
                  and not dr.get_delegate(self.comps[self.nctx + k]).requires for k in range(self.npoints))
        return "deps=%s|ign=%s" % (deps, ";".join(ign)) + ("" if alo else "|at_least_one-differs")

    def graph(self):
        g = {}
        for k in range(self.npoints):
            g.update(dr.get_dependency_graph(self.comps[self.nctx + k]))
        return g

    def run(self, active, outcome, mode):
        self.outcome = dict(outcome)
        self.calls = []
        g = self.graph()
        order = dr.run_order(dict((k, set(v)) for k, v in g.items()))
        b = dr.Broker()
        for c in active:
            b[self.ctxs[c]] = self.ctxs[c]()
        err = None
        try:
            if mode == "run":
                dr.run(dict((k, set(v)) for k, v in g.items()), broker=b)
            else:
                dr.run_components(order, g, b)
        except Exception as ex:      # nothing may escape (C03); reported as a broken correspondence here
            err = ex
        return b, [self.ids[c] for c in order if c in self.ids], [self.ids[c] for c in g if c in self.ids], err

    def run_text(self, b, err):
        if err is not None:
            return "ERROR:" + type(err).__name__
        inst, miss = [], []
        for cid in self.univ():
            c = self.comps[cid]
            if c in b.instances:
                v = b.instances[c]
                inst.append("%d:%s" % (cid, "N" if v is None else "A%d" % v if isinstance(v, int) else "?%r" % (v,)))
            if c in b.missing_requirements:
                r, a = b.missing_requirements[c]
                miss.append("%d:%s/%s" % (cid, ";".join(str(self.ids[x]) for x in r),
                                          "&".join(";".join(str(self.ids[x]) for x in g) for g in a)))
        return "inst=%s|missing=%s|inv=%s" % (" ".join(inst), " ".join(miss), ",".join(map(str, sorted(set(self.calls)))))


# --------------------------------------------------------------------------- generator-side semantics of a case

def tree_walk(case):
    """contexts in the dependency tree of each implementation WHEN ITS CLASS IS CREATED (what the history
    hands to the model): own contexts, the helper's, and — through a dependency on a registry point — those
    of the implementations wired to that point so far"""
    walk = {}
    wired = {}         # name -> entries wired to the point so far

    def now(e):
        w = set(e["ctxs"])
        if e["kind"] == "pdep":
            for x in wired.get(e["pdep"], []):
                w |= now(x)
        return w
    for cd in case["classes"]:
        for e in cd["entries"]:
            walk[e["cid"]] = now(e)
            if cd["parent"] < 0 and e["name"] < case["npoints"]:
                wired.setdefault(e["name"], []).append(e)
    return walk


def runnable(case, e, c, depth=0):
    """can the requirements of implementation `e` be met when `c` is the only context supplied (every
    component succeeding)?  — 'e is declared for c' in the sense of the property"""
    k = e["kind"]
    if k in ("free", "viafree"):
        return True
    if k in ("single", "group", "via"):
        return c in e["ctxs"]
    if k == "pdep":
        if c not in e["ctxs"]:
            return False
        return any(runnable(case, x, c, depth + 1) for cd in case["classes"] if cd["parent"] < 0
                   for x in cd["entries"] if x["name"] == e["pdep"])
    raise ValueError(k)


def classify(case, name):
    """known-finding id a failure on spec `name` is an instance of (predicate on the INPUT), or None"""
    impls = [e for cd in case["classes"] if cd["parent"] < 0 for e in cd["entries"] if e["name"] == name]
    if any(e["kind"] in ("free", "viafree") for e in impls):
        return F_FREE
    if any(e["kind"] == "pdep" for e in impls):
        return F_REACH
    return None


def oracle(report, world, case, active, b, err, desc):
    """the property on the implementation's observable behaviour, one active context; `case` is the history
    as far as it has been created when the evaluation takes place, `desc` what a replay needs"""
    if err is not None:
        report.failure("dr.run raised %r" % (err,), desc)
        return
    if len(active) != 1:
        return
    c = active[0]
    called = set(world.calls)
    for name in range(world.npoints):
        impls = world.impls_of(name)
        fid = classify(case, name)
        L = [e for e in impls if runnable(case, e, c)]
        point = world.comps[world.nctx + name]
        for e in L[:-1]:
            if e["cid"] in called:
                report.failure("spec p%d: implementation %d ran although the later %d is declared for the active context %d"
                               % (name, e["cid"], L[-1]["cid"], c), desc, finding=fid)
        for e in impls:
            if not runnable(case, e, c) and e["cid"] in called:
                report.failure("spec p%d: implementation %d, declared for other contexts only, ran under context %d"
                               % (name, e["cid"], c), desc, finding=fid)
        if L:
            last = L[-1]
            lc = world.comps[last["cid"]]
            # were its requirements met?  (helper / other registry point present in the final broker)
            req_ok = True
            if last["kind"] in ("via", "viafree"):
                req_ok = world.comps[last["helper"]] in b.instances
            elif last["kind"] == "pdep":
                req_ok = world.comps[world.nctx + last["pdep"]] in b.instances
            if req_ok and last["cid"] not in called:
                report.failure("spec p%d: the latest implementation declared for context %d (%d) has its requirements met but was not executed"
                               % (name, c, last["cid"]), desc, finding=fid)
            if lc in b.instances:
                if point not in b.instances or b.instances[point] is not b.instances[lc] and b.instances[point] != b.instances[lc]:
                    report.failure("spec p%d: value %r is not the one produced by the latest implementation for context %d (%d: %r)"
                                   % (name, b.instances.get(point, "<absent>"), c, last["cid"], b.instances[lc]), desc, finding=fid)
            elif point in b.instances:
                report.failure("spec p%d: present with %r although the latest implementation for context %d (%d) produced nothing"
                               % (name, b.instances[point], c, last["cid"]), desc, finding=fid)
        elif point in b.instances:
            report.failure("spec p%d: present with %r although no implementation is declared for context %d"
                           % (name, b.instances[point], c), desc, finding=fid)


# --------------------------------------------------------------------------- generation

def gen_case(rng, quick, allow_findings=True):
    nctx = rng.randint(2, 4)
    npoints = rng.randint(1, 4)
    nclasses = rng.randint(1, 5)
    next_id = [nctx + npoints]

    def nid():
        next_id[0] += 1
        return next_id[0] - 1
    classes = []
    wired_names = set()
    for ci in range(nclasses):
        directs = [i for i, cd in enumerate(classes) if cd["parent"] < 0]
        parent = -1
        if directs and rng.random() < 0.12:
            parent = rng.choice(directs)          # a grandchild: registers against nothing
        entries = []
        names = [k for k in range(npoints + 1) if rng.random() < (0.75 if k < npoints else 0.15)]
        if not names:
            names = [rng.randrange(npoints)]
        for name in names:
            r = rng.random()
            e = {"name": name, "cid": None, "ctxs": [], "helper": None, "pdep": None}
            if allow_findings and r < 0.04:
                e["kind"] = "free"
            elif allow_findings and r < 0.06:
                e["kind"] = "viafree"
                e["helper"] = nid()
            elif allow_findings and r < 0.12 and name > 0 and name < npoints and any(n < name for n in wired_names):
                e["kind"] = "pdep"
                e["pdep"] = rng.choice(sorted(n for n in wired_names if n < name))
                e["ctxs"] = [rng.randrange(nctx)]
            elif r < 0.5:
                e["kind"] = "single"
                e["ctxs"] = [rng.randrange(nctx)]
            elif r < 0.75:
                e["kind"] = "group"
                e["ctxs"] = rng.sample(range(nctx), 2)
            else:
                e["kind"] = "via"
                e["helper"] = nid()
                e["ctxs"] = rng.sample(range(nctx), rng.choice([1, 1, 2]))
            e["cid"] = nid()
            entries.append(e)
            if parent < 0 and name < npoints:
                wired_names.add(name)
        classes.append({"parent": parent, "entries": entries})
    return {"nctx": nctx, "serialized": rng.random() < 0.1, "npoints": npoints, "classes": classes}


def gen_outcome(rng, world, style):
    cids = [c for c in world.univ() if c >= world.nctx + world.npoints]
    if style == "all-v":
        return dict((c, "v") for c in cids)
    if style == "one-bad":
        o = dict((c, "v") for c in cids)
        if cids:
            o[rng.choice(cids)] = rng.choice(OUTCOMES[1:])
        return o
    return dict((c, rng.choice(OUTCOMES)) for c in cids)


def outs_text(outcome):
    return ",".join("%d=%s" % kv for kv in sorted(outcome.items())) or "-"


def check_world(chk, report, rng, case, lines, impl, cases, runs_per_ctx):
    """one history: classes are created one by one; 0-3 evaluations are INTERLEAVED (each with a fresh broker and
    a freshly computed graph, compared with the model's evaluation of the same prefix), then registration, the
    rule and the full set of evaluations after the whole history"""
    world = SWorld(case, define_all=False)
    walk = tree_walk(case)
    lines.extend(world.header_lines())
    n = len(case["classes"])
    evals_at = {}
    if n >= 2 and rng.random() < 0.85:
        for _ in range(rng.randint(1, 3)):
            k = rng.randint(1, n - 1)
            evals_at[k] = evals_at.get(k, 0) + 1
    script = []

    def evaluate(active, style, what):
        outcome = gen_outcome(rng, world, style)
        mode = "run" if rng.random() < 0.5 else "components"
        b, order, keys, err = world.run(active, outcome, mode)
        script.append({"eval": {"active": active, "outcome": dict((str(k), v) for k, v in outcome.items()), "mode": mode}})
        oracle(report, world, world.pcase(), active, b, err, {"case": case, "script": list(script)})
        lines.append(world.run_line(active, order, keys, outcome))
        text = world.run_text(b, err)
        impl.append(text)
        cases.append({"case": case, "what": what, "classes-created": world.defined, "active": active, "outcome": outs_text(outcome)})
        if chk is not None:
            shape = (tuple(tuple((e["name"], e["kind"], tuple(e["ctxs"])) for e in cd["entries"]) + (cd["parent"] < 0,)
                           for cd in case["classes"][:world.defined]), len(script), tuple(active),
                     tuple(sorted(outcome.values())), text.split("|inv=")[1])
            nimpl = max([len(world.impls_of(k)) for k in range(world.npoints)] or [0])
            chk.case(shape, nontrivial=len(active) == 1 and nimpl >= 2 and bool(world.calls))
            chk.count("max-impls-per-spec:%d" % min(nimpl, 5))
            chk.count("active-contexts:%d" % len(active))
            chk.count("invoked:%d" % min(len(set(world.calls)), 6))
            chk.count("evaluation:" + ("interleaved(before-later-classes)" if what == "prefix-run" else
                                       "after-whole-history" + ("+earlier-evaluations" if evals_at else "")))
            for o in outcome.values():
                chk.count("outcome:" + o)

    for ci in range(n):
        new = world.define_next()
        lines.extend(world.class_lines(ci, walk, new))
        script.append({"def": ci})
        for _ in range(evals_at.get(ci + 1, 0)):
            r = rng.random()
            active = [rng.randrange(world.nctx)] if r < 0.85 else [] if r < 0.9 else sorted(rng.sample(range(world.nctx), 2))
            lines.append(world.reg_line())
            impl.append(world.reg_text())
            cases.append({"case": case, "what": "prefix-registration", "classes-created": world.defined})
            evaluate(active, rng.choice(["all-v", "one-bad", "random"]), "prefix-run")
    # registration after the whole history
    lines.append(world.reg_line())
    impl.append(world.reg_text())
    cases.append({"case": case, "what": "registration"})
    # the rule, read off the history: which implementation supplies (model) vs the generator's own notion
    for name in range(world.npoints):
        for c in range(world.nctx):
            if classify(case, name) is None:
                L = [e["cid"] for e in world.impls_of(name) if runnable(case, e, c)]
                lines.append("sup\t%d\t%d" % (name, c))
                impl.append(str(L[-1]) if L else "none")
                cases.append({"case": case, "what": "supplier p%d ctx %d" % (name, c)})
    # evaluation
    actives = [[c] for c in range(world.nctx)]
    if rng.random() < 0.3:
        actives.append([])
    if rng.random() < 0.3 and world.nctx >= 2:
        actives.append(sorted(rng.sample(range(world.nctx), 2)))
    for active in actives:
        for j in range(runs_per_ctx):
            evaluate(active, ["all-v", "one-bad", "random", "random"][j % 4], "run")
    if chk is not None:
        chk.count("history:%d-interleaved-evaluations" % sum(evals_at.values()))
        for cd in case["classes"]:
            chk.count("class:" + ("direct" if cd["parent"] < 0 else "grandchild"))
            for e in cd["entries"]:
                chk.count("impl:" + e["kind"] + ("" if e["name"] < case["npoints"] else "(not-a-point)"))
    return world


# --------------------------------------------------------------------------- shipped spec sets

def live_stream(chk):
    """registration structure of insights.specs.Specs and every spec set extending it, through the model"""
    from insights.specs import Specs
    import insights.specs.default           # noqa: F401  (DefaultSpecs and the datasources' LocalSpecs)
    import insights.specs.insights_archive  # noqa: F401
    import insights.specs.sos_archive       # noqa: F401
    import insights.specs.core3_archive     # noqa: F401
    import insights.specs.jdr_archive       # noqa: F401
    names = dict((n, i) for i, n in enumerate(Specs.registry))
    ids, comps = {}, []

    def cid(x):
        if x not in ids:
            ids[x] = len(comps)
            comps.append(x)
        return ids[x]
    for n, p in Specs.registry.items():
        cid(p)
    hist = []

    def entries_of(cls):
        out = []
        for k, v in cls.__dict__.items():
            if isinstance(v, SpecDescriptor) and is_datasource(v.func) and not isinstance(v.func, RegistryPoint):
                out.append((k, v.func))
        return out
    subs = list(Specs.__subclasses__())
    grand = [g for s in subs for g in s.__subclasses__()]
    # "declared for": the execution contexts each implementation is a registered handler of
    handler_of = {}
    for n, per_ctx in Specs.context_handlers.items():
        for ctx, hs in per_ctx.items():
            for f in hs:
                handler_of.setdefault(f, set()).add(ctx)
    lines = ["new"]
    for n, p in Specs.registry.items():
        lines.append("point\t%d\t%d" % (names[n], ids[p]))
    ctx_ids = {}
    for direct, group in ((1, subs), (0, grand)):
        for cls in group:
            es = []
            for k, f in entries_of(cls):
                if k not in names:
                    names[k] = len(names)
                cs = sorted(cid(c) for c in handler_of.get(f, ()))
                for c in handler_of.get(f, ()):
                    ctx_ids[c] = ids[c]
                es.append("%d:%d:%s" % (names[k], cid(f), ".".join(map(str, cs)) or "-"))
            lines.append("class\t%d\t%s" % (direct, ";".join(es) or "-"))
            hist.append((cls, direct))
    pts = list(Specs.registry.items())
    lines.append("reg\t%s\t%s" % (",".join(str(names[n]) for n, _ in pts), ",".join(map(str, range(len(comps))))))
    impl = ["deps=%s|ign=%s" % (
        ";".join("%d:%s" % (names[n], ",".join(str(ids.get(d, "?")) for d in dr.get_delegate(p).deps)) for n, p in pts),
        ";".join("%d:%s" % (i, ",".join(map(str, sorted(ids.get(c, 10 ** 6) for c in dr.IGNORE[x]))))
                 for i, x in enumerate(comps) if dr.IGNORE.get(x)))]
    cases = [{"what": "shipped spec sets: dependency order of %d points, IGNORE of %d components" % (len(pts), len(comps))}]
    n_sup = 0
    for n, p in pts:
        deps = dr.get_delegate(p).deps
        for ctx, c in sorted(ctx_ids.items(), key=lambda kv: kv[1]):
            decl = [d for d in deps if ctx in handler_of.get(d, ())]
            allowed = [d for d in decl if ctx not in dr.IGNORE.get(d, ())]
            lines.append("sup\t%d\t%d" % (names[n], c))
            impl.append(str(ids[allowed[-1]]) if allowed else "none")
            cases.append({"what": "shipped: supplier of %s under %s" % (n, ctx.__name__)})
            n_sup += 1
            chk.case(("live", n, ctx.__name__), nontrivial=len(decl) >= 2)
            # oracle on the live registration: exactly the LAST implementation declared for ctx may run under it
            if decl and allowed != [decl[-1]]:
                chk.failure("shipped spec %s under %s: implementations allowed to run %s, the latest declared is %s"
                            % (n, ctx.__name__, [dr.get_name(d) for d in allowed], dr.get_name(decl[-1])),
                            {"live": n, "ctx": ctx.__name__})
        free = [d for d in deps if not handler_of.get(d)]
        if free:
            chk.count("live:context-free-implementations", len(free))
    chk.count("live:points", len(pts))
    chk.count("live:classes", len(hist))
    chk.count("live:contexts", len(ctx_ids))
    chk.extra["shipped_spec_sets"] = {"classes": ["%s.%s" % (c.__module__, c.__name__) for c, _ in hist],
                                      "points": len(pts), "contexts": sorted(c.__name__ for c in ctx_ids),
                                      "supplier_queries": n_sup}
    model = run_driver("C05", lines)
    answers = [m for l, m in zip(lines, model) if l.startswith("reg\t") or l.startswith("sup\t")]
    bad = [m for l, m in zip(lines, model) if not (l.startswith("reg\t") or l.startswith("sup\t")) and m != "ok"]
    if bad:
        chk.tie_broken("protocol", "driver rejected %d lines of the shipped history" % len(bad), bad[:3])
    chk.compare("shipped-spec-sets", cases, impl, answers, show=lambda c: c)


# --------------------------------------------------------------------------- witnesses of the known findings

def load_witness(name):
    return json.load(open(os.path.join(VERIF, "corpus", "C05", name + ".json")))


class _Collect(object):
    def __init__(self):
        self.found = []

    def failure(self, desc, case, finding=None):
        self.found.append((desc, finding))


def run_script(w, with_lines=False):
    """execute a recorded history: class definitions interleaved with evaluations (a witness without a script =
    the whole history, then one evaluation).  Returns (world, broker of the last evaluation, oracle findings of
    the LAST evaluation, protocol lines)"""
    case = w["case"]
    script = w.get("script")
    if script is None:
        script = [{"def": i} for i in range(len(case["classes"]))] + \
                 [{"eval": {"active": w["active"], "outcome": w["outcome"], "mode": "run"}}]
    world = SWorld(case, define_all=False)
    walk = tree_walk(case)
    lines = world.header_lines()
    b, found = None, []
    for st in script:
        if "def" in st:
            new = world.define_next()
            lines.extend(world.class_lines(st["def"], walk, new))
        else:
            ev = st["eval"]
            outcome = dict((int(k), v) for k, v in ev["outcome"].items())
            b, order, keys, err = world.run(ev["active"], outcome, ev.get("mode", "run"))
            col = _Collect()
            oracle(col, world, world.pcase(), ev["active"], b, err, {})
            found = col.found
            lines.append(world.run_line(ev["active"], order, keys, outcome))
            if with_lines:
                print("  evaluation after %d classes, active %s, outcomes %s -> %s%s" % (
                    world.defined, ev["active"], outs_text(outcome), world.run_text(b, err),
                    "".join("\n    oracle: %s%s" % (d, (" (known finding %s)" % f) if f else "") for d, f in found)))
    return world, b, found, lines


SHIPPED_ORDER = r"""
import sys
sys.path.insert(0, %r)
import logging
logging.disable(logging.CRITICAL)
from insights.core import dr
from insights.core.context import HostArchiveContext
import insights.specs.insights_archive as ia
import insights.specs.default
from insights.specs import Specs
bad = [n for n in Specs.registry if n in ia.InsightsArchiveSpecs.__dict__
       and HostArchiveContext in dr.IGNORE.get(ia.InsightsArchiveSpecs.__dict__[n].func, set())]
print("IGNORING", len(bad), ",".join(sorted(bad)[:4]))
"""


def shipped_import_order():
    """the second finding on the shipped spec sets: a child interpreter imports insights_archive BEFORE default"""
    import subprocess
    from harness.common import REPO
    p = subprocess.run(["/venv/bin/python", "-c", SHIPPED_ORDER % REPO], stdout=subprocess.PIPE, stderr=subprocess.STDOUT, timeout=300)
    for l in p.stdout.decode("utf-8", "replace").split("\n"):
        if l.startswith("IGNORING"):
            return int(l.split()[1]), l
    return None, p.stdout.decode("utf-8", "replace")[-300:]


# --------------------------------------------------------------------------- entry points

def run(chk):
    rng = chk.rng
    quick = chk.tier == "quick"
    n_worlds = 700 if quick else 12000
    runs_per_ctx = 4 if quick else 8
    chk.rule = ("random registration histories of REAL SpecSet classes: 1-5 implementing classes (12% grandchildren, which must "
                "register nothing), 1-4 registry points plus a non-point attribute, implementations bound to fresh ExecutionContext "
                "subclasses (single context, [ctxA, ctxB] group, through a helper datasource; rarely context-free or depending on "
                "another registry point = the two known findings); 85% of the histories with >= 2 classes have 1-3 evaluations "
                "INTERLEAVED between class definitions (late registration: fresh broker, freshly computed graph, random active "
                "context, compared with the model's evaluation of the same prefix, same oracle); after the whole history "
                "every context active in turn (+ none / two), outcomes "
                "value/None/SkipComponent/ContentException/crash per implementation and helper (all-succeed, one failing, random); "
                "non-trivial = one active context, a spec with >= 2 wired implementations, something invoked; "
                "distinct = history shape x active context x outcome multiset x invocation log")
    chk.assumptions = [
        "'declared for context c' in the oracle = the implementation's requirements can be met when c is the only context supplied "
        "(from the generated shape); in the model = the contexts _get_ctx_dependencies finds (handed over by the generator's own tree walk)",
        "spec-set classes other than the root do not declare RegistryPoints of their own (not modelled)",
        "shipped spec sets: registration order of the classes = Specs.__subclasses__() order; 'declared for' = membership in "
        "Specs.context_handlers (the implementation's own bookkeeping), so this stream checks the rule given that bookkeeping",
    ]
    chk.lean()
    # ---- witnesses of the known findings (corpus first)
    for fid in (F_FREE, F_REACH):
        w = load_witness(fid)
        world, b, found, _ = run_script(w)
        chk.witnesses.append({"id": fid, "reproduces": bool(found), "oracle": [d for d, _ in found][:2]})
        if found:
            if all(f == fid for _, f in found):
                chk.finding_reproduced(fid)
                for d, f in found:
                    chk.failure(d, w, finding=f)
            else:
                for d, f in found:
                    chk.failure(d, w, finding=f)
    n_ign, text = shipped_import_order()
    chk.witnesses.append({"id": F_REACH + ":shipped-spec-sets-imported-archive-first",
                          "archive_implementations_told_to_ignore_HostArchiveContext": n_ign, "detail": text})
    if n_ign:
        chk.finding_reproduced(F_REACH)
    # ---- generated histories
    lines, impl, cases = [], [], []
    for idx in range(n_worlds):
        case = gen_case(rng, quick)
        check_world(chk, chk, rng, case, lines, impl, cases, runs_per_ctx)
    model = run_driver("C05", lines)
    answers = [m for l, m in zip(lines, model) if l.split("\t")[0] in ("reg", "sup", "run")]
    bad = [m for l, m in zip(lines, model) if l.split("\t")[0] not in ("reg", "sup", "run") and m != "ok"]
    if bad:
        chk.tie_broken("protocol", "driver rejected %d world lines" % len(bad), bad[:3])
    for what, name in (("registration", "registration(deps,IGNORE)"), ("supplier", "rule(supplier)"),
                       ("run", "evaluation(values,missing,invocations)"),
                       ("prefix-registration", "interleaved:registration-of-prefix"),
                       ("prefix-run", "interleaved:evaluation-of-prefix")):
        sel = [i for i, c in enumerate(cases) if c["what"].startswith(what)]
        chk.compare(name, [cases[i] for i in sel], [impl[i] for i in sel], [answers[i] for i in sel])
    for i in (0, 1, len(cases) - 1):
        chk.sample({"what": cases[i]["what"], "impl": impl[i], "model": answers[i]})
    # ---- shipped spec sets
    live_stream(chk)


def live_rule(name, ctx_name):
    """the rule on the live registration of one shipped spec under one context: (declared, allowed)"""
    from insights.specs import Specs
    import insights.specs.default           # noqa: F401
    import insights.specs.insights_archive  # noqa: F401
    import insights.specs.sos_archive       # noqa: F401
    import insights.specs.core3_archive     # noqa: F401
    import insights.specs.jdr_archive       # noqa: F401
    deps = dr.get_delegate(Specs.registry[name]).deps
    per_ctx = Specs.context_handlers.get(name, {})
    ctx = [c for c in per_ctx if c.__name__ == ctx_name]
    decl = [d for d in deps if ctx and d in per_ctx[ctx[0]]]
    allowed = [d for d in decl if ctx[0] not in dr.IGNORE.get(d, ())]
    return decl, allowed


def replay(data):
    if data.get("kind") == "broken-tie":
        print("no failing input was found; what no longer checks:")
        for b in data["broken"]:
            print(" -", b["what"], ":", b["detail"])
            if b.get("case"):
                print("   first difference:", json.dumps(b["case"], default=str)[:1500])
        return 1
    c = data["case"]
    if "live" in c:
        decl, allowed = live_rule(c["live"], c["ctx"])
        print("shipped spec %s under %s: declared (registration order) %s; allowed to run %s" % (
            c["live"], c["ctx"], [dr.get_name(d) for d in decl], [dr.get_name(d) for d in allowed]))
        bad = bool(decl) and allowed != [decl[-1]]
        print("property violated on this input" if bad else "property holds on this input")
        return 1 if bad else 0
    case = c["case"]
    nev = sum(1 for st in c.get("script", [1]) if "eval" in st) if "script" in c else 1
    print("replaying history with %d classes, %d points, %d evaluation(s); the recorded failure is at the last one" % (
        len(case["classes"]), case["npoints"], nev))
    world, b, found, lines = run_script(c, with_lines=True)
    lines.append(world.reg_line())
    out = run_driver("C05", lines)
    print("implementation: %s\n                %s" % (world.reg_text(), world.run_text(b, None)))
    print("model:          %s\n                %s" % (out[-1], out[-2]))
    for d, f in found:
        print("oracle:", d, ("(known finding %s)" % f) if f else "")
    print("property violated on this input" if found else "property holds on this input")
    return 1 if found else 0
