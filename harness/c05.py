"""
C05 — the latest implementation for the active context is the one that supplies a spec.

Tie: REAL SpecSet subclasses (fresh root class with RegistryPoints, fresh implementing classes with
generated @datasource functions bound to fresh ExecutionContext subclasses) are created in random
registration histories through the real metaclass; `dr.run` evaluates the points with each context
seeded; registration state (dependency order of every point, dr.IGNORE) and evaluation (values,
missing reports, invocation log) are compared with IV.Specs + IV.Dr (Drivers/C05.lean).
Evaluations are also interleaved BETWEEN class definitions (late registration after a first run): each is
compared with the model's evaluation of the corresponding prefix of the history (`register` is a fold).
The live registration data of the shipped spec sets goes through the same model.
Round 10: the six flags of a registry point (filterable, raw, multi_output, no_redact, prio, no_obfuscate) and their
propagation onto what is wired to it are compared with the model's `fRegister` after every class definition; values of
several shapes and the arguments handed to each point's parser; re-export of one implementation object (third known
finding); dr.set_enabled(.., False) per evaluation; five engine entry points.
Oracle: stated on the invocation log and the broker, with "declared for c" = the implementation's
requirements can be met when c is the only context supplied (computed from the generated shapes).
"""
import json
import logging
import os

logging.disable(logging.CRITICAL)

from harness.common import VERIF, run_driver

from insights.core import dr
from insights.core.context import ExecutionContext, HostContext, JBossContext, SerializedArchiveContext
from insights.core.exceptions import (BlacklistedSpec, CalledProcessError, ContentException, SkipComponent,
                                      TimeoutException)
from insights.core.plugins import datasource, is_datasource, parser
from insights.core.spec_factory import RegistryPoint, SpecDescriptor, SpecSet, first_of

OUTCOMES = ["v", "n", "skip", "content", "crash", "calledproc", "timeout", "blacklisted", "falsy", "elist", "list", "zero", "disabled"]
RAISING = ("skip", "content", "crash", "calledproc", "timeout", "blacklisted")
# "disabled": CONFIGURATION, not an outcome of the body — dr.set_enabled(component, False) for the time of the evaluation;
# the component is passed over by the engine, produces nothing and its body is not called
NOTHING = RAISING + ("disabled",)
# value SHAPES: an object whose truth value is False, an empty list (what listdir/listglob give for an empty directory),
# a list of two elements (a parser is then called once per element).  Model: atom(k * 100000 + cid).
SHAPES = {"falsy": 2, "elist": 3, "list": 4}
F_FREE = "context-free-implementation"
F_REACH = "context-through-registry-point"
F_TWICE = "same-implementation-registered-twice"

# the six attributes _resolve_registry_points copies from the registry point onto what is wired to it
FLAG_ATTRS = ("filterable", "raw", "multi_output", "no_redact", "prio", "no_obfuscate")
NOB = [[], ["hostname"], ["ipv4", "mac"]]


def flags_kwargs(n):
    """the flag value n (model: one opaque Nat) as keyword arguments of RegistryPoint(...) / @datasource(...)"""
    return {"filterable": bool(n & 1), "raw": bool(n & 2), "multi_output": bool(n & 4), "no_redact": bool(n & 8),
            "prio": (n >> 4) & 3, "no_obfuscate": list(NOB[(n >> 6) % 3])}


def flags_encode(vals):
    """inverse of flags_kwargs on what the implementation shows; anything of another shape is shown as it is"""
    try:
        f, r, m, nr, prio, nob = vals
        if all(x is True or x is False for x in (f, r, m, nr)) and isinstance(prio, int) and 0 <= prio < 4 and nob in NOB:
            return str(int(f) + 2 * int(r) + 4 * int(m) + 8 * int(nr) + 16 * prio + 64 * NOB.index(nob))
    except Exception:
        pass
    return "?%r" % (vals,)


def gen_flags(rng):
    r = rng.random()
    if r < 0.35:
        return 0
    if r < 0.7:
        return rng.choice([1, 2, 4, 8, 16, 32, 64, 128])
    return rng.randrange(192)


class Falsy(object):
    """a value whose truth value is False"""
    def __init__(self, cid):
        self.cid = cid

    def __bool__(self):
        return False
    __nonzero__ = __bool__

    def __len__(self):
        return 0

    def __eq__(self, other):
        return isinstance(other, Falsy) and other.cid == self.cid

    def __ne__(self, other):
        return not self == other

    __hash__ = None

    def __repr__(self):
        return "Falsy(%d)" % self.cid


class Crash(Exception):
    pass


# specialised datasource types: "is a datasource" is decided by type hierarchy
class audited_datasource(datasource):
    """a subclass of insights.core.plugins.datasource used as a decorator"""
    pass


class strict_audited_datasource(audited_datasource):
    """two levels deep, with extra class attributes"""
    timeout = 7
    no_redact = True
    audited = True


# the reverse trap: a component type that is merely NAMED "datasource"
fake_datasource = type("datasource", (dr.ComponentType,), {"__doc__": "not a datasource: a ComponentType of that name"})

DSTYPES = {"plain": datasource, "sub1": audited_datasource, "sub2": strict_audited_datasource, "fake": fake_datasource}


_counter = [0]


def fresh_tag():
    _counter[0] += 1
    return "c05_%d" % _counter[0]


# --------------------------------------------------------------------------- a generated world of real classes

class SWorld(object):
    """
    case = {"nctx", "serialized", "npoints", "classes": [{"parent": -1|idx, "entries": [entry]}]}
    entry = {"name", "cid", "kind": single|group|via|free|viafree|pdep|point, "ctxs": [ctx ids], "helper": cid|None, "pdep": name|None}
    The root class declares the registry points p0..p<npoints-1>; a class of the history extends the root (parent -1)
    or an earlier class of the history, and may RE-DECLARE registry points (kind "point") next to its datasources.
    component ids: contexts 0..nctx-1, root points nctx..nctx+npoints-1 (point of name k = nctx+k), then helpers /
    implementations / re-declared points.  Attribute names: "p<k>".  Model class ids: root = 0, class i = i+1.
    """

    def __init__(self, case, define_all=True):
        tag = fresh_tag()
        self.tag = tag
        self.case = case
        self.nctx, self.npoints = case["nctx"], case["npoints"]
        self.outcome = {}
        self.calls = []
        self.comps = {}
        self.ctxs = []
        # execution contexts form a class hierarchy: ctx_parent[i] = -1 (extends ExecutionContext) or an earlier
        # context it derives from; "ctx_special": serialized (ctx 0 is the shipped SerializedArchiveContext), base
        # (ctx 0 is ExecutionContext itself), shipped (ctx 0 / ctx 1 are the shipped HostContext / JBossContext(HostContext))
        cpar = case.get("ctx_parent") or [-1] * self.nctx
        special = case.get("ctx_special") or ("serialized" if case.get("serialized") else None)
        for i in range(self.nctx):
            if i == 0 and special == "serialized":
                self.ctxs.append(SerializedArchiveContext)
            elif i == 0 and special == "base":
                self.ctxs.append(ExecutionContext)
            elif i == 0 and special == "shipped":
                self.ctxs.append(HostContext)
            elif i == 1 and special == "shipped":
                self.ctxs.append(JBossContext)
            else:
                base = ExecutionContext if cpar[i] < 0 else self.ctxs[cpar[i]]
                self.ctxs.append(type("Ctx%d_%s" % (i, tag), (base,), {}))
            self.comps[i] = self.ctxs[i]
        self.own = {}       # cid -> the flags the component is CREATED with (generator's knowledge; model: `own`)
        self.made = {}      # id(value) -> (value, code): the shaped values produced by the generated datasources
        pf = case.get("pflags") or [None] * self.npoints
        self.root = type("Root_" + tag, (SpecSet,), dict(("p%d" % k, self._point(self.nctx + k, pf[k])) for k in range(self.npoints)))
        self.points = []
        self.parsers = []
        self.parser_calls = []          # (point id, the argument the parser received)
        for k in range(self.npoints):
            self.comps[self.nctx + k] = getattr(self.root, "p%d" % k)
            self.points.append(self.nctx + k)
            self._parser(self.nctx + k)
        self.classes = []
        self.decls = {}     # cid -> (items text for the driver)
        self.deco = {}      # cid -> the component type used as decorator
        self.fixed = {}     # cid -> outcome the harness cannot choose (spec_factory helpers)
        self.defined = 0    # number of classes of the history created so far
        self.ids = dict((c, i) for i, c in self.comps.items())
        while define_all and self.defined < len(case["classes"]):
            self.define_next()

    def _point(self, cid, flags):
        self.own[cid] = flags or 0
        return RegistryPoint() if flags is None else RegistryPoint(**flags_kwargs(flags))

    def _parser(self, pcid):
        """a real @parser consuming the registry point: it is handed the point's value (element by element for a list)"""
        world = self

        def fn(value):
            world.parser_calls.append((pcid, value))
            return 1
        fn.__name__ = "parse%d_%s" % (pcid, self.tag)
        fn.__qualname__ = fn.__name__
        self.parsers.append(parser(self.comps[pcid])(fn))

    def define_next(self):
        """create the next spec-set class of the history through the real metaclass; returns the new component ids"""
        ci = self.defined
        cd = self.case["classes"][ci]
        before = set(self.decls)
        ns = {}
        for e in cd["entries"]:
            # RE-EXPORT: `p0 = Earlier.p0` — the SAME implementation object attached again under the same name
            ns["p%d" % e["name"]] = (self._point(e["cid"], e.get("flags")) if e["kind"] == "point" else
                                     self.comps[e["cid"]] if e.get("reexport") else self._make(e, self.tag))
        parent = self.root if cd["parent"] < 0 else self.classes[cd["parent"]]
        # REDEFINITION under the same name (module reload, re-run cell, type() with a fixed name): same module, class
        # name and spec names as an earlier class, so dr.get_name() of the implementations is identical
        cname = "I%d_%s" % (cd["same_name_as"] if cd.get("same_name_as") is not None else ci, self.tag)
        cls = type(cname, (parent,), ns)
        self.classes.append(cls)
        for e in cd["entries"]:
            if e["kind"] == "point":
                self.comps[e["cid"]] = getattr(cls, "p%d" % e["name"])
                self.points.append(e["cid"])
                self._parser(e["cid"])
        self.defined += 1
        self.ids = dict((c, i) for i, c in self.comps.items())
        return sorted(set(self.decls) - before)

    def pcase(self):
        """the history as far as it has been created"""
        return dict(self.case, classes=self.case["classes"][:self.defined])

    def _ds(self, cid, deps, tag, dstype="plain", flags=None):
        world = self
        self.deco[cid] = DSTYPES[dstype]
        # created with: the class attributes of the decorator type, or all six given as keyword arguments
        self.own[cid] = flags if flags is not None else (8 if dstype == "sub2" else 0)
        kw = flags_kwargs(flags) if flags is not None else {}

        def shaped(kind):
            v = Falsy(cid) if kind == "falsy" else [] if kind == "elist" else [1000 + cid, 5000 + cid]
            world.made[id(v)] = (v, SHAPES[kind] * 100000 + cid)
            return v

        def fn(*args):             # a datasource receives the broker; another component type its dependencies
            world.calls.append(cid)
            o = world.outcome.get(cid, "v")
            if o == "v":
                return 1000 + cid
            if o == "n":
                return None
            if o in SHAPES:
                return shaped(o)
            if o == "zero":                # present but falsy: the integer 0 (model: atom 0, whoever produced it)
                return 0
            if o == "skip":
                raise SkipComponent("skip %d" % cid)
            if o == "content":
                raise ContentException("content %d" % cid)
            if o == "calledproc":      # what ctx.shell_out / subproc.call raise on a non-zero exit
                raise CalledProcessError(1, "cmd%d" % cid, "output")
            if o == "timeout":
                raise TimeoutException("timeout %d" % cid)
            if o == "blacklisted":
                raise BlacklistedSpec()
            raise Crash("crash %d" % cid)
        fn.__name__ = "d%d_%s" % (cid, tag)
        fn.__qualname__ = fn.__name__
        comp = DSTYPES[dstype](*deps, **kw)(fn)
        self.comps[cid] = comp
        return comp

    def _ctx_items(self, ctxs, grouped):
        if grouped:
            return [[self.ctxs[c] for c in ctxs]], "g" + ",".join(map(str, ctxs))
        return [self.ctxs[c] for c in ctxs], ";".join("o%d" % c for c in ctxs)

    def _make(self, e, tag):
        kind, cid = e["kind"], e["cid"]
        if kind in ("single", "group"):
            deps, items = self._ctx_items(e["ctxs"], kind == "group")
        elif kind == "free":
            deps, items = [], "-"
        elif kind in ("via", "viafree"):
            if kind == "via":
                hdeps, hitems = self._ctx_items(e["ctxs"], len(e["ctxs"]) > 1)
            else:
                hdeps, hitems = [], "-"
            helper = self._ds(e["helper"], hdeps, tag)
            self.decls[e["helper"]] = hitems
            deps, items = [helper], "o%d" % e["helper"]
        elif kind in ("twoany", "reqany"):
            # MORE THAN ONE at-least-one list: datasource([CtxA, CtxB], [helper_one, helper_two]) — and the control
            # datasource(CtxA, [helper_one, helper_two]); the helpers are context-free datasources that succeed or fail
            h1 = self._ds(e["helper"], [], tag)
            h2 = self._ds(e["helper2"], [], tag)
            self.decls[e["helper"]] = "-"
            self.decls[e["helper2"]] = "-"
            deps, items = self._ctx_items(e["ctxs"], kind == "twoany")
            deps = deps + [[h1, h2]]
            items = items + ";g%d,%d" % (e["helper"], e["helper2"])
        elif kind == "firstof":
            # spec_factory.first_of([h1, h2]): a datasource of the PLAIN type built by the factory helper
            h1 = self._ds(e["helper"], [self.ctxs[e["ctxs"][0]]], tag)
            h2 = self._ds(e["helper2"], [self.ctxs[e["ctxs"][1]]], tag)
            self.decls[e["helper"]] = "o%d" % e["ctxs"][0]
            self.decls[e["helper2"]] = "o%d" % e["ctxs"][1]
            world = self

            class logged_first_of(first_of):
                def __call__(self, broker):
                    world.calls.append(cid)
                    return super(logged_first_of, self).__call__(broker)
            comp = logged_first_of([h1, h2])
            self.comps[cid] = comp
            self.deco[cid] = dr.get_delegate(comp).type
            self.own[cid] = 0
            self.decls[cid] = "g%d,%d" % (e["helper"], e["helper2"])
            self.fixed[cid] = "first"
            return comp
        elif kind == "pdep":
            deps, items = self._ctx_items(e["ctxs"], False)
            deps = deps + [getattr(self.root, "p%d" % e["pdep"])]
            items = items + ";o%d" % (self.nctx + e["pdep"])
        else:
            raise ValueError(kind)
        if e.get("dstype") != "fake":
            self.decls[cid] = items
        return self._ds(cid, deps, tag, e.get("dstype") or "plain",
                        e.get("flags") if e.get("dstype") != "fake" else None)

    # -- protocol
    def header_lines(self):
        return ["new", "hclass\t-\t%s" % (";".join("%d:%d:P:-" % (k, self.nctx + k) for k in range(self.npoints)) or "-")]

    def parents_ids(self, ci):
        """the parents chain of class ci as the REAL metaclass sees it: cls.__mro__ without cls, SpecSet, object"""
        cls = self.classes[ci]
        idx = {self.root: 0}
        for i, c in enumerate(self.classes):
            idx[c] = i + 1
        return [idx.get(x, 10 ** 6) for x in cls.__mro__ if x not in (cls, SpecSet, object)]

    def class_lines(self, ci, walk, new_cids):
        cd = self.case["classes"][ci]
        # the isDatasource flag of the model: issubclass(component type, datasource) on the type actually used
        es = ";".join("%d:%d:%s:%s" % (e["name"], e["cid"], "P" if e["kind"] == "point" else
                                       "D" if issubclass(self.deco[e["cid"]], datasource) else "X",
                                       ".".join(map(str, sorted(walk[e["cid"]]))) or "-") for e in cd["entries"])
        out = ["hclass\t%s\t%s" % (",".join(map(str, self.parents_ids(ci))) or "-", es or "-")]
        for cid in new_cids:
            out.append("decl\t%d\t%s\t-" % (cid, self.decls[cid]))
        return out

    def reg_line(self):
        return "hreg\t%s\t%s" % (",".join(map(str, sorted(self.points))) or "-", ",".join(map(str, self.univ())) or "-")

    def run_line(self, active, order, keys, outcome):
        return "hrun\t%s\t%s\t%s\t%s\t%s" % (",".join(map(str, active)) or "-", ",".join(map(str, order)) or "-",
                                               ",".join(map(str, sorted(keys))) or "-",
                                               ",".join(map(str, self.univ())) or "-", outs_text(outcome))

    def univ(self):
        return sorted(c for c in self.comps if c >= self.nctx)

    def flagged(self):
        """the components whose flags are observed: registry points and everything that is a datasource by type"""
        return [c for c in self.univ() if c in self.points or (c in self.deco and issubclass(self.deco[c], datasource))]

    def flags_line(self):
        cs = self.flagged()
        return "hflags\t%s\t%s" % (",".join(map(str, cs)) or "-", ",".join("%d=%d" % (c, self.own.get(c, 0)) for c in cs) or "-")

    def flags_of(self, cid, with_object=True):
        """what the implementation shows: the six attributes of the DELEGATE (what the engine, the filters and the
        hydration read); the component object itself, where it has the attribute, must agree with its delegate"""
        comp = self.comps[cid]
        d = dr.get_delegate(comp)
        vals = tuple(getattr(d, a, "<absent>") for a in FLAG_ATTRS)
        txt = flags_encode(vals)
        for a, dv in zip(FLAG_ATTRS, vals):
            # (an object that is wired to nothing may carry attributes of its own: first_of sets self.raw = None)
            if with_object and hasattr(comp, a) and getattr(comp, a) != dv:
                txt += "!object.%s=%r" % (a, getattr(comp, a))
        return txt

    def flags_text(self):
        return "flags=" + ";".join("%d:%s" % (c, self.flags_of(c, with_object=False)) for c in self.flagged())

    def flat_shaped(self):
        return not any(e["kind"] == "point" for cd in self.case["classes"][:self.defined] for e in cd["entries"])

    def flat_tag(self):
        # what the driver must report: the flat model (one class declares the points) agrees where it applies
        return "|flat=" + ("agree" if self.flat_shaped() else "n/a")

    # -- implementation side
    def reg_text(self):
        pts = sorted(self.points)
        deps = ";".join("%d:%s" % (p, ",".join(str(self.ids.get(d, "?")) for d in dr.get_delegate(self.comps[p]).deps)) for p in pts)
        ign = []
        for cid in self.univ():
            s = dr.IGNORE.get(self.comps[cid])
            if s:
                ign.append("%d:%s" % (cid, ",".join(str(x) for x in sorted(self.ids.get(c, 10 ** 6) for c in s))))
        alo = all(dr.get_delegate(self.comps[p]).at_least_one == [dr.get_delegate(self.comps[p]).deps]
                  and not dr.get_delegate(self.comps[p]).requires for p in pts)
        return "deps=%s|ign=%s" % (deps, ";".join(ign)) + ("" if alo else "|at_least_one-differs") + "|H=ok" + self.flat_tag()

    def graph(self):
        g = {}
        for p in self.points:
            g.update(dr.get_dependency_graph(self.comps[p]))
        for q in self.parsers:
            g.update(dr.get_dependency_graph(q))
        return g

    def extra_ds(self):
        """a datasource component that belongs to no spec and is in no evaluated graph (pre-populated in seed brokers)"""
        def fn(broker):
            return "never-evaluated"
        fn.__name__ = "extra_%s_%d" % (self.tag, len(self.calls))
        fn.__qualname__ = fn.__name__
        return datasource()(fn)

    def run(self, active, outcome, mode, broker=None):
        """`broker`: a prepared broker (derived from a seed broker) to evaluate on; the active contexts are put into it"""
        self.outcome = dict(outcome)
        self.calls = []
        self.parser_calls = []
        self.made = {}
        g = self.graph()
        order = dr.run_order(dict((k, set(v)) for k, v in g.items()))
        b = dr.Broker() if broker is None else broker
        err = None
        off = [self.comps[c] for c, o in outcome.items() if o == "disabled" and c in self.comps]
        try:
            for c in active:
                b[self.ctxs[c]] = self.ctxs[c]()
            for comp in off:
                dr.set_enabled(comp, False)
            if mode == "run":
                dr.run(dict((k, set(v)) for k, v in g.items()), broker=b)
            elif mode == "run-list":          # dr.run([components]): the graph is built by determine_components
                dr.run([self.comps[p] for p in self.points] + list(self.parsers), broker=b)
            elif mode == "incremental":       # sub-graph by sub-graph (ordered by the points' prio), one shared broker
                for _ in dr.run_incremental(dict((k, set(v)) for k, v in g.items()), broker=b):
                    pass
            elif mode == "run-all":
                dr.run_all(dict((k, set(v)) for k, v in g.items()), broker=b)
            else:
                dr.run_components(order, g, b)
        except Exception as ex:      # nothing may escape (C03); reported as a broken correspondence here
            err = ex
        finally:
            for comp in off:
                dr.ENABLED.pop(comp, None)      # back to the default (enabled)
        return b, [self.ids[c] for c in order if c in self.ids], [self.ids[c] for c in g if c in self.ids], err

    def run_text(self, b, err):
        if err is not None:
            return "ERROR:" + type(err).__name__
        inst, miss = [], []
        for cid in self.univ():
            c = self.comps[cid]
            if c in b.instances:
                v = b.instances[c]
                inst.append("%d:%s" % (cid, "N" if v is None else "A%d" % v if isinstance(v, int) and not isinstance(v, bool) else
                                       "A%d" % self.made[id(v)][1] if id(v) in self.made and self.made[id(v)][0] is v else "?%r" % (v,)))
            if c in b.missing_requirements:
                r, a = b.missing_requirements[c]
                miss.append("%d:%s/%s" % (cid, ";".join(str(self.ids[x]) for x in r),
                                          "&".join(";".join(str(self.ids[x]) for x in g) for g in a)))
        return "inst=%s|missing=%s|inv=%s" % (" ".join(inst), " ".join(miss), ",".join(map(str, sorted(set(self.calls))))) + self.flat_tag()


# --------------------------------------------------------------------------- generator-side semantics of a case

class Analysis(object):
    """
    What the generator knows about a (prefix of a) history, computed from the class hierarchy alone and
    independently of the implementation: which attribute is wired to which registry point, which spec every
    registry point and implementation belongs to (a point re-declared down a chain of classes that all declare
    the name is the SAME spec as the topmost point of the chain), and the contexts in each implementation's
    dependency tree at the moment its class is created.
      families: (top class, name) -> {"members": implementations in registration order, "points": point ids, top first}
      wired: point id -> attributes wired to it, in order (implementations and re-declared points)
    """

    def __init__(self, case):
        self.case = case
        nctx, npoints = case["nctx"], case["npoints"]
        self.registry = {-1: dict((k, nctx + k) for k in range(npoints))}
        self.parent = {}
        self.walk = {}
        self.wired = dict((nctx + k, []) for k in range(npoints))
        self.families = {}
        self.point_family = {}
        for k in range(npoints):
            self.families[(-1, k)] = {"members": [], "points": [nctx + k]}
            self.point_family[nctx + k] = (-1, k)
        for ci, cd in enumerate(case["classes"]):
            self.parent[ci] = cd["parent"]
            self.registry[ci] = {}
            chain = self.chain(ci)
            for e in cd["entries"]:
                name = e["name"]
                if e["kind"] == "point":
                    self.registry[ci][name] = e["cid"]
                    self.wired[e["cid"]] = []
                self.walk[e["cid"]] = self.now(e)
                if e.get("dstype") == "fake":
                    continue              # not a datasource by type hierarchy: the metaclass leaves it alone
                pre = []
                for k in chain:
                    if name not in self.registry[k]:
                        break
                    pre.append(k)
                if pre:                       # wired: the base class declares the name
                    self.wired[self.registry[chain[0]][name]].append(e)
                    key = (pre[-1], name)
                    if e["kind"] == "point":
                        self.families[key]["points"].append(e["cid"])
                        self.point_family[e["cid"]] = key
                    else:
                        self.families[key]["members"].append(e)
                elif e["kind"] == "point":    # the top of a new spec
                    self.families[(ci, name)] = {"members": [], "points": [e["cid"]]}
                    self.point_family[e["cid"]] = (ci, name)

    def chain(self, ci):
        out, k = [], self.parent[ci]
        while True:
            out.append(k)
            if k < 0:
                return out
            k = self.parent[k]

    def walk_point(self, p):
        w = set()
        for x in self.wired.get(p, []):
            w |= self.walk_point(x["cid"]) if x["kind"] == "point" else self.now(x)
        return w

    def now(self, e):
        if e["kind"] == "point":
            return self.walk_point(e["cid"])
        w = set(e["ctxs"])
        if e["kind"] == "pdep":
            w |= self.walk_point(self.case["nctx"] + e["pdep"])
        return w

    def subtree(self, p):
        """the implementations below the registry point p"""
        out = []
        for x in self.wired.get(p, []):
            out.extend(self.subtree(x["cid"]) if x["kind"] == "point" else [x])
        return out

    def runnable(self, e, c):
        """can the requirements of implementation `e` be met when `c` is the only context supplied (every
        component succeeding)?  — 'e is declared for c' in the sense of the property"""
        k = e["kind"]
        if k in ("free", "viafree"):
            return True
        if k in ("single", "group", "via", "firstof", "twoany", "reqany"):
            return c in e["ctxs"]
        if k == "pdep":
            return c in e["ctxs"] and any(self.runnable(x, c) for x in self.subtree(self.case["nctx"] + e["pdep"]))
        raise ValueError(k)

    def classify(self, key):
        """known-finding id a failure on the spec `key` is an instance of (predicate on the INPUT), or None"""
        members = self.families[key]["members"]
        if len(set(e["cid"] for e in members)) < len(members):
            return F_TWICE          # one implementation OBJECT attached more than once (`p0 = Earlier.p0`)
        if any(e["kind"] in ("free", "viafree") for e in members):
            return F_FREE
        if any(e["kind"] == "pdep" for e in members):
            return F_REACH
        return None

    def hier(self, key):
        return len(self.families[key]["points"]) > 1


def tree_walk(case):
    return Analysis(case).walk


def spec_name(key):
    return "p%d of %s" % (key[1], "the root class" if key[0] < 0 else "class %d" % key[0])


def oracle(report, world, case, active, b, err, desc):
    """the property on the implementation's observable behaviour, one active context; `case` is the history
    as far as it has been created when the evaluation takes place, `desc` what a replay needs.
    A spec = a top-level registry point together with its re-declarations down the class chain; ALL
    implementations wired to any of these points compete, whatever level they are attached at."""
    if err is not None:
        report.failure("dr.run raised %r" % (err,), desc)
        return
    if len(active) != 1:
        return
    c = active[0]
    called = set(world.calls)
    A = Analysis(case)
    for key, fam in sorted(A.families.items()):
        impls = fam["members"]
        fid = A.classify(key)
        sp = spec_name(key)
        L = [e for e in impls if A.runnable(e, c)]
        for e in L[:-1]:
            if e["cid"] in called and e["cid"] != L[-1]["cid"]:
                report.failure("spec %s: implementation %d ran although the later %d is declared for the active context %d"
                               % (sp, e["cid"], L[-1]["cid"], c), desc, finding=fid)
        for e in impls:
            if not A.runnable(e, c) and e["cid"] in called:
                report.failure("spec %s: implementation %d, declared for other contexts only, ran under context %d"
                               % (sp, e["cid"], c), desc, finding=fid)
        for e in impls:
            if world.outcome.get(e["cid"]) == "disabled" and e["cid"] in called:
                report.failure("spec %s: implementation %d is disabled (dr.set_enabled(.., False)) and ran" % (sp, e["cid"]), desc, finding=fid)
        last = L[-1] if L else None
        if last is not None:
            # were its requirements met?  (helper / other registry point present in the final broker)
            # PREDICTED from the generated shape, not read off the broker: a helper datasource is wired to no registry
            # point, is never told to ignore anything, and produces a value iff its context is the active one and its
            # outcome is not a raising one — a helper that was silently left out of the evaluation must not excuse the
            # implementation that needs it
            def helper_ok(h):
                return world.outcome.get(h, "v") not in NOTHING
            req_ok = True
            if last["kind"] in ("via", "viafree"):
                req_ok = helper_ok(last["helper"])
            elif last["kind"] in ("twoany", "reqany"):      # each any-list must have a present member
                req_ok = helper_ok(last["helper"]) or helper_ok(last["helper2"])
            elif last["kind"] == "firstof":
                req_ok = any(helper_ok(h) for h, x in ((last["helper"], last["ctxs"][0]), (last["helper2"], last["ctxs"][1])) if x == c)
            elif last["kind"] == "pdep":
                req_ok = world.comps[world.nctx + last["pdep"]] in b.instances
            if req_ok and last["cid"] not in called and world.outcome.get(last["cid"]) != "disabled":
                report.failure("spec %s: the latest implementation declared for context %d (%d) has its requirements met but was not executed"
                               % (sp, c, last["cid"]), desc, finding=fid)
        # a RAISING latest implementation (SkipComponent, ContentException, CalledProcessError, TimeoutException,
        # BlacklistedSpec, any other exception) has produced nothing: the spec must be ABSENT at every level
        # (`point not in broker` — presence is checked, broker.get would hide a stored None) and no parser of the spec
        # may be invoked.  Returning None is a VALUE: the spec is then present with None, taken from the latest
        # implementation, and its parser receives None (covered by the value clause below).
        if last is not None and last["cid"] in called and world.outcome.get(last["cid"]) in RAISING:
            for p in fam["points"]:
                if world.comps[p] in b.instances:
                    report.failure("spec %s, registry point %d: PRESENT in the broker with %r although the latest implementation for "
                                   "context %d (%d) raised (%s)" % (sp, p, b.instances[world.comps[p]], c, last["cid"],
                                                                    world.outcome[last["cid"]]), desc, finding=fid)
                if any(pc == p for pc, _ in world.parser_calls):
                    report.failure("spec %s, registry point %d: its parser was invoked although the latest implementation for "
                                   "context %d (%d) raised (%s)" % (sp, p, c, last["cid"], world.outcome[last["cid"]]), desc, finding=fid)
            if world.comps[last["cid"]] in b.instances:
                report.failure("spec %s: the raising implementation %d is itself present in the broker with %r"
                               % (sp, last["cid"], b.instances[world.comps[last["cid"]]]), desc, finding=fid)
        # the value seen at EVERY level's registry point
        for p in fam["points"]:
            point = world.comps[p]
            below = last is not None and any(x["cid"] == last["cid"] for x in A.subtree(p))
            lvl = "registry point %d (%s)" % (p, "top level" if p == fam["points"][0] else "re-declared")
            if below and world.comps[last["cid"]] in b.instances:
                lv = b.instances[world.comps[last["cid"]]]
                if point not in b.instances or (b.instances[point] is not lv and b.instances[point] != lv):
                    report.failure("spec %s, %s: value %r is not the one produced by the latest implementation for context %d (%d: %r)"
                                   % (sp, lvl, b.instances.get(point, "<absent>"), c, last["cid"], lv), desc, finding=fid)
                # what the PARSER of this point is handed: that value — element by element when it is a list
                want = list(lv) if isinstance(lv, list) else [lv]
                got = [v for pc, v in world.parser_calls if pc == p]
                if len(got) != len(want) or any(g is not w and g != w for g, w in zip(got, want)):
                    report.failure("spec %s, %s: its parser was handed %r, the latest implementation for context %d (%d) produced %r"
                                   % (sp, lvl, got, c, last["cid"], lv), desc, finding=fid)
            elif point in b.instances:
                why = ("the latest implementation for context %d (%d) produced nothing" % (c, last["cid"]) if below else
                       "the latest implementation for context %d (%d) is not below this point: everything below it is overridden"
                       % (c, last["cid"]) if last is not None else "no implementation is declared for context %d" % c)
                report.failure("spec %s, %s: present with %r although %s" % (sp, lvl, b.instances[point], why), desc, finding=fid)


def run_derived(world, step, report, desc, sink=None, verbose=False):
    """SEVERAL EVALUATIONS ON BROKERS DERIVED FROM ONE SEED BROKER: seed = dr.Broker() holding step["seed"] unrelated
    values (and, step["prepop"], a pre-populated datasource of no spec); b_k = dr.Broker(seed) for every evaluation, ALL
    created first; then b_k is given the active context(s) of evaluation k and evaluated, one after the other.
    Each evaluation is held to the usual oracle (as if it were the only one) and must hold no context of another
    evaluation; the seed's content is in every derived broker; afterwards the seed is unchanged and no two of the
    brokers share an instance table."""
    seed = dr.Broker()
    unrelated = []
    for i in range(step.get("seed", 0)):
        unrelated.append(("unrelated_%d_%s" % (i, world.tag), ["seed-value", i]))
    if step.get("prepop"):
        unrelated.append((world.extra_ds(), ["pre-populated"]))
    for k, v in unrelated:
        seed[k] = v
    snap = list(seed.instances.items())
    brokers = [dr.Broker(seed) for _ in step["evals"]]
    n = len(brokers)
    for k, ev in enumerate(step["evals"]):
        outcome = dict((int(c), o) for c, o in ev["outcome"].items())
        b, order, keys, err = world.run(ev["active"], outcome, ev.get("mode", "run"), broker=brokers[k])
        where = "evaluation %d of %d on brokers derived from one seed broker (active %s)" % (k + 1, n, ev["active"])
        col = _Collect()
        oracle(col, world, world.pcase(), ev["active"], b, err, desc)
        for d, f in col.found:
            report.failure(where + ": " + d, desc, finding=f)
        try:
            table = b.instances
            for i, cx in enumerate(world.ctxs):
                if cx in table and i not in ev["active"]:
                    report.failure(where + ": the broker holds an object for context %d, which is not active in this evaluation "
                                   "(left over from another evaluation)" % i, desc)
            for key, v in unrelated:
                if key not in table or table[key] is not v:
                    report.failure(where + ": the seed broker's entry %r is %s in the derived broker"
                                   % (getattr(key, "__name__", key), "missing" if key not in table else "another object"), desc)
        except Exception as ex:
            report.failure(where + ": the broker cannot be inspected: %s" % type(ex).__name__, desc)
        if verbose:
            print("  %s, outcomes %s -> %s%s" % (where, outs_text(outcome), world.run_text(b, err),
                                                "".join("\n    oracle: %s%s" % (d, (" (known finding %s)" % f) if f else "")
                                                        for d, f in col.found)))
        if sink is not None:
            sink(k, ev, b, order, keys, err, outcome)
    try:
        now = list(seed.instances.items())
        if len(now) != len(snap) or any(k1 is not k2 or v1 is not v2 for (k1, v1), (k2, v2) in zip(snap, now)):
            report.failure("the SEED broker changed while brokers derived from it were evaluated: keys %r, were %r"
                           % ([getattr(k, "__name__", k) for k, _ in now], [getattr(k, "__name__", k) for k, _ in snap]), desc)
        tables = [seed.instances] + [b.instances for b in brokers]
        if any(tables[i] is tables[j] for i in range(len(tables)) for j in range(i)):
            report.failure("brokers derived from one seed broker share an instance table", desc)
        sentinel = "sentinel_" + world.tag
        brokers[0][sentinel] = 1
        if any(sentinel in b for b in brokers[1:]) or sentinel in seed:
            report.failure("a value put into the first derived broker is in another derived broker / in the seed broker", desc)
    except Exception as ex:
        report.failure("seed / derived brokers cannot be inspected after the evaluations: %s: %s" % (type(ex).__name__, ex), desc)


def flags_oracle(report, world, case, desc):
    """the flag clause of the mechanism, stated on the implementation: everything that belongs to a spec — every
    wired implementation at whatever level, every re-declaration of the point — shows the six flags the TOP-LEVEL
    registry point was declared with, on its delegate and on the object"""
    A = Analysis(case)
    for key, fam in sorted(A.families.items()):
        top = fam["points"][0]
        want = str(world.own.get(top, 0))
        for cid in fam["points"] + [e["cid"] for e in fam["members"]]:
            try:
                got = world.flags_of(cid)
            except Exception as ex:
                got = "raised:%s" % type(ex).__name__
            if got != want:
                report.failure("spec %s: component %d shows flags %s (%s), the registry point %d of the spec was declared with %s (%s)"
                               % (spec_name(key), cid, got, flags_kwargs(int(got)) if got.isdigit() else "-", top, want,
                                  flags_kwargs(int(want))), desc)


# --------------------------------------------------------------------------- generation

def gen_case(rng, quick, allow_findings=True):
    nctx = rng.randint(2, 4)
    npoints = rng.randint(1, 4)
    hier = rng.random() < 0.4            # hierarchies deeper than two levels: points re-declared in intermediate classes
    # "chain": 3-6 registrations, one after another, of ONE spec name for the SAME context (each possibly bound to
    # several contexts), other specs' registrations interleaved in the same class bodies, the focus name not first
    # in the class body; evaluated under that context after EVERY registration step
    chain = (not hier) and rng.random() < 0.45
    nclasses = rng.randint(3, 7) if hier else rng.randint(3, 6) if chain else rng.randint(1, 5)
    if hier and rng.random() < 0.5:
        nctx, npoints = 2, rng.randint(1, 2)
    focus = None
    if chain:
        npoints = rng.randint(2, 4)
        focus = {"name": rng.randint(1, npoints - 1), "ctx": rng.randrange(nctx)}
    # execution contexts: 55% of the histories have contexts DERIVED from other contexts (two- and three-level
    # chains, siblings under one parent); a derived context is a key of its own in the broker
    ctx_parent = [-1] * nctx
    ctx_special = "serialized" if rng.random() < 0.1 else None
    if rng.random() < 0.55:
        if rng.random() < 0.5:
            nctx = max(nctx, 3)
            ctx_parent = [-1] * nctx
        shape = rng.choice(["chain", "siblings", "random", "random"])
        for i in range(1, nctx):
            if shape == "chain":
                ctx_parent[i] = i - 1 if i <= 2 else rng.choice([-1, i - 1])
            elif shape == "siblings":
                ctx_parent[i] = 0 if i <= 2 else rng.choice([-1, 0, i - 1])
            else:
                ctx_parent[i] = rng.choice([-1] + list(range(i)))
        r = rng.random()
        if r < 0.15:
            ctx_special, ctx_parent[1] = "shipped", 0      # HostContext / JBossContext(HostContext)
        elif r < 0.25:
            ctx_special = "base"                           # ExecutionContext itself used as a context
        elif ctx_special == "serialized":
            ctx_special = None
    next_id = [nctx + npoints]

    def nid():
        next_id[0] += 1
        return next_id[0] - 1

    def related_pair():
        """two contexts, preferably a context and one derived from it"""
        rel = [(i, ctx_parent[i]) for i in range(nctx) if ctx_parent[i] >= 0]
        if rel and rng.random() < 0.6:
            return list(rng.choice(rel))
        return rng.sample(range(nctx), 2)
    # decorator types: plain @datasource, specialised subclasses of it (one and two levels deep, extra class
    # attributes), the factory helper first_of, and rarely a non-datasource type that is merely named "datasource"
    ds_mode = rng.choice(["mixed", "mixed", "mixed", "every-specialised", "newest-specialised", "older-specialised", "plain-only"])

    def dstype(ci):
        special = rng.choice(["sub1", "sub1", "sub2"])
        if ds_mode == "plain-only":
            return "plain"
        if ds_mode == "every-specialised":
            return special
        if ds_mode == "newest-specialised":
            return special if ci == nclasses - 1 else "plain"
        if ds_mode == "older-specialised":
            return special if ci < nclasses - 1 and rng.random() < 0.7 else "plain"
        r = rng.random()
        return "fake" if r < 0.04 else special if r < 0.4 else "plain"
    classes = []
    registry = {-1: set(range(npoints))}      # names each class declares as registry points
    wired_names = set()
    n_mid = rng.randint(1, 3) if hier else 0
    for ci in range(nclasses):
        earlier = list(range(ci))
        mids = [i for i in earlier if registry[i]]
        parent = -1
        if hier:
            r = rng.random()
            if ci < n_mid:
                parent = rng.choice([-1] + mids) if rng.random() < 0.8 else (rng.choice(earlier) if earlier else -1)
            elif mids and r < 0.6:
                parent = rng.choice(mids)
            elif earlier and r < 0.68:
                parent = rng.choice(earlier)
        elif earlier and not chain and rng.random() < 0.12:
            parent = rng.choice(earlier)              # a grandchild: registers against nothing
        entries = []
        registry[ci] = set()
        if hier and rng.random() < 0.8 and registry[parent]:
            names = [k for k in sorted(registry[parent]) if rng.random() < 0.85] or [rng.choice(sorted(registry[parent]))]
            names += [k for k in range(npoints + 1) if k not in names and rng.random() < 0.15]
        elif chain:
            names = [k for k in range(npoints + 1) if k == focus["name"] and rng.random() < 0.92 or
                     k != focus["name"] and rng.random() < (0.8 if k == 0 else 0.55 if k < npoints else 0.15)]
        else:
            names = [k for k in range(npoints + 1) if rng.random() < (0.75 if k < npoints else 0.15)]
        if not names:
            names = [rng.randrange(npoints)]
        for name in names:
            r = rng.random()
            e = {"name": name, "cid": None, "ctxs": [], "helper": None, "pdep": None}
            p_point = (0.85 if ci < n_mid else 0.08) if hier else 0.03
            if chain and name == focus["name"]:
                x = focus["ctx"]
                others = [c for c in range(nctx) if c != x]
                rr = rng.random()
                if rr < 0.45:
                    e["kind"], e["ctxs"] = "single", [x]
                elif rr < 0.75:
                    e["kind"], e["ctxs"] = "group", rng.sample([x, rng.choice(others)], 2)
                elif rr < 0.92:
                    e["kind"], e["helper"] = "via", nid()
                    e["ctxs"] = [x] if rng.random() < 0.6 else rng.sample([x, rng.choice(others)], 2)
                else:
                    e["kind"], e["ctxs"] = "single", [rng.choice(others)]       # one for another context in between
            elif rng.random() < p_point:
                e["kind"] = "point"
                registry[ci].add(name)
            elif allow_findings and r < 0.04:
                e["kind"] = "free"
            elif allow_findings and r < 0.06:
                e["kind"] = "viafree"
                e["helper"] = nid()
            elif allow_findings and r < 0.12 and name > 0 and name < npoints and any(n < name for n in wired_names):
                e["kind"] = "pdep"
                e["pdep"] = rng.choice(sorted(n for n in wired_names if n < name))
                e["ctxs"] = [rng.randrange(nctx)]
            elif r < 0.5:
                e["kind"] = "single"
                e["ctxs"] = [rng.randrange(nctx)]
            elif r < 0.75:
                e["kind"] = "group"
                e["ctxs"] = related_pair()
            else:
                e["kind"] = "via"
                e["helper"] = nid()
                e["ctxs"] = related_pair() if rng.random() < 0.35 else [rng.randrange(nctx)]
            if e["kind"] == "group" and rng.random() < 0.3 and len(set(e["ctxs"])) == 2:
                e["kind"], e["helper"], e["helper2"] = "twoany", nid(), nid()       # a second any-list of helper datasources
            elif e["kind"] == "single" and rng.random() < 0.12:
                e["kind"], e["helper"], e["helper2"] = "reqany", nid(), nid()       # control: required context + one any-list
            if e["kind"] == "group" and ds_mode in ("mixed", "plain-only") and rng.random() < 0.25 and len(set(e["ctxs"])) == 2:
                e["kind"], e["helper"], e["helper2"] = "firstof", nid(), nid()      # first_of([h(ctxA), h(ctxB)])
            if e["kind"] not in ("point", "firstof"):
                e["dstype"] = dstype(ci)
            # the flags the component is created with: RegistryPoint(multi_output=…, …) / @datasource(…, raw=…, …);
            # None = created without these keyword arguments (class defaults)
            if e["kind"] == "point":
                e["flags"] = gen_flags(rng) if rng.random() < 0.8 else None
            elif e["kind"] != "firstof" and rng.random() < 0.4:
                e["flags"] = gen_flags(rng)
            src = [x for j in range(ci) for x in classes[j]["entries"]
                   if x["name"] == name and x["kind"] in ("single", "group", "via") and x.get("dstype") != "fake"
                   and not x.get("reexport")]
            if allow_findings and not hier and src and e["kind"] != "point" and not (chain and name == focus["name"]) and rng.random() < 0.04:
                e = dict(rng.choice(src), reexport=True)      # `p0 = Earlier.p0`: the same object attached again
                entries.append(e)
                continue
            e["cid"] = nid()
            entries.append(e)
            if parent < 0 and name < npoints and e["kind"] != "point" and e.get("dstype") != "fake":
                wired_names.add(name)
        cd = {"parent": parent, "entries": entries}
        same = [j for j in range(ci) if classes[j]["parent"] == parent and classes[j].get("same_name_as") is None]
        if same and rng.random() < 0.2:
            cd["same_name_as"] = rng.choice(same)
        classes.append(cd)
    pflags = [gen_flags(rng) if rng.random() < 0.85 else None for _ in range(npoints)]
    return {"nctx": nctx, "serialized": ctx_special == "serialized", "ctx_special": ctx_special, "ctx_parent": ctx_parent,
            "npoints": npoints, "classes": classes, "focus": focus, "ds_mode": ds_mode, "pflags": pflags}


def gen_outcome(rng, world, style):
    o = _gen_outcome(rng, world, style)
    o.update((c, v) for c, v in world.fixed.items() if c in o)
    return o


def _gen_outcome(rng, world, style):
    cids = sorted(world.decls)
    if style == "all-v":
        return dict((c, "v") for c in cids)
    if style == "one-bad":
        o = dict((c, "v") for c in cids)
        if cids:
            o[rng.choice(cids)] = rng.choice(OUTCOMES[1:])
        return o
    if style == "latest-bad":
        # the implementations registered last yield nothing / skip / fail, everything else succeeds
        o = dict((c, "v") for c in cids)
        for c in cids[-rng.randint(1, 3):]:
            o[c] = rng.choice(OUTCOMES[1:])
        return o
    return dict((c, rng.choice(OUTCOMES)) for c in cids)


def outs_text(outcome):
    return ",".join("%d=%s" % kv for kv in sorted(outcome.items())) or "-"


def check_world(chk, report, rng, case, lines, impl, cases, runs_per_ctx):
    """one history: classes are created one by one; 0-3 evaluations are INTERLEAVED (each with a fresh broker and
    a freshly computed graph, compared with the model's evaluation of the same prefix), then registration, the
    rule and the full set of evaluations after the whole history"""
    world = SWorld(case, define_all=False)
    walk = tree_walk(case)
    lines.extend(world.header_lines())
    n = len(case["classes"])
    evals_at = {}
    focus = case.get("focus")
    if focus:
        for k in range(1, n):
            evals_at[k] = 1                  # after EVERY registration step, under the focus context
    elif n >= 2 and rng.random() < 0.85:
        for _ in range(rng.randint(1, 3)):
            k = rng.randint(1, n - 1)
            evals_at[k] = evals_at.get(k, 0) + 1
    script = []

    def evaluate(active, style, what):
        outcome = gen_outcome(rng, world, style)
        mode = rng.choice(["run", "run", "components", "components", "run-list", "incremental", "run-all"])
        b, order, keys, err = world.run(active, outcome, mode)
        script.append({"eval": {"active": active, "outcome": dict((str(k), v) for k, v in outcome.items()), "mode": mode}})
        oracle(report, world, world.pcase(), active, b, err, {"case": case, "script": list(script)})
        lines.append(world.run_line(active, order, keys, outcome))
        text = world.run_text(b, err)
        impl.append(text)
        cases.append({"case": case, "what": what, "classes-created": world.defined, "active": active, "outcome": outs_text(outcome)})
        if chk is not None:
            A = Analysis(world.pcase())
            shape = (tuple(tuple((e["name"], e["kind"], tuple(e["ctxs"])) for e in cd["entries"]) + (cd["parent"],)
                           for cd in case["classes"][:world.defined]), len(script), tuple(active),
                     tuple(sorted(outcome.values())), text.split("|inv=")[1])
            nimpl = max([len(f["members"]) for f in A.families.values()] or [0])
            chk.case(shape, nontrivial=len(active) == 1 and nimpl >= 2 and bool(world.calls))
            chk.count("max-impls-per-spec:%d" % min(nimpl, 5))
            chk.count("active-contexts:%d" % len(active))
            cp = case.get("ctx_parent") or []
            if len(active) == 1 and cp:
                a = active[0]
                chk.count("active-context:" + ("derived-from-another-context" if cp[a] >= 0 else
                                               "parent-of-a-derived-context" if a in cp else "no-relatives"))
            chk.count("invoked:%d" % min(len(set(world.calls)), 6))
            chk.count("entry-point:" + {"run": "dr.run(graph)", "components": "dr.run_components", "run-list": "dr.run([components])",
                                        "incremental": "dr.run_incremental(shared broker)", "run-all": "dr.run_all"}[mode])
            chk.count("evaluation:" + ("interleaved(before-later-classes)" if what == "prefix-run" else
                                       "after-whole-history" + ("+earlier-evaluations" if evals_at else "")))
            if len(active) == 1:
                tl = max([len([e for e in f["members"] if active[0] in A.walk[e["cid"]]]) for f in A.families.values()] or [0])
                chk.count("evaluation:longest-handler-list-for-the-active-context:%s" % (tl if tl < 6 else "6+"))
                for key, f in A.families.items():
                    if len(f["points"]) > 1 and f["members"]:
                        levels = set(next(p for p in f["points"] if any(x is e for x in A.wired[p])) for e in f["members"])
                        chk.count("evaluation-of-spec-with-redeclared-point:implementations-at-%d-level(s)" % min(len(levels), 3))
            for o in outcome.values():
                chk.count("outcome:" + o)

    for ci in range(n):
        new = world.define_next()
        lines.extend(world.class_lines(ci, walk, new))
        script.append({"def": ci})
        # the flags of every registry point and datasource after EVERY class definition (model: fRegister)
        lines.append(world.flags_line())
        try:
            impl.append(world.flags_text())
        except Exception as ex:
            impl.append("raised:%s" % type(ex).__name__)
        cases.append({"case": case, "what": "flags" if ci == n - 1 else "prefix-flags", "classes-created": world.defined})
        flags_oracle(report, world, world.pcase(), {"case": case, "script": list(script)})
        if ci < n - 1:
            # dr.IGNORE of every implementation and the dependency order of every point after EVERY registration step
            lines.append(world.reg_line())
            impl.append(world.reg_text())
            cases.append({"case": case, "what": "prefix-registration", "classes-created": world.defined})
        for _ in range(evals_at.get(ci + 1, 0)):
            r = rng.random()
            if focus:
                active = [focus["ctx"]]
                style = rng.choice(["all-v", "latest-bad", "all-v", "random"])
            else:
                active = [rng.randrange(world.nctx)] if r < 0.85 else [] if r < 0.9 else sorted(rng.sample(range(world.nctx), 2))
                style = rng.choice(["all-v", "one-bad", "random"])
            evaluate(active, style, "prefix-run")
    # registration after the whole history
    lines.append(world.reg_line())
    impl.append(world.reg_text())
    cases.append({"case": case, "what": "registration"})
    # the rule, read off the history: which implementation supplies (model: last entry of the handler table of
    # the spec's top class) vs the generator's own notion
    A = Analysis(case)
    for key, fam in sorted(A.families.items()):
        if A.classify(key) is None:
            for c in range(world.nctx):
                L = [e["cid"] for e in fam["members"] if A.runnable(e, c)]
                lines.append("hsup\t%d\t%d\t%d" % (key[0] + 1, key[1], c))
                impl.append(str(L[-1]) if L else "none")
                cases.append({"case": case, "what": "supplier %s ctx %d" % (spec_name(key), c)})
    # evaluation
    actives = [[c] for c in range(world.nctx)]
    if rng.random() < 0.3:
        actives.append([])
    if rng.random() < 0.3 and world.nctx >= 2:
        actives.append(sorted(rng.sample(range(world.nctx), 2)))
    for active in actives:
        for j in range(runs_per_ctx):
            evaluate(active, ["all-v", "latest-bad", "one-bad", "random"][j % 4], "run")
    # several evaluations on brokers DERIVED FROM ONE SEED BROKER, under different active contexts
    if rng.random() < 0.6:
        nev = rng.randint(2, 4)
        r = rng.random()
        if r < 0.35:
            acts = [rng.randrange(world.nctx) for _ in range(nev)]                   # any order, repetitions
        elif r < 0.6:
            x = rng.randrange(world.nctx)
            acts = [x] + [rng.randrange(world.nctx) for _ in range(nev - 2)] + [x]   # the same context class twice
        else:
            acts = (rng.sample(range(world.nctx), world.nctx) * 2)[:nev]             # every context in turn
        styles = ["all-v"] + [rng.choice(["latest-bad", "latest-bad", "random", "one-bad", "all-v"]) for _ in range(nev - 1)]
        if rng.random() < 0.3:
            rng.shuffle(styles)
        evs = []
        for a, st in zip(acts, styles):
            active = [a] if rng.random() < 0.93 else []
            o = gen_outcome(rng, world, st)
            evs.append({"active": active, "outcome": dict((str(k), v) for k, v in o.items()),
                        "mode": rng.choice(["run", "run", "components", "run-list", "incremental", "run-all"])})
        step = {"seed": rng.choice([0, 0, 1, 3]), "prepop": rng.random() < 0.3, "evals": evs}
        script.append({"derived": step})

        def sink(k, ev, b, order, keys, err, outcome):
            lines.append(world.run_line(ev["active"], order, keys, outcome))
            impl.append(world.run_text(b, err))
            cases.append({"case": case, "what": "derived-run %d/%d" % (k + 1, len(evs)), "active": ev["active"],
                          "outcome": outs_text(outcome), "script": list(script)})
            if chk is not None:
                chk.case(("derived", len(case["classes"]), tuple(acts), k, tuple(sorted(outcome.values())), impl[-1].split("|inv=")[1]),
                         nontrivial=k > 0 and bool(world.calls))
        run_derived(world, step, report, {"case": case, "script": list(script)}, sink=sink)
        if chk is not None:
            chk.count("derived-brokers:%d-evaluations-on-one-seed" % nev)
            chk.count("derived-brokers:seed-" + ("pre-populated-datasource" if step["prepop"] else "empty" if not step["seed"]
                                                 else "unrelated-values"))
            if len(set(acts)) < len(acts):
                chk.count("derived-brokers:same-context-class-twice")
            if len(set(acts)) > 1:
                chk.count("derived-brokers:different-contexts")
    if chk is not None:
        chk.count("history:%d-interleaved-evaluations" % sum(evals_at.values()))
        chk.count("history:decorator-types-" + (case.get("ds_mode") or "plain-only"))
        if focus:
            chk.count("history:chain-of-registrations-of-one-spec-for-one-context")
        for f in A.families.values():
            for c in range(world.nctx):
                ln = len([e for e in f["members"] if c in A.walk[e["cid"]]])
                if ln:
                    chk.count("handler-list-length(per spec and context, whole history):%s" % (ln if ln < 6 else "6+"))
        depth = max([len(A.chain(ci)) for ci in range(n)] or [0]) + 1
        chk.count("history:class-hierarchy-depth-%d" % min(depth, 5))
        chk.count("history:" + ("with-redeclared-points" if any(len(f["points"]) > 1 for f in A.families.values()) else "points-in-root-only"))
        cp = case.get("ctx_parent") or []

        def cdepth(i):
            return 1 if cp[i] < 0 else 1 + cdepth(cp[i])
        chk.count("history:context-class-hierarchy-depth-%d" % max([cdepth(i) for i in range(len(cp))] or [1]))
        if case.get("ctx_special"):
            chk.count("history:contexts-" + case["ctx_special"])
        for cd in case["classes"]:
            if cd.get("same_name_as") is not None:
                other = case["classes"][cd["same_name_as"]]
                shared = set(e["name"] for e in cd["entries"]) & set(e["name"] for e in other["entries"])
                chk.count("class:REDEFINITION-under-the-same-module-and-class-name" + (":same-spec-names" if shared else ""))
            chk.count("class:" + ("extends-root" if cd["parent"] < 0 else "extends-earlier-class"))
            for e in cd["entries"]:
                if e["kind"] != "point":
                    chk.count("decorator-type:" + ("spec_factory.first_of(plain)" if e["kind"] == "firstof" else
                                                   {"plain": "plain-datasource", "sub1": "subclass-of-datasource",
                                                    "sub2": "subclass-two-levels-with-class-attributes",
                                                    "fake": "non-datasource-type-NAMED-datasource"}[e.get("dstype") or "plain"]))
                if cp and any(cp[a] == b_ or cp[b_] == a for a in e["ctxs"] for b_ in e["ctxs"] if a != b_):
                    chk.count("impl-contexts:list-mixing-a-context-and-one-derived-from-it")
                elif cp and any(cp[a] >= 0 for a in e["ctxs"]):
                    chk.count("impl-contexts:derived-context")
                elif cp and any(a in cp for a in e["ctxs"]):
                    chk.count("impl-contexts:parent-of-a-derived-context")
                chk.count("impl:" + e["kind"] + ("" if e["name"] < case["npoints"] else "(not-a-root-point)"))
                if e.get("reexport"):
                    chk.count("impl:RE-EXPORT-of-an-earlier-implementation-object")
                chk.count("created-with-flags:" + ("point:" if e["kind"] == "point" else "datasource:") +
                          ("defaults" if e.get("flags") is None else "all-false" if e["flags"] == 0 else "some-set"))
    return world


# --------------------------------------------------------------------------- shipped spec sets

def live_declared(Specs):
    """for every implementation wired to a registry point of the shipped Specs: the execution contexts in its
    dependency tree AT THE MOMENT ITS CLASS WAS CREATED, reconstructed through the public dr API only
    (dr.get_dependencies, dr.get_delegate(point).deps) — classes in creation order, a registry point passed on
    the way contributes only the implementations wired to it before.  Nothing of the implementation's own
    handler bookkeeping is read."""
    wired = {}

    def walk(f):
        seen, ctxs, stack = set(), set(), [f]
        while stack:
            x = stack.pop()
            if isinstance(x, RegistryPoint):
                ds = list(dr.get_delegate(x).deps[:wired.get(x, 0)])
            else:
                try:
                    ds = list(dr.get_dependencies(x))
                except Exception:
                    ds = []
            for d in ds:
                try:
                    if d in seen:
                        continue
                    seen.add(d)
                except TypeError:
                    continue
                if isinstance(d, type) and issubclass(d, ExecutionContext):
                    ctxs.add(d)
                stack.append(d)
        return ctxs
    declared = {}
    for cls in Specs.__subclasses__():
        for k, v in cls.__dict__.items():
            if isinstance(v, SpecDescriptor) and is_datasource(v.func) and not isinstance(v.func, RegistryPoint) \
                    and k in Specs.registry:
                declared[v.func] = walk(v.func)
                wired[Specs.registry[k]] = wired.get(Specs.registry[k], 0) + 1
    return declared


def handler_table_shape(Specs):
    """defensive look at the implementation's internal per-spec/per-context handler table: None when it has the
    shape the model mirrors (name -> context -> LIST of implementations), else a description.  Used for nothing
    but this remark: no stream and no oracle reads the table."""
    try:
        table = getattr(Specs, "context_handlers", None)
        if table is None:
            return "Specs.context_handlers is gone"
        for n, per_ctx in list(table.items()):
            if not hasattr(per_ctx, "items"):
                return "context_handlers[%r] is a %s, not a mapping" % (n, type(per_ctx).__name__)
            for ctx, hs in list(per_ctx.items()):
                if not isinstance(hs, (list, tuple)):
                    return "context_handlers[%r][%s] is a %s, not a list of implementations" % (
                        n, getattr(ctx, "__name__", ctx), type(hs).__name__)
        return None
    except Exception as ex:
        return "context_handlers cannot be read: %s: %s" % (type(ex).__name__, ex)


def live_stream(chk):
    """registration structure of insights.specs.Specs and every spec set extending it, through the model"""
    from insights.specs import Specs
    import insights.specs.default           # noqa: F401  (DefaultSpecs and the datasources' LocalSpecs)
    import insights.specs.insights_archive  # noqa: F401
    import insights.specs.sos_archive       # noqa: F401
    import insights.specs.core3_archive     # noqa: F401
    import insights.specs.jdr_archive       # noqa: F401
    names = dict((n, i) for i, n in enumerate(Specs.registry))
    ids, comps = {}, []

    def cid(x):
        if x not in ids:
            ids[x] = len(comps)
            comps.append(x)
        return ids[x]
    for n, p in Specs.registry.items():
        cid(p)
    hist = []

    def entries_of(cls):
        out = []
        for k, v in cls.__dict__.items():
            if isinstance(v, SpecDescriptor) and is_datasource(v.func) and not isinstance(v.func, RegistryPoint):
                out.append((k, v.func))
        return out
    subs = list(Specs.__subclasses__())
    grand = [g for s in subs for g in s.__subclasses__()]
    # "declared for": the execution contexts in each implementation's dependency tree when it was registered
    handler_of = live_declared(Specs)
    shape = handler_table_shape(Specs)
    if shape is not None:
        chk.tie_broken("registration-shape", "the internal handler table no longer has the shape the model mirrors (%s); "
                       "the behavioural streams and oracles do not read it and are evaluated as usual" % shape, None)
    lines = ["new"]
    for n, p in Specs.registry.items():
        lines.append("point\t%d\t%d" % (names[n], ids[p]))
    ctx_ids = {}
    for direct, group in ((1, subs), (0, grand)):
        for cls in group:
            es = []
            for k, f in entries_of(cls):
                if k not in names:
                    names[k] = len(names)
                cs = sorted(cid(c) for c in handler_of.get(f, ()))
                for c in handler_of.get(f, ()):
                    ctx_ids[c] = ids[c]
                es.append("%d:%d:%s" % (names[k], cid(f), ".".join(map(str, cs)) or "-"))
            lines.append("class\t%d\t%s" % (direct, ";".join(es) or "-"))
            hist.append((cls, direct))
    pts = list(Specs.registry.items())
    lines.append("reg\t%s\t%s" % (",".join(str(names[n]) for n, _ in pts), ",".join(map(str, range(len(comps))))))
    impl = ["deps=%s|ign=%s" % (
        ";".join("%d:%s" % (names[n], ",".join(str(ids.get(d, "?")) for d in dr.get_delegate(p).deps)) for n, p in pts),
        ";".join("%d:%s" % (i, ",".join(map(str, sorted(ids.get(c, 10 ** 6) for c in dr.IGNORE[x]))))
                 for i, x in enumerate(comps) if dr.IGNORE.get(x)))]
    cases = [{"what": "shipped spec sets: dependency order of %d points, IGNORE of %d components" % (len(pts), len(comps))}]
    n_sup = 0
    for n, p in pts:
        deps = dr.get_delegate(p).deps
        for ctx, c in sorted(ctx_ids.items(), key=lambda kv: kv[1]):
            decl = [d for d in deps if ctx in handler_of.get(d, ())]
            allowed = [d for d in decl if ctx not in dr.IGNORE.get(d, ())]
            lines.append("sup\t%d\t%d" % (names[n], c))
            impl.append(str(ids[allowed[-1]]) if allowed else "none")
            cases.append({"what": "shipped: supplier of %s under %s" % (n, ctx.__name__)})
            n_sup += 1
            chk.case(("live", n, ctx.__name__), nontrivial=len(decl) >= 2)
            # oracle on the live registration: exactly the LAST implementation declared for ctx may run under it
            if decl and allowed != [decl[-1]]:
                chk.failure("shipped spec %s under %s: implementations allowed to run %s, the latest declared is %s"
                            % (n, ctx.__name__, [dr.get_name(d) for d in allowed], dr.get_name(decl[-1])),
                            {"live": n, "ctx": ctx.__name__})
        free = [d for d in deps if not handler_of.get(d)]
        if free:
            chk.count("live:context-free-implementations", len(free))
    chk.count("live:points", len(pts))
    chk.count("live:classes", len(hist))
    chk.count("live:contexts", len(ctx_ids))
    chk.extra["shipped_spec_sets"] = {"classes": ["%s.%s" % (c.__module__, c.__name__) for c, _ in hist],
                                      "points": len(pts), "contexts": sorted(c.__name__ for c in ctx_ids),
                                      "supplier_queries": n_sup}
    model = run_driver("C05", lines)
    answers = [m for l, m in zip(lines, model) if l.startswith("reg\t") or l.startswith("sup\t")]
    bad = [m for l, m in zip(lines, model) if not (l.startswith("reg\t") or l.startswith("sup\t")) and m != "ok"]
    if bad:
        chk.tie_broken("protocol", "driver rejected %d lines of the shipped history" % len(bad), bad[:3])
    chk.compare("shipped-spec-sets", cases, impl, answers, show=lambda c: c)


# --------------------------------------------------------------------------- witnesses of the known findings

def load_witness(name):
    return json.load(open(os.path.join(VERIF, "corpus", "C05", name + ".json")))


class _Collect(object):
    def __init__(self):
        self.found = []

    def failure(self, desc, case, finding=None):
        self.found.append((desc, finding))


def run_script(w, with_lines=False):
    """execute a recorded history: class definitions interleaved with evaluations (a witness without a script =
    the whole history, then one evaluation).  Returns (world, broker of the last evaluation, oracle findings of
    the LAST evaluation, protocol lines)"""
    case = w["case"]
    script = w.get("script")
    if script is None:
        script = [{"def": i} for i in range(len(case["classes"]))] + \
                 [{"eval": {"active": w["active"], "outcome": w["outcome"], "mode": "run"}}]
    world = SWorld(case, define_all=False)
    walk = tree_walk(case)
    lines = world.header_lines()
    b, found, found_flags = None, [], []
    for st in script:
        if "def" in st:
            new = world.define_next()
            lines.extend(world.class_lines(st["def"], walk, new))
            col = _Collect()
            flags_oracle(col, world, world.pcase(), {})
            found_flags = col.found        # the flags as they are after the latest class definition
            if with_lines:
                print("  after class %d: %s%s" % (st["def"], world.flags_text(),
                                                   "".join("\n    oracle: %s" % d for d, _ in col.found)))
        elif "derived" in st:
            col = _Collect()
            run_derived(world, st["derived"], col, {}, verbose=with_lines)
            found = col.found
            b = None
        else:
            ev = st["eval"]
            outcome = dict((int(k), v) for k, v in ev["outcome"].items())
            b, order, keys, err = world.run(ev["active"], outcome, ev.get("mode", "run"))
            col = _Collect()
            oracle(col, world, world.pcase(), ev["active"], b, err, {})
            found = col.found
            lines.append(world.run_line(ev["active"], order, keys, outcome))
            if with_lines:
                print("  evaluation after %d classes, active %s, outcomes %s -> %s%s" % (
                    world.defined, ev["active"], outs_text(outcome), world.run_text(b, err),
                    "".join("\n    oracle: %s%s" % (d, (" (known finding %s)" % f) if f else "") for d, f in found)))
    if script and "def" in script[-1]:
        found = []                 # a script that ends with a class definition records a failure of the flag clause
    return world, b, found + found_flags, lines


SHIPPED_ORDER = r"""
import sys
sys.path.insert(0, %r)
import logging
logging.disable(logging.CRITICAL)
from insights.core import dr
from insights.core.context import HostArchiveContext
import insights.specs.insights_archive as ia
import insights.specs.default
from insights.specs import Specs
bad = [n for n in Specs.registry if n in ia.InsightsArchiveSpecs.__dict__
       and HostArchiveContext in dr.IGNORE.get(ia.InsightsArchiveSpecs.__dict__[n].func, set())]
print("IGNORING", len(bad), ",".join(sorted(bad)[:4]))
"""


def shipped_import_order():
    """the second finding on the shipped spec sets: a child interpreter imports insights_archive BEFORE default"""
    import subprocess
    from harness.common import REPO
    p = subprocess.run(["/venv/bin/python", "-c", SHIPPED_ORDER % REPO], stdout=subprocess.PIPE, stderr=subprocess.STDOUT, timeout=300)
    for l in p.stdout.decode("utf-8", "replace").split("\n"):
        if l.startswith("IGNORING"):
            return int(l.split()[1]), l
    return None, p.stdout.decode("utf-8", "replace")[-300:]


# --------------------------------------------------------------------------- entry points

def run(chk):
    rng = chk.rng
    quick = chk.tier == "quick"
    n_worlds = 900 if quick else 12000
    runs_per_ctx = 4 if quick else 8
    chk.rule = ("random registration histories of REAL SpecSet classes: 1-7 classes extending the root or ANY earlier class; 40% of "
                "the histories are hierarchies deeper than two levels in which intermediate classes RE-DECLARE registry points "
                "(chains of up to 4 re-declarations, gaps in the chain, new top-level points in subclasses) and implementations are "
                "attached at different levels in both registration orders, for the same and for different contexts; the parents "
                "chain handed to the model is read off the real cls.__mro__; the value is checked at EVERY level's registry point; "
                "20% of the later classes REDEFINE an earlier class under the same module and class name (identical dr.get_name of "
                "the implementations, different objects); outcomes per implementation: value, None, SkipComponent, ContentException, "
                "CalledProcessError, TimeoutException, BlacklistedSpec, generic exception; a real @parser consumes every registry "
                "point; returning None is a value (spec present with None from the latest implementation), a raising latest "
                "implementation leaves the spec absent and its parser uninvoked; presence in the broker is checked, not broker.get; "
                "a fraction of the implementations have MORE THAN ONE at-least-one list: datasource([CtxA, CtxB], [helper_one, "
                "helper_two]) with context-free helper datasources that succeed or fail (and the control datasource(CtxA, [h1, h2])), "
                "evaluated under contexts inside and outside the context list with helpers present / absent; "
                "implementations are decorated with plain @datasource, SPECIALISED subclasses of datasource (one and two levels "
                "deep, extra class attributes: every / the newest / older / random implementations of a spec), the factory helper "
                "first_of, and rarely a non-datasource component type merely NAMED 'datasource' (must not be wired); the model's "
                "isDatasource flag is issubclass(type actually used, datasource); "
                "27% of the histories are CHAINS: 3-6 registrations one after another of one spec name for the same context "
                "(single / list / through-helper bindings, one for another context in between), other specs interleaved in the same "
                "class bodies, the focus name not first in the body, an evaluation under that context after EVERY registration step; "
                "dr.IGNORE of every implementation and the dependency order of every point are compared with the model after EVERY "
                "class definition; execution contexts form a CLASS HIERARCHY in 55% of the histories (contexts derived from other contexts: two- and "
                "three-level chains, siblings, the shipped HostContext/JBossContext(HostContext) pair, ExecutionContext itself as a "
                "key; implementations for a parent, for a derived one, for lists mixing both; every context active in turn); "
                "1-4 root registry points plus a non-point attribute, implementations bound to fresh ExecutionContext "
                "subclasses (single context, [ctxA, ctxB] group, through a helper datasource; rarely context-free or depending on "
                "another registry point = the two known findings); 85% of the histories with >= 2 classes have 1-3 evaluations "
                "INTERLEAVED between class definitions (late registration: fresh broker, freshly computed graph, random active "
                "context, compared with the model's evaluation of the same prefix, same oracle); after the whole history "
                "every context active in turn (+ none / two), outcomes "
                "value/None/SkipComponent/ContentException/crash per implementation and helper (all-succeed, latest-registered failing, "
                "one failing, random); "
                "round 10: registry points (root and re-declared) and implementations are CREATED WITH random settings of the six "
                "flags (filterable, raw, multi_output, no_redact, prio, no_obfuscate; keyword arguments, or the class attributes of a "
                "specialised datasource type) and the flags of every point and datasource are compared with the model's fRegister "
                "after EVERY class definition; values of other SHAPES (an object whose truth value is False, an empty list, a "
                "two-element list) next to ints and None, and the arguments the parser of every level's point receives; 4% of the "
                "flat histories RE-EXPORT an earlier implementation object under the same name (`p0 = Earlier.p0`, third known "
                "finding); evaluation through dr.run(graph), dr.run([components]), dr.run_components, dr.run_incremental (one "
                "shared broker) and dr.run_all; "
                "60% of the histories end with 2-4 evaluations on brokers DERIVED FROM ONE SEED BROKER (dr.Broker(seed), all created "
                "first; seed empty / holding unrelated values / a pre-populated datasource of no spec), each given its own active "
                "context (any order, the same context class twice, every context in turn; rarely none), evaluated one after the "
                "other through the five entry points: each is held to the whole oracle as if it were the only one and compared with "
                "the model's run from the seed's content only, holds no context of another evaluation, keeps the seed's entries; "
                "afterwards the seed is unchanged and no two brokers share an instance table; "
                "non-trivial = one active context, a spec with >= 2 wired implementations, something invoked; "
                "distinct = history shape x active context x outcome multiset x invocation log")
    chk.assumptions = [
        "rule for context class hierarchies, read off the unchanged code: the active context is the broker key ctx.__class__ "
        "(collect.py:249, hydration.py:70, __init__.py:148); a context derived from another context is a key of its own, anything "
        "issubclass of ExecutionContext at any depth (ExecutionContext itself included) counts as a context for the handler tables "
        "(spec_factory.py:587-595), and an implementation declared for the parent context is NOT declared for the derived one: it "
        "requires the parent's key, which is absent.  The model's contexts are therefore opaque keys with no parent relation; "
        "the generated contexts carry one (case['ctx_parent']) only on the implementation side",
        "'declared for context c' in the oracle = the implementation's requirements can be met when c is the only context supplied "
        "(from the generated shape); in the model = the contexts _get_ctx_dependencies finds (handed over by the generator's own tree walk)",
        "hierarchies (registry points re-declared in intermediate classes): a spec = the top-level point plus its "
        "re-declarations down a chain of classes that all declare the name; hypothesis (H) of hier_point_value_partial "
        "(every implementation of the spec is in the top class's handler table for each of its contexts) is computed by the "
        "driver on every generated history (H=ok in the registration streams), not proved from the fold in general",
        "the flat model (theorems registration_lists .. point_value_partial) and the hierarchical model are both evaluated by "
        "the driver on histories where only the root declares points and must agree (flat=agree in every compared line)",
        "flags: the value a component is created with (`own` of the model) is the generator's knowledge — the keyword arguments "
        "it passed to RegistryPoint(...) / @datasource(...), or the class attributes of the decorator type; the implementation "
        "side shows the six attributes of the DELEGATE (what filters, hydration and get_subgraphs read), the oracle also requires "
        "the component object to agree with its delegate where it is wired",
        "value shapes: one model atom per (shape, producer); on the implementation side a value is identified by object identity "
        "with what the generated datasource returned in this evaluation (a copy would be shown as it is and break the tie, the "
        "oracle accepts equal values); parsers are not part of the model, their calls are held to the oracle only",
        "shipped spec sets: registration order of the classes = Specs.__subclasses__() order; 'declared for' = the execution "
        "contexts in the implementation's dependency tree when its class was created, reconstructed through the public dr API "
        "(time-aware walk); the implementation's internal context_handlers table is not read by any stream or oracle (only its "
        "shape is looked at, defensively, and a change of shape is recorded as broken correspondence 'registration-shape')",
    ]
    chk.lean()
    # ---- witnesses of the known findings (corpus first)
    for fid in (F_FREE, F_REACH, F_TWICE):
        w = load_witness(fid)
        world, b, found, _ = run_script(w)
        chk.witnesses.append({"id": fid, "reproduces": bool(found), "oracle": [d for d, _ in found][:2]})
        if found:
            if all(f == fid for _, f in found):
                chk.finding_reproduced(fid)
                for d, f in found:
                    chk.failure(d, w, finding=f)
            else:
                for d, f in found:
                    chk.failure(d, w, finding=f)
    n_ign, text = shipped_import_order()
    chk.witnesses.append({"id": F_REACH + ":shipped-spec-sets-imported-archive-first",
                          "archive_implementations_told_to_ignore_HostArchiveContext": n_ign, "detail": text})
    if n_ign:
        chk.finding_reproduced(F_REACH)
    # ---- generated histories
    lines, impl, cases = [], [], []
    for idx in range(n_worlds):
        case = gen_case(rng, quick)
        check_world(chk, chk, rng, case, lines, impl, cases, runs_per_ctx)
    model = run_driver("C05", lines)
    answers = [m for l, m in zip(lines, model) if l.split("\t")[0] in ("hreg", "hsup", "hrun", "hflags")]
    bad = [m for l, m in zip(lines, model) if l.split("\t")[0] not in ("hreg", "hsup", "hrun", "hflags") and m != "ok"]
    if bad:
        chk.tie_broken("protocol", "driver rejected %d world lines" % len(bad), bad[:3])
    def is_hier(c):
        k = c.get("classes-created", len(c["case"]["classes"]))
        return any(e["kind"] == "point" for cd in c["case"]["classes"][:k] for e in cd["entries"])
    for what, name in (("registration", "registration(deps,IGNORE)"), ("supplier", "rule(supplier)"),
                       ("run", "evaluation(values,missing,invocations)"),
                       ("prefix-registration", "interleaved:registration-of-prefix"),
                       ("prefix-run", "interleaved:evaluation-of-prefix"),
                       ("derived-run", "derived-brokers(one seed broker, several contexts):evaluation"),
                       ("flags", "registration(flags of every point and datasource)"),
                       ("prefix-flags", "interleaved:flags-after-every-class-definition")):
        for hier in (False, True):
            sel = [i for i, c in enumerate(cases) if c["what"].startswith(what) and is_hier(c) == hier]
            if sel:
                chk.compare(name + (":hierarchy(points re-declared in intermediate classes)" if hier else ""),
                            [cases[i] for i in sel], [impl[i] for i in sel], [answers[i] for i in sel])
    for i in (0, 1, len(cases) - 1):
        chk.sample({"what": cases[i]["what"], "impl": impl[i], "model": answers[i]})
    # ---- shipped spec sets
    live_stream(chk)


def live_rule(name, ctx_name):
    """the rule on the live registration of one shipped spec under one context: (declared, allowed)"""
    from insights.specs import Specs
    import insights.specs.default           # noqa: F401
    import insights.specs.insights_archive  # noqa: F401
    import insights.specs.sos_archive       # noqa: F401
    import insights.specs.core3_archive     # noqa: F401
    import insights.specs.jdr_archive       # noqa: F401
    deps = dr.get_delegate(Specs.registry[name]).deps
    declared = live_declared(Specs)
    decl = [d for d in deps if any(c.__name__ == ctx_name for c in declared.get(d, ()))]
    allowed = [d for d in decl if not any(c.__name__ == ctx_name for c in dr.IGNORE.get(d, ()))]
    return decl, allowed


def replay(data):
    if data.get("kind") == "broken-tie":
        print("no failing input was found; what no longer checks:")
        for b in data["broken"]:
            print(" -", b["what"], ":", b["detail"])
            if b.get("case"):
                print("   first difference:", json.dumps(b["case"], default=str)[:1500])
        return 1
    c = data["case"]
    if "live" in c:
        decl, allowed = live_rule(c["live"], c["ctx"])
        print("shipped spec %s under %s: declared (registration order) %s; allowed to run %s" % (
            c["live"], c["ctx"], [dr.get_name(d) for d in decl], [dr.get_name(d) for d in allowed]))
        bad = bool(decl) and allowed != [decl[-1]]
        print("property violated on this input" if bad else "property holds on this input")
        return 1 if bad else 0
    case = c["case"]
    nev = sum(1 for st in c.get("script", [1]) if "eval" in st) if "script" in c else 1
    print("replaying history with %d classes, %d points, %d evaluation(s); the recorded failure is at the last one" % (
        len(case["classes"]), case["npoints"], nev))
    world, b, found, lines = run_script(c, with_lines=True)
    ends_with_eval = b is not None and not ("script" in c and c["script"] and "def" in c["script"][-1])
    lines.append(world.reg_line())
    lines.append(world.flags_line())
    out = run_driver("C05", lines)
    print("implementation: %s\n                %s%s" % (world.reg_text(), world.flags_text(),
                                                      "\n                " + world.run_text(b, None) if ends_with_eval else ""))
    print("model:          %s\n                %s%s" % (out[-2], out[-1], "\n                " + out[-3] if ends_with_eval else ""))
    for d, f in found:
        print("oracle:", d, ("(known finding %s)" % f) if f else "")
    print("property violated on this input" if found else "property holds on this input")
    return 1 if found else 0
