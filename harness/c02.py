"""
C02 — a component fires exactly when its requirements are met; arguments bind in order.
Tie: the same engine-vs-model runs as C01 (instances, missing reports, rule skip responses are part of
the compared broker).  Oracle: firing decision, missing report and argument binding recomputed
independently from the generated declaration and the final broker.
"""
from harness.common import run_driver
from harness import dr_world as W
from insights.core import dr, plugins


def declared(spec_c):
    req = [it[1] for it in spec_c["items"] if it[0] == "o"]
    groups = [list(it[1]) for it in spec_c["items"] if it[0] == "g"]
    deps = [c for it in spec_c["items"] for c in ([it[1]] if it[0] == "o" else it[1])] + list(spec_c["optional"])
    return req, groups, deps


def oracle(chk, world, r, case):
    if getattr(r, "edges_changed", None):
        chk.failure(r.edges_changed, case)
    b = r.broker
    if r.error is not None:
        chk.failure("evaluation raised %r" % (r.error,), case)
        return
    spec = W.unstrip(case["spec"])
    seeded = set(c for c, _ in case["seeds"])
    inst = dict((world.ids[c], v) for c, v in b.instances.items() if c in world.ids)
    keys = set(world.ids[k] for k in r.graph)
    invoked = {}
    elems = {}
    for c, a in r.calls:
        if a and a[0] == "elem":
            elems.setdefault(c, []).append(a[1])
        else:
            invoked.setdefault(c, []).append(a)
    for cid in sorted(keys):
        s = spec[cid]
        if s["kind"] == "point":
            # a registry point: required groups = [its implementations]
            d = dr.get_delegate(world.comps[cid])
            req, groups, deps = [], [[world.ids[x] for x in d.at_least_one[0]]], [world.ids[x] for x in d.deps]
        else:
            req, groups, deps = declared(s)
        was_called = cid in invoked or cid in elems
        if cid in seeded:
            if was_called:
                chk.failure("seeded component %d was invoked" % cid, case)
            continue
        if not s.get("enabled", True):
            if was_called or world.comps[cid] in b.missing_requirements or cid in inst:
                chk.failure("disabled component %d was invoked or reported" % cid, case)
            continue
        if any(i in inst for i in s.get("ignore", [])):
            if was_called:
                chk.failure("component %d was invoked although an ignored key is present" % cid, case)
            continue
        mreq = [x for x in req if x not in inst]
        mgrp = [g for g in groups if not any(x in inst for x in g)]
        met = not mreq and not mgrp
        if s["kind"] == "point":
            continue        # its body is the real RegistryPoint.__call__; firing is visible only through its value (compared with the model)
        parser_nothing_to_call = s["kind"] in ("parser1", "parser0") and met and \
            (not req or (isinstance(inst.get(req[0]), list) and not inst[req[0]]))
        if met and not was_called and not parser_nothing_to_call:
            chk.failure("component %d (%s) has its requirements met but was not invoked" % (cid, s["kind"]), case)
        if not met and was_called:
            chk.failure("component %d (%s) was invoked with requirements missing: %s %s" % (cid, s["kind"], mreq, mgrp), case)
        if not met:
            if s["kind"] == "rule":
                v = b.instances.get(world.comps[cid])
                ok = isinstance(v, plugins._make_skip) and \
                    [world.ids[x] for x in v.missing[0]] == mreq and [[world.ids[x] for x in g] for g in v.missing[1]] == mgrp
                if not ok:
                    chk.failure("rule %d: skip result does not report exactly the missing dependencies %s %s: %r" % (cid, mreq, mgrp, v), case)
                if world.comps[cid] in b.missing_requirements:
                    chk.failure("rule %d: missing requirements stored outside the skip result" % cid, case)
            else:
                rep = b.missing_requirements.get(world.comps[cid])
                got = ([world.ids[x] for x in rep[0]], [[world.ids[x] for x in g] for g in rep[1]]) if rep else None
                if got != (mreq, mgrp):
                    chk.failure("component %d: missing report %s, expected exactly %s" % (cid, got, (mreq, mgrp)), case)
            continue
        # argument binding
        def cv(x):
            v = W.canon_val(world, inst[x]) if x in inst else "N"
            return tuple(v) if isinstance(v, list) else v
        if s["kind"] in ("plain", "plugin", "rule", "datasource"):
            want = tuple(cv(x) for x in deps)
            got = invoked.get(cid, [None])[0]
            if got is not None and got != want:
                chk.failure("component %d (%s) received %s, declared order gives %s" % (cid, s["kind"], got, want), case)
        else:
            first = inst[req[0]] if req else None
            if isinstance(first, list):
                if elems.get(cid, []) != [x for x in first][:len(elems.get(cid, []))] or (cid in invoked):
                    chk.failure("parser %d: elements passed %s, spec value %s" % (cid, elems.get(cid), first), case)
            elif req:
                if invoked.get(cid, [None])[0] != (cv(req[0]),):
                    chk.failure("parser %d received %s, first required dependency holds %s" % (cid, invoked.get(cid), cv(req[0])), case)


NB = 10          # size of the pool of keys a generated declaration may name


def _derive_pool():
    """real components to depend on, and keys that are no components: plain strings (like "metadata.json") and a
    TUPLE (hashable: an ordinary key wherever it is written — only a `list` makes an at-least-one group)"""
    base = []
    for i in range(NB):
        def f():
            return None
        f.__name__ = "dv%d" % i
        base.append(plugins.component()(f) if i < 6 else "dv%d.key" % i if i < 8 else "metadata.json" if i == 8 else ("dv9", "tuple-key"))
    return base


DERIVE_KINDS = {"plain": ("plain", W.vplain), "component": ("plugin", plugins.component), "combiner": ("plugin", plugins.combiner),
                "condition": ("plugin", plugins.condition), "incident": ("plugin", plugins.incident), "fact": ("plugin", plugins.fact),
                "remoteresource": ("plugin", plugins.remoteresource), "rule": ("rule", plugins.rule),
                "datasource": ("datasource", plugins.datasource), "parser": ("parser1", plugins.parser),
                "metadata": ("parser1", plugins.metadata)}


def _enc_items(its):
    def mem(m):
        return str(m) if isinstance(m, int) else "n" + ".".join(map(str, m[1]))
    return ";".join(("o%d" % x[1]) if x[0] == "o" else ("g" + ",".join(mem(m) for m in x[1])) for x in its) or "-"


def _has_nested(its):
    return any(x[0] == "g" and any(not isinstance(m, int) for m in x[1]) for x in its)


def derive_line(case):
    kname = DERIVE_KINDS[case["type"]][0]
    kw_opt = case["kw_optional"]
    return "derive2\t%s\t%s\t%s\t%s\t%s\t%s\t%s\t%s" % (
        kname, _enc_items(case["cls_requires"]), ",".join(map(str, case["cls_optional"])) or "-", _enc_items(case["positional"]),
        _enc_items(case["kw_requires"] or []), "1" if case["kw_requires_tuple"] else "0",
        "-" if kw_opt is None else ("s%d" % kw_opt[1]) if kw_opt[0] == "s" else "m" + ",".join(map(str, kw_opt[1])),
        "1" if (kw_opt is not None and kw_opt[0] == "x") else "0")


def derive_one(base, case):
    """the decorator call of `case` on the real component type; its delegate's requires / at_least_one / deps"""
    ids = dict((c, i) for i, c in enumerate(base))

    def real(its):
        return [base[x[1]] if x[0] == "o" else [base[m] if isinstance(m, int) else [base[c] for c in m[1]] for m in x[1]] for x in its]
    ktype = DERIVE_KINDS[case["type"]][1]
    body = {"optional": [base[c] for c in case["cls_optional"]]}
    if not case.get("inherit_requires"):
        body["requires"] = real(case["cls_requires"])
    T = type("T_%s" % case["type"], (ktype,), body)
    kwargs = {}
    if case["kw_requires"] is not None:
        kwargs["requires"] = tuple(real(case["kw_requires"])) if case["kw_requires_tuple"] else real(case["kw_requires"])
    kw_opt = case["kw_optional"]
    if kw_opt is not None:
        kwargs["optional"] = (base[kw_opt[1]] if kw_opt[0] == "s" else [base[c] for c in kw_opt[1]] if kw_opt[0] == "m"
                              else [base[c] for c in kw_opt[1]] + [[base[c] for c in kw_opt[2]]])
    try:
        d = T(*real(case["positional"]), **kwargs)
        parts = (list(d.requires), [list(g) for g in d.at_least_one], list(d.deps))
        if not all(c in ids for c in parts[0] + parts[2]) or not all(c in ids for g in parts[1] for c in g):
            return "foreign-keys:%r" % (parts,)
        return "req=%s|alo=%s|deps=%s" % (",".join(str(ids[c]) for c in parts[0]),
                                          "&".join((";".join(str(ids[c]) for c in g) or "_") for g in parts[1]),
                                          ",".join(str(ids[c]) for c in parts[2]))
    except Exception as ex:
        return "raised:%s" % type(ex).__name__


def derive_oracle(rep, case, got):
    """declaration order = class-level requirements, then positional (else requires=), then optional ones; a decorator
    call raises only for what cannot be a declaration (a list inside a list, requires= as a tuple)"""
    parser = DERIVE_KINDS[case["type"]][0] == "parser1"
    pos, kw_req, kw_opt = case["positional"], case["kw_requires"] or [], case["kw_optional"]
    eff = pos if pos else ([] if parser else kw_req)
    malformed = _has_nested(case["cls_requires"] + eff) or (not parser and not pos and case["kw_requires"] is not None and case["kw_requires_tuple"]) \
        or (not parser and kw_opt is not None and kw_opt[0] == "x")
    if got.startswith("raised") or not got.startswith("req="):
        if not malformed:
            rep.failure("decorator arguments %s: the decorator call gave %s on a well-formed declaration" % (case, got), case)
        return
    if malformed:
        return            # (accepting it is no statement about binding order; the correspondence notes the difference)
    want = [c for x in case["cls_requires"] + eff for c in ([x[1]] if x[0] == "o" else x[1])] + list(case["cls_optional"])
    if not parser and kw_opt is not None:
        want += [kw_opt[1]] if kw_opt[0] == "s" else list(kw_opt[1])
    if got.split("deps=")[1] != ",".join(map(str, want)):
        rep.failure("decorator arguments %s bind in order %s, declaration order is %s" % (case, got.split("deps=")[1], want), case)
    wreq = [x[1] for x in case["cls_requires"] + eff if x[0] == "o"]
    if got.split("|")[0] != "req=" + ",".join(map(str, wreq)):
        rep.failure("decorator arguments %s: required dependencies %s, written are %s" % (case, got.split("|")[0], wreq), case)


def derive_stream(chk, n):
    """
    ComponentType.__init__ glue for EVERY component type (bare ComponentType, component, combiner, condition, incident,
    fact, remoteresource, rule, datasource, parser, metadata): class-level requires / optional of a component type
    (metadata: the inherited one), positional arguments, the deprecated requires= keyword (list or tuple), optional= as
    a single key or a list (or, malformed, a list holding a list), groups holding a list — the delegate's requires,
    at_least_one and deps (argument order) vs IV.Dr.derive2.
    """
    rng = chk.rng
    base = _derive_pool()

    def items(k):
        out = []
        for _ in range(k):
            if rng.random() < 0.3:
                ms = [rng.randrange(NB) for _ in range(rng.choice([0, 1, 1, 2, 2, 3]))]
                if ms and rng.random() < 0.12:
                    ms[rng.randrange(len(ms))] = ["n", [rng.randrange(NB) for _ in range(rng.randint(0, 2))]]
                out.append(("g", ms))
            else:
                out.append(("o", rng.randrange(NB)))
        return out
    lines, impl, cases = [], [], []
    tnames = sorted(DERIVE_KINDS)
    for i in range(n):
        tname = rng.choice(tnames)
        parser = DERIVE_KINDS[tname][0] == "parser1"
        cls_req, cls_opt = items(rng.choice([0, 0, 1, 2])), [rng.randrange(NB) for _ in range(rng.choice([0, 0, 1, 2]))]
        inherit = tname == "metadata" and rng.random() < 0.6
        if inherit:
            cls_req = [("o", 8)]                                  # metadata.requires = ["metadata.json"], not overridden
        pos, kw_req = items(rng.choice([0, 1, 2, 3])), items(rng.choice([0, 0, 1, 2]))
        if parser and not (cls_req or pos):
            pos = [("o", rng.randrange(NB))]
        r = rng.random()
        kw_opt = None if r < 0.4 else ("s", rng.randrange(NB)) if r < 0.6 else \
            ("m", [rng.randrange(NB) for _ in range(rng.randint(0, 3))]) if r < 0.93 else \
            ("x", [rng.randrange(NB) for _ in range(rng.randint(0, 2))], [rng.randrange(NB) for _ in range(rng.randint(0, 2))])
        has_kw = bool(kw_req) or rng.random() < 0.2
        case = {"op": "derive", "type": tname, "kind": DERIVE_KINDS[tname][0], "cls_requires": cls_req, "cls_optional": cls_opt,
                "inherit_requires": inherit, "positional": pos, "kw_requires": kw_req if has_kw else None,
                "kw_requires_tuple": bool(has_kw and rng.random() < 0.15), "kw_optional": kw_opt}
        got = derive_one(base, case)
        impl.append(got)
        lines.append(derive_line(case))
        cases.append(case)
        chk.case(("derive", lines[-1]), bool(pos or kw_req or cls_req))
        chk.count("derive:" + tname)
        if got.startswith("raised"):
            chk.count("derive:" + got)
        derive_oracle(chk, case, got)
    chk.compare("decorator-arguments-vs-derive", cases, impl, run_driver("Dr", lines))


def second_evaluation(world, seeds, ss, graph, add):
    """
    Evaluation 1 on a broker, then the value add=(id, text) is supplied for a component that produced none, then
    evaluation 2 on the SAME broker.  Reference: ONE evaluation on a fresh broker that holds everything present after
    evaluation 1 plus `add`.  Returns None when the two agree, else a description.  (What evaluation 1 left in the
    broker's exception / missing-requirements records is no input of evaluation 2: whether a component is invoked is
    decided by what is present.)
    """
    def calls_of(world):
        return sorted((c, a) for c, a in world.calls if not (a and a[0] == "elem"))

    def inst_of(b):
        return dict((world.ids[c], W.canon_val(world, v)) for c, v in b.instances.items() if c in world.ids)
    r1 = W.evaluate(world, seeds, ss, graph, mode="run")
    if r1.error is not None:
        return None
    b = r1.broker
    present = [(c, v) for c, v in b.instances.items() if c in world.ids]
    x, text = add
    if world.comps[x] in b.instances:
        return None
    b[world.comps[x]] = W.uncanon_val(text)
    world.calls = []
    try:
        dr.run(dict((k, set(v)) for k, v in graph.items()), broker=b)
    except Exception as ex:
        return "the second evaluation raised %r" % (ex,)
    calls2, inst2 = calls_of(world), inst_of(b)
    ref = world.new_broker([], ss)
    W.instrument(world, ref)
    for c, v in present:
        ref[c] = v
    ref[world.comps[x]] = W.uncanon_val(text)
    world.calls = []
    dr.run(dict((k, set(v)) for k, v in graph.items()), broker=ref)
    callsr, instr = calls_of(world), inst_of(ref)
    if calls2 != callsr:
        never = sorted(set(c for c, _ in callsr) - set(c for c, _ in calls2))
        extra = sorted(set(c for c, _ in calls2) - set(c for c, _ in callsr))
        return ("after %d was supplied with %s, the second evaluation on the same broker invoked %s; enabled components with every "
                "requirement present are %s (not invoked although their requirements are met: %s; invoked without need: %s)"
                % (x, text, sorted(set(c for c, _ in calls2)), sorted(set(c for c, _ in callsr)), never, extra))
    if inst2 != instr:
        diff = sorted(k for k in set(inst2) | set(instr) if inst2.get(k) != instr.get(k))
        return "after %d was supplied with %s, the second evaluation left %s, expected %s" % (
            x, text, dict((k, inst2.get(k)) for k in diff), dict((k, instr.get(k)) for k in diff))
    return None


def run(chk):
    quick = chk.tier == "quick"
    n_worlds = 1200 if quick else 20000
    rng = chk.rng
    chk.rule = ("random worlds of REAL components of every type (bare ComponentType, component/combiner/condition/incident/fact, "
                "datasource, parser, rule, RegistryPoint), every outcome kind, enabled/disabled, seeds, ignore entries on seeded keys; "
                "non-trivial = at least one component fired and one did not; distinct = canonical final broker not seen before")
    chk.assumptions = ["datasource and parser receive the specialised arguments their types document (broker / first required value); "
                       "the generic one-argument-per-dependency binding is checked for the other types (DESIGN §6 C02)"]
    chk.lean()
    lines, impl, cases = [], [], []
    for idx in range(n_worlds):
        n = rng.randint(2, 14 if quick else 40)
        spec = W.gen_spec(rng, n, fault_rate=0.2)
        seeds = W.gen_seeds(rng, spec)
        # ignore entries, only on seeded keys (what spec_factory does: execution contexts)
        for cid in range(n):
            if seeds and rng.random() < 0.08:
                spec[cid]["ignore"] = [rng.choice(seeds)[0]]
        world = W.World(spec, "c02_%d_%d" % (chk.seed, idx))
        targets = sorted(set(rng.randrange(n) for _ in range(rng.randint(1, 4))))
        graph = world.graph_for(targets)
        ss = rng.random() < 0.5
        lines.extend(world.lines(seeds))
        r = W.evaluate(world, seeds, ss, graph, mode=rng.choice(["run", "components"]))
        case = {"spec": W.strip(spec), "seeds": seeds, "targets": targets, "order": r.order_ids, "store_skips": ss}
        oracle(chk, world, r, case)
        lines.append(r.run_line)
        impl.append(r.text)
        cases.append(case)
        if idx % 3 == 1 and r.error is None:
            # history on ONE broker: a component that produced nothing gets a value afterwards and the graph is evaluated again
            absent = [world.ids[c] for c in graph if c not in r.broker.instances and spec[world.ids[c]]["kind"] != "point"]
            hot = [x for x in absent if any(world.comps[x] in v for v in graph.values())] or absent
            if hot:
                add = (rng.choice(hot), "A%d" % (8000 + rng.randrange(100)))
                why = second_evaluation(world, seeds, ss, graph, add)
                chk.count("second-evaluation-on-one-broker")
                if why:
                    chk.failure(why, dict(case, mode="second-evaluation", add=list(add)))
        p = W.split_text(r.text)
        fired = len(set(c for c, _ in r.calls))
        chk.case(r.text, nontrivial=fired >= 1 and (bool(p["missing"]) or ":S" in p["inst"]))
        chk.count("fired:%d" % min(fired, 8))
        chk.count("missing-reports:%d" % min(len(p["missing"].split()), 5))
    model, bad = W.driver_answers(run_driver, lines)
    if bad:
        chk.tie_broken("protocol", "driver rejected %d world lines" % len(bad), bad[:3])
    chk.compare("engine-vs-model", cases, impl, model)
    chk.sample({"case": cases[0], "impl": impl[0]})
    derive_stream(chk, 4000 if quick else 40000)
    # history: dr.add_dependency between two registered components, between two evaluations through every entry point that
    # builds the graph itself (shared with C01: the new member must be evaluated, and bound last, in declaration order)
    from harness import c01
    c01.late_dep_stream(chk, 400 if quick else 8000)


def replay(data):
    if data["case"].get("op") == "derive":
        case = data["case"]
        for k in ("cls_requires", "positional", "kw_requires"):
            if case.get(k) is not None:
                case[k] = [tuple(x) for x in case[k]]
        if case.get("kw_optional") is not None:
            case["kw_optional"] = tuple(case["kw_optional"])
        got = derive_one(_derive_pool(), case)
        model = run_driver("Dr", [derive_line(case)])[0]
        print("decorator-argument case:", case)
        print("implementation:", got)
        print("model:         ", model)

        class Rep(object):
            bad = 0

            def failure(self, desc, c, finding=None):
                self.bad += 1
                print("oracle:", desc)
        rep = Rep()
        derive_oracle(rep, case, got)
        bad = rep.bad or got != model
        print("property violated on this input" if bad else "property holds on this input")
        return 1 if bad else 0
    if data["case"].get("op") == "late-dep":
        from harness import c01
        return c01.replay_late_dep(data["case"])
    if data["case"].get("mode") == "second-evaluation":
        case = data["case"]
        world, seeds, graph = W.rebuild(case)
        why = second_evaluation(world, seeds, case.get("store_skips", False), graph, tuple(case["add"]))
        print("history: evaluation, then %s supplied for component %s, then a second evaluation on the same broker" % (case["add"][1], case["add"][0]))
        print("oracle:", why or "the second evaluation invokes exactly the components whose requirements are present")
        print("property violated on this input" if why else "property holds on this input")
        return 1 if why else 0
    return W.generic_replay(data, oracle)
