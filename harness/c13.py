"""
C13 — package version comparison is RPM's ordering.

Tie: `_rpm_vercmp`, `rpm_version_compare`, InstalledRpm's operators and InstalledRpms.newest/oldest
are run in-process on generated strings and compared with IV.Rpm (Drivers/C13.lean).
Oracle: an independent byte-level port of rpmvercmp.c, RPM's own test table, the order laws.

"RPM's own comparison" inside Lean is IV.Rpm.Reference.rpmvercmp (Model/RpmRef.lean), a transcription
of rpmvercmp.c on code units; `vercmp_eq_reference` proves the model of `_rpm_vercmp` equal to it.
The transcription is trusted, so it is tied to RPM's data here: driver command `ref` runs it on the
UTF-8 bytes of every pair (streams `reference-vs-c-port`, `reference-vs-rpm-table`), and `u8` exposes
the driver's UTF-8 encoder for comparison with Python's (stream `driver-utf8`).
`vercmp_eq_lex` states the comparison as a lexicographic order on tokens; its vocabulary (`tokens`,
`lexCmpTok`) is compared with an independent regex tokenizer (streams `tokens`, `token-lex-order`) and
the same statement is an oracle on the implementation.
"""
import json
import os
import re

from harness.common import VERIF, enc, dec, run_driver

from insights.parsers import rpm_vercmp as _impl
from insights.parsers.installed_rpms import InstalledRpm, InstalledRpms
from insights.tests import context_wrap

ALPHA = ["0", "1", "9", "00", "10", "a", "b", "Z", "ab", ".", "-", "_", "~", "^", "+", "é", "€", "~~", "^1", "01", "a1", "1a", "rc", "el7",
         # every other character that is not alphanumeric separates segments too: ASCII punctuation, blanks, controls
         ":", ",", "#", "=", "/", " ", "%", "@", "!", "{", "\t", ";"]


# A comparison that raises is an outcome of the implementation, not a fault of the harness: it is reported as the
# value RAISED (never equal to -1, 0 or 1), so every oracle clause and the model comparison see it and the pair
# becomes the replay.
RAISED = 99
RAISED_LOG = []


def _rpm_vercmp(a, b):
    try:
        return _impl._rpm_vercmp(a, b)
    except Exception as e:
        RAISED_LOG.append(("_rpm_vercmp", type(e).__name__))
        return RAISED


def rpm_version_compare(a, b):
    try:
        return _impl.rpm_version_compare(a, b)
    except Exception as e:
        RAISED_LOG.append(("rpm_version_compare", type(e).__name__))
        return RAISED


def c_rpmvercmp(a, b):
    """port of rpm/lib/rpmvercmp.c working on UTF-8 bytes (independent of the Python under test)"""
    if a == b:
        return 0
    one = a.encode("utf-8") + b"\0"
    two = b.encode("utf-8") + b"\0"
    i = j = 0

    def alnum(c):
        return (48 <= c <= 57) or (65 <= c <= 90) or (97 <= c <= 122)

    def digit(c):
        return 48 <= c <= 57

    def alpha(c):
        return (65 <= c <= 90) or (97 <= c <= 122)

    while one[i] or two[j]:
        while one[i] and not alnum(one[i]) and one[i] != 126 and one[i] != 94:
            i += 1
        while two[j] and not alnum(two[j]) and two[j] != 126 and two[j] != 94:
            j += 1
        if one[i] == 126 or two[j] == 126:
            if one[i] != 126:
                return 1
            if two[j] != 126:
                return -1
            i += 1
            j += 1
            continue
        if one[i] == 94 or two[j] == 94:
            if not one[i]:
                return -1
            if not two[j]:
                return 1
            if one[i] != 94:
                return 1
            if two[j] != 94:
                return -1
            i += 1
            j += 1
            continue
        if not (one[i] and two[j]):
            break
        p, q = i, j
        if digit(one[p]):
            while one[p] and digit(one[p]):
                p += 1
            while two[q] and digit(two[q]):
                q += 1
            isnum = True
        else:
            while one[p] and alpha(one[p]):
                p += 1
            while two[q] and alpha(two[q]):
                q += 1
            isnum = False
        if i == p:
            return -1
        if j == q:
            return 1 if isnum else -1
        s1, s2 = one[i:p], two[j:q]
        if isnum:
            s1 = s1.lstrip(b"0")
            s2 = s2.lstrip(b"0")
            if len(s1) > len(s2):
                return 1
            if len(s2) > len(s1):
                return -1
        if s1 != s2:
            return -1 if s1 < s2 else 1
        i, j = p, q
    if not one[i] and not two[j]:
        return 0
    return -1 if not one[i] else 1


# fixed pairs for the `ref` stream: every UTF-8 length, neighbours of the length boundaries, non-ASCII
# next to every token class, equal bytes reached from different strings is impossible in UTF-8 but
# equal NORMALISED strings are not ("é" vs "€" vs ".")
REF_EXTRA = [("\u007f", "\u0080"), ("1\u07ff2", "1.2"), ("\u0800", "\uffff"), ("\U00010000a", "\U0010ffffa"),
             ("1é2", "1.2"), ("1é2", "1€2"), ("é", "€"), ("é", ""), ("é~", "€"), ("^é", "^"), ("aé1", "a1"),
             ("0é0", "00"), ("aéb", "ab"), ("é1", "1"), ("1é", "1"), ("~é", "~"), ("é^1", "^1"), ("", ""), ("é", "é")]


_TOK = re.compile(r"~|\^|[0-9]+|[A-Za-z]+")


def py_tokens(s):
    """independent statement of DESIGN A.1's `tokens`: non-ASCII -> '.', then maximal '~', '^', digit runs
    (leading zeros stripped) and ASCII letter runs; everything else separates"""
    s = "".join(c if ord(c) < 128 else "." for c in s)
    out = []
    for t in _TOK.findall(s):
        out.append("n" + t.lstrip("0") if t[0].isdigit() else t if t in "~^" else "a" + t)
    return out


def _tok_key(t):
    """~ < end < ^ < alpha (string order) < num (length, then string order)"""
    if t is None:
        return (1,)
    if t == "~":
        return (0,)
    if t == "^":
        return (2,)
    if t[0] == "a":
        return (3, t[1:])
    return (4, len(t) - 1, t[1:])


def py_lex(a, b):
    ta, tb = py_tokens(a), py_tokens(b)
    for i in range(max(len(ta), len(tb))):
        x = _tok_key(ta[i] if i < len(ta) else None)
        y = _tok_key(tb[i] if i < len(tb) else None)
        if x != y:
            return -1 if x < y else 1
    return 0


def gen_str(rng, maxlen):
    n = rng.choice([0, 1, 1, 2, 2, 3, 3, 4, 5, 6, maxlen])
    return "".join(rng.choice(ALPHA) for _ in range(n))


def mutate(rng, s):
    """a near neighbour of s: the hard cases are pairs that agree on a long prefix"""
    k = rng.randrange(6)
    if k == 0:
        return s + rng.choice(ALPHA)
    if k == 1 and s:
        i = rng.randrange(len(s))
        return s[:i] + rng.choice(ALPHA) + s[i + 1:]
    if k == 2 and s:
        i = rng.randrange(len(s))
        return s[:i] + s[i + 1:]
    if k == 3:
        i = rng.randrange(len(s) + 1)
        return s[:i] + rng.choice(["0", ".", "~", "^", "-"]) + s[i:]
    if k == 4:
        return s
    return gen_str(rng, 8)


def sgn(x):
    return (x > 0) - (x < 0)


def cls_tag(a, b):
    def k(s):
        t = set()
        for c in s:
            t.add("d" if c.isdigit() else "a" if c.isalpha() and ord(c) < 128 else c if c in "~^" else "u" if ord(c) > 127 else "s")
        return "".join(sorted(t))
    return k(a) + "|" + k(b)


ROUTES = ["dict", "dict", "json", "json-none", "package"]


class _SubRpm(InstalledRpm):
    """a subclass a consumer might write: ordering is about name/epoch/version/release, never about the class"""


def _classes():
    from insights.parsers.yum_list import YumListRpm
    return {"InstalledRpm": InstalledRpm, "YumListRpm": YumListRpm, "subclass": _SubRpm}


ARCHES = ["x86_64", "i686", "noarch"]
REPOS = [None, "@rhel-7-server-rpms", "updates", "fedora", "@anaconda/7.6"]


def mk_rpm(name, evr, cls="InstalledRpm", route="dict", extra=0):
    """one package object through one of the documented ways of making it; every way denotes the same package"""
    o = _mk_rpm(name, evr, cls, route, ARCHES[extra % len(ARCHES)])
    if hasattr(o, "repo"):
        # what a package is compared by is its name, epoch, version and release: where it came from is not part of it
        o.repo = REPOS[extra % len(REPOS)]
    return o


def _mk_rpm(name, evr, cls, route, arch):
    c = _classes()[cls]
    e, v, r = evr
    if route == "json" or route == "json-none":
        # JSON line; an epoch of 0 is what rpm prints as "(none)" (route json-none) or leaves out
        d = {"name": name, "version": v, "release": r, "arch": arch}
        if e != 0:
            d["epoch"] = str(e)
        elif route == "json-none":
            d["epoch"] = "(none)"
        return c.from_json(json.dumps(d))
    if route == "package" and not any(ch in v + r for ch in "-:") and v and r:
        o = c.from_package("%s-%s%s-%s.%s" % (name, "%d:" % e if e else "", v, r, arch))
        if (o.version, o.release, o.name) == (v, r, name):       # the short string form parsed back to the same fields
            return o
    return c({"name": name, "epoch": str(e), "version": v, "release": r, "arch": arch})


def parse_list(which, evrs):
    """the builds of package `pkg` through one of the real parsers that offer newest()/oldest()"""
    from insights.parsers.yum_list import YumListInstalled, YumListAvailable
    if which == "rpm-qa":
        return InstalledRpms(context_wrap("\n".join("pkg-%d:%s-%s.x86_64" % e for e in evrs)))
    head = "Installed Packages" if which == "yum-installed" else "Available Packages"
    rows = ["Loaded plugins: product-id, search-disabled-repos, subscription-manager", head]
    # one build may be listed from several repositories
    rows += ["pkg.x86_64    %d:%s-%s    %s" % (e + (REPOS[1 + i % (len(REPOS) - 1)],)) for i, e in enumerate(evrs)]
    return (YumListInstalled if which == "yum-installed" else YumListAvailable)(context_wrap("\n".join(rows)))


def ops_impl(a, b):
    out = []
    for f in (lambda: a == b, lambda: a != b, lambda: a < b, lambda: a <= b, lambda: a > b, lambda: a >= b):
        try:
            out.append("1" if f() else "0")
        except ValueError:
            out.append("E")
        except Exception as e:
            out.append("raised:" + type(e).__name__)
    return ",".join(out)


def run(chk):
    rng = chk.rng
    quick = chk.tier == "quick"
    n_pairs = 30000 if quick else 1500000
    n_triples = 8000 if quick else 300000
    n_evr = 6000 if quick else 200000
    n_lists = 1500 if quick else 40000
    n_ref = 40000 if quick else 600000      # pairs through Reference.rpmvercmp (table first)
    n_u8 = 4000 if quick else 60000         # strings through the driver's UTF-8 encoder
    chk.rule = ("pairs/triples of strings over an alphabet biased to leading zeros, '~', '^', separators, "
                "alpha/numeric switches, non-ASCII and empty, half of them near-neighbours of each other; "
                "non-trivial = the two strings differ and the pair was not seen before")
    chk.assumptions = ["reference for 'RPM's ordering' in the oracle: a byte-level port of rpmvercmp.c written from the upstream source, "
                       "plus RPM's own rpmvercmp.at table (corpus/C13/rpmvercmp_at.json)",
                       "reference for 'RPM's ordering' in the theorems (vercmp_eq_reference): IV.Rpm.Reference.rpmvercmp, a line-by-line "
                       "transcription of rpm lib/rpmvercmp.c (source quoted in lean/IV/Model/RpmRef.lean); checked on every run against "
                       "the Python port on all generated pairs and against every row of RPM's rpmvercmp.at table"]
    chk.lean()

    # ---- stream 1: _rpm_vercmp on pairs (corpus first: RPM's table)
    table = json.load(open(os.path.join(VERIF, "corpus", "C13", "rpmvercmp_at.json"), encoding="utf-8"))
    pairs = [(a, b) for a, b, _ in table]
    for a, b, want in table:
        got = _rpm_vercmp(a, b)
        chk.case(("t", a, b), a != b)
        if got != want:
            chk.failure("RPM's rpmvercmp.at says vercmp(%r,%r)=%d, implementation gives %d" % (a, b, want, got),
                        {"op": "vc", "a": a, "b": b, "want": want})
    seen = set()
    for _ in range(n_pairs):
        a = gen_str(rng, 10)
        b = mutate(rng, a) if rng.random() < 0.6 else gen_str(rng, 10)
        pairs.append((a, b))
    # digit runs far longer than any machine integer (and than CPython's limit for str -> int conversion): RPM never
    # converts a segment to a number, it strips zeros and compares lengths, then text
    for n in (19, 20, 39, 310, 4299, 4300, 4301, 4500, 9000):
        d = rng.choice("1234567")
        base = d * n
        longs = [("2." + base, "2." + base[:-1] + "8"), ("0" * n + "1", "1"), (base, base + "0"), ("1." + "0" * n, "1." + "0" * (n + 1)),
                 (base + "a", base + "b"), ("1~" + base, "1~" + base), (base + "." + base, base + "." + base[:-1] + "9")]
        for pr in (rng.sample(longs, 2) if quick else longs):
            pairs.append(pr if rng.random() < 0.5 else (pr[1], pr[0]))
            chk.count("pair:digit-run>=%d" % (4301 if n > 4300 else 19))
    impl = []
    for a, b in pairs:
        r = _rpm_vercmp(a, b)
        impl.append(str(r))
        key = (a, b)
        chk.case(key, a != b and key not in seen)
        seen.add(key)
        chk.count("pair:" + cls_tag(a, b)[:12])
        chk.count("result:%d" % r)
        ref = c_rpmvercmp(a, b)
        if r != ref:
            chk.failure("vercmp(%r,%r)=%d but rpmvercmp.c gives %d" % (a, b, r, ref), {"op": "vc", "a": a, "b": b, "want": ref})
        if r != py_lex(a, b):
            chk.failure("vercmp(%r,%r)=%d is not the lexicographic comparison of the token lists %r / %r (=%d)"
                        % (a, b, r, py_tokens(a), py_tokens(b), py_lex(a, b)), {"op": "vc", "a": a, "b": b, "want": ref})
        r2 = _rpm_vercmp(b, a)
        if r != -r2:
            chk.failure("not antisymmetric: vercmp(%r,%r)=%d, swapped=%d" % (a, b, r, r2), {"op": "anti", "a": a, "b": b})
        if _rpm_vercmp(a, a) != 0:
            chk.failure("not reflexive on %r" % a, {"op": "refl", "a": a})
    # one driver start for: the model of _rpm_vercmp (vc), the transcription of rpmvercmp.c on
    # the UTF-8 bytes (ref), and the driver's own UTF-8 encoder (u8)
    pairs_ref = pairs + [(b, a) for a, b in pairs[:len(table)]] + REF_EXTRA
    strs = sorted(set(x for p in pairs_ref for x in p))
    if len(strs) > n_u8:
        strs = sorted(set(strs[::len(strs) // n_u8 + 1] + [x for p in REF_EXTRA for x in p]))
    if len(pairs_ref) > n_ref:
        pairs_ref = pairs_ref[:n_ref] + REF_EXTRA
    out = run_driver("C13", ["vc\t%s\t%s" % (enc(a), enc(b)) for a, b in pairs] +
                     ["ref\t%s\t%s" % (enc(a), enc(b)) for a, b in pairs_ref] +
                     ["u8\t%s" % enc(x) for x in strs] + ["tok\t%s" % enc(x) for x in strs] +
                     ["lex\t%s\t%s" % (enc(a), enc(b)) for a, b in pairs_ref[:n_u8]])
    cut = [len(pairs), len(pairs_ref), len(strs), len(strs), len(pairs_ref[:n_u8])]
    model, ref_out, u8_out, tok_out, lex_out = [out[sum(cut[:i]):sum(cut[:i + 1])] for i in range(5)]
    chk.compare("vercmp", pairs, impl, model)
    # the transcription (trusted base of vercmp_eq_reference) against the independent C port …
    chk.compare("reference-vs-c-port", pairs_ref, [str(c_rpmvercmp(a, b)) for a, b in pairs_ref], ref_out)
    # … against RPM's own expected results, row by row …
    chk.compare("reference-vs-rpm-table", pairs[:len(table)], [str(w) for _, _, w in table], ref_out[:len(table)])
    # … and the bytes it was given against Python's UTF-8
    chk.compare("driver-utf8", strs, [",".join(str(v) for v in x.encode("utf-8")) or "-" for x in strs], u8_out)
    # the vocabulary of vercmp_eq_lex (Model/RpmLex.lean) against the independent regex tokenizer
    chk.compare("tokens", strs, [",".join(py_tokens(x)) or "-" for x in strs], tok_out)
    chk.compare("token-lex-order", pairs_ref[:n_u8], [str(py_lex(a, b)) for a, b in pairs_ref[:n_u8]], lex_out)
    for a, b in pairs_ref:
        chk.count("ref:" + ("non-ascii" if any(ord(c) > 127 for c in a + b) else "ascii"))
    for p in pairs[103:106]:
        chk.sample({"vc": list(p), "impl": _rpm_vercmp(*p)})

    # ---- transitivity on triples (oracle only; the theorem is vercmp_trans_le)
    for _ in range(n_triples):
        a = gen_str(rng, 6)
        b = mutate(rng, a)
        c = mutate(rng, b)
        chk.case(("tr", a, b, c), len({a, b, c}) == 3)
        x, y, z = _rpm_vercmp(a, b), _rpm_vercmp(b, c), _rpm_vercmp(a, c)
        if x <= 0 and y <= 0 and z > 0 or x >= 0 and y >= 0 and z < 0 or (x == 0 and y == 0 and z != 0):
            chk.failure("not transitive: %r,%r,%r -> %d,%d,%d" % (a, b, c, x, y, z), {"op": "trans", "a": a, "b": b, "c": c})

    # ---- stream 2: epoch/version/release through InstalledRpm objects
    def gen_evr():
        # epochs also beyond one digit, beyond 256 (small-integer objects are shared up to there) and date-like
        return (rng.choice([0, 0, 0, 1, 2, 10, 10, 256, 257, 300, 20240101, 4294967295]), gen_str(rng, 5), gen_str(rng, 4))
    evr_cases, impl, lines = [], [], []
    pending = []
    recent = []          # the comparisons made just before (a failure that needs them replays them first)

    def nodash(n):
        return gen_str(rng, n).replace("-", "") or "1"
    for _ in range(n_evr):
        forced = None
        if pending:
            x, y, forced = pending.pop(0)
        elif rng.random() < 0.12:
            # two packages that PRINT alike (epoch:name-version-release) but split differently into version and release,
            # compared one after the other with the same other side: what a package is compared by is the split fields
            e, t1, t2, t3 = rng.choice([0, 0, 1, 257]), nodash(2), nodash(2), nodash(2)
            x, x2 = (e, t1 + "-" + t2, t3), (e, t1, t2 + "-" + t3)
            y = rng.choice([(e, t1, nodash(2)), (e, t1, mutate(rng, t3)), (e, t1 + "-" + t2, mutate(rng, t3)), x2, x])
            forced = rng.choice(["bash", "kernel"])
            pending.append((x2, y, forced))
            if rng.random() < 0.5:
                pending.append((y, x, forced))
                pending.append((y, x2, forced))
            chk.count("evr:same-print-different-split")
        else:
            x = gen_evr()
            y = rng.choice([gen_evr(), (x[0], x[1], mutate(rng, x[2])), (x[0], mutate(rng, x[1]), x[2]), x])
        n1 = forced or rng.choice(["bash", "kernel"])
        n2 = n1 if (forced or rng.random() < 0.85) else "glibc"
        # the two sides are objects of the base class, of the yum-list subclass or of a consumer's subclass, mixed
        c1 = rng.choice(["InstalledRpm", "InstalledRpm", "YumListRpm", "subclass"])
        c2 = rng.choice(["InstalledRpm", "InstalledRpm", "YumListRpm", "subclass"])
        r1, r2 = rng.choice(ROUTES), rng.choice(ROUTES)
        e1, e2 = rng.randrange(15), rng.randrange(15)
        a, b = mk_rpm(n1, x, c1, r1, e1), mk_rpm(n2, y, c2, r2, e2)
        this = {"n1": n1, "x": x, "n2": n2, "y": y, "c1": c1, "c2": c2, "r1": r1, "r2": r2, "e1": e1, "e2": e2}
        chk.count("evr:repo:" + ("n/a" if not (hasattr(a, "repo") and hasattr(b, "repo")) else "same" if a.repo == b.repo else "differs"))
        chk.count("evr:classes:" + ("same" if c1 == c2 else "mixed"))
        chk.count("evr:made-by:" + r1)
        c = rpm_version_compare(a, b)
        ops = ops_impl(a, b)
        evr_cases.append((n1, x, n2, y))
        impl.append("%d|%s" % (c, ops))
        lines.append("evr\t%d\t%s\t%s\t%d\t%s\t%s" % (x[0], enc(x[1]), enc(x[2]), y[0], enc(y[1]), enc(y[2])))
        lines.append("ops\t%s\t%d\t%s\t%s\t%s\t%d\t%s\t%s" % (enc(n1), x[0], enc(x[1]), enc(x[2]), enc(n2), y[0], enc(y[1]), enc(y[2])))
        chk.case(("evr", n1, x, n2, y), x != y)
        chk.count("evr:" + ("same-name" if n1 == n2 else "diff-name"))
        # oracle: the operators agree with the comparison, exactly one of < == > holds
        if n1 == n2:
            want = ",".join("1" if v else "0" for v in (c == 0, c != 0, c < 0, c <= 0, c > 0, c >= 0))
            if ops != want:
                chk.failure("operators disagree with rpm_version_compare=%d: %s (eq,ne,lt,le,gt,ge) for %r vs %r" % (c, ops, x, y),
                            {"op": "ops", "n1": n1, "x": x, "n2": n2, "y": y, "c1": c1, "c2": c2, "r1": r1, "r2": r2, "e1": e1, "e2": e2, "before": list(recent[-3:])})
            ref = sgn(x[0] - y[0]) or c_rpmvercmp(x[1], y[1]) or c_rpmvercmp(x[2], y[2])
            if c != ref:
                chk.failure("rpm_version_compare(%r,%r)=%d, RPM gives %d (objects made by %s / %s)" % (x, y, c, ref, r1, r2),
                            {"op": "evr", "x": x, "y": y, "want": ref, "n1": n1, "n2": n2, "c1": c1, "c2": c2, "r1": r1, "r2": r2, "e1": e1, "e2": e2, "before": list(recent[-3:])})
        elif ops != "E,E,E,E,E,E":
            chk.failure("packages with different names were compared: %s" % ops, {"op": "ops", "n1": n1, "x": x, "n2": n2, "y": y, "c1": c1, "c2": c2, "r1": r1, "r2": r2, "e1": e1, "e2": e2, "before": list(recent[-3:])})
        recent.append(this)
        del recent[:-3]
    out = run_driver("C13", lines)
    model = ["%s|%s" % (out[2 * i], out[2 * i + 1]) for i in range(len(evr_cases))]
    chk.compare("evr+operators", evr_cases, impl, model)
    chk.sample({"evr": evr_cases[0], "impl": impl[0]})

    # ---- stream 3: newest / oldest through the real InstalledRpms parser
    ascii_alpha = ["0", "1", "9", "10", "01", "a", "b", "Z", ".", "_", "~", "^", "+", "rc"]

    def gen_ascii(n):
        return "".join(rng.choice(ascii_alpha) for _ in range(rng.randint(1, n)))
    list_cases, impl, lines = [], [], []
    for _ in range(n_lists):
        k = rng.randint(1, 6)
        evrs = []
        base = (rng.choice([0, 0, 1, 257, 20240101]), gen_ascii(4), gen_ascii(3))
        for _ in range(k):
            evrs.append(rng.choice([base, (base[0], mutate_ascii(rng, base[1], ascii_alpha), base[2]),
                                    (rng.choice([0, 1, 2, base[0]]), gen_ascii(4), gen_ascii(3))]))
        # every parser that offers newest()/oldest(): `rpm -qa` output and the two `yum list` forms
        which = rng.choice(["rpm-qa", "rpm-qa", "yum-installed", "yum-available"])
        chk.count("lists:" + which)
        try:
            rpms = parse_list(which, evrs)
            got = rpms.packages.get("pkg", [])
            if [(int(p.epoch), p.version, p.release) for p in got] != evrs:
                chk.count("lists:parse-differs")
                continue
            mx, mn = rpms.newest("pkg"), rpms.oldest("pkg")
        except Exception as e:
            chk.failure("%s: parsing / newest / oldest raised %s: %s on %r" % (which, type(e).__name__, e, evrs), {"op": "max", "evrs": evrs, "parser": which})
            continue
        impl.append("%s|%s" % (show(mx), show(mn)))
        flat = "\t".join("%d\t%s\t%s" % (e[0], enc(e[1]), enc(e[2])) for e in evrs)
        lines.append("max\t" + flat)
        lines.append("min\t" + flat)
        list_cases.append(evrs)
        chk.case(("list", tuple(evrs)), len(set(evrs)) > 1)
        chk.count("lists:len%d" % k)
        for p in got:
            if rpm_version_compare(p, mx) > 0:
                chk.failure("newest() is not a maximum: %r exceeds %r" % (show(p), show(mx)), {"op": "max", "evrs": evrs, "parser": which})
            if rpm_version_compare(p, mn) < 0:
                chk.failure("oldest() is not a minimum: %r is below %r" % (show(p), show(mn)), {"op": "min", "evrs": evrs, "parser": which})
            # the operators on the parsed objects say the same thing as the comparison
            for q, nm in ((mx, "newest"), (mn, "oldest")):
                cq = rpm_version_compare(p, q)
                want = ",".join("1" if v else "0" for v in (cq == 0, cq != 0, cq < 0, cq <= 0, cq > 0, cq >= 0))
                if ops_impl(p, q) != want:
                    chk.failure("%s: operators between a listed build %r and %s() %r are %s, the comparison gives %d" % (which, show(p), nm, show(q), ops_impl(p, q), cq),
                                {"op": "max", "evrs": evrs, "parser": which})
    out = run_driver("C13", lines)
    model = ["%s|%s" % (canon_evr(out[2 * i]), canon_evr(out[2 * i + 1])) for i in range(len(list_cases))]
    chk.compare("newest/oldest", list_cases, impl, model)
    if list_cases:
        chk.sample({"newest/oldest of": list_cases[0], "impl": impl[0]})


def mutate_ascii(rng, s, alpha):
    i = rng.randrange(len(s) + 1)
    return (s[:i] + rng.choice(alpha) + s[i + 1:]) or "1"


def show(p):
    return "%d:%s-%s" % (int(p.epoch), p.version, p.release)


def canon_evr(line):
    e, v, r = line.split("\t")
    return "%s:%s-%s" % (e, dec(v), dec(r))


def replay(data):
    c = data["case"]
    print("replaying", json.dumps(c, ensure_ascii=False))
    op = c.get("op")
    bad = False
    if op in ("vc", "anti", "refl"):
        a, b = c["a"], c.get("b", c["a"])
        r, r2, ref = _rpm_vercmp(a, b), _rpm_vercmp(b, a), c_rpmvercmp(a, b)
        m, mref = run_driver("C13", ["vc\t%s\t%s" % (enc(a), enc(b)), "ref\t%s\t%s" % (enc(a), enc(b))])
        print("impl vercmp(a,b)=%d vercmp(b,a)=%d  rpmvercmp.c=%d  model=%s  Reference.rpmvercmp=%s" % (r, r2, ref, m, mref))
        bad = r != ref or r != -r2
    elif op == "trans":
        a, b, cc = c["a"], c["b"], c["c"]
        x, y, z = _rpm_vercmp(a, b), _rpm_vercmp(b, cc), _rpm_vercmp(a, cc)
        print("impl: ab=%d bc=%d ac=%d" % (x, y, z))
        bad = (x <= 0 and y <= 0 and z > 0) or (x >= 0 and y >= 0 and z < 0) or (x == 0 and y == 0 and z != 0)
    elif op in ("ops", "evr"):
        for h in c.get("before", []):
            # the comparisons made just before the recorded one, in the same process
            ha = mk_rpm(h["n1"], tuple(h["x"]), h["c1"], h["r1"], h["e1"])
            hb = mk_rpm(h["n2"], tuple(h["y"]), h["c2"], h["r2"], h["e2"])
            print("before: %s vs %s -> compare=%s ops=%s" % (tuple(h["x"]), tuple(h["y"]), rpm_version_compare(ha, hb) if h["n1"] == h["n2"] else "-", ops_impl(ha, hb)))
        x, y = tuple(c["x"]), tuple(c["y"])
        a = mk_rpm(c.get("n1", "p"), x, c.get("c1", "InstalledRpm"), c.get("r1", "dict"), c.get("e1", 0))
        b = mk_rpm(c.get("n2", "p"), y, c.get("c2", "InstalledRpm"), c.get("r2", "dict"), c.get("e2", 0))
        print("classes: %s vs %s" % (type(a).__name__, type(b).__name__))
        cmpv = rpm_version_compare(a, b)
        ref = sgn(x[0] - y[0]) or c_rpmvercmp(x[1], y[1]) or c_rpmvercmp(x[2], y[2])
        print("impl compare=%d ops=%s  RPM=%d" % (cmpv, ops_impl(a, b), ref))
        if c.get("n1") == c.get("n2"):
            bad = cmpv != ref or ops_impl(a, b) != ",".join(
                "1" if v else "0" for v in (cmpv == 0, cmpv != 0, cmpv < 0, cmpv <= 0, cmpv > 0, cmpv >= 0))
        else:
            # packages with different names are not comparable: every operator refuses (ValueError)
            bad = ops_impl(a, b) != "E,E,E,E,E,E"
            print("different names: every operator must refuse, got %s" % ops_impl(a, b))
    elif op in ("max", "min"):
        evrs = [tuple(e) for e in c["evrs"]]
        try:
            rpms = parse_list(c.get("parser", "rpm-qa"), evrs)
            mx, mn = rpms.newest("pkg"), rpms.oldest("pkg")
            print("%s: impl newest=%s oldest=%s" % (c.get("parser", "rpm-qa"), show(mx), show(mn)))
            bad = any(rpm_version_compare(p, mx) > 0 or rpm_version_compare(p, mn) < 0 for p in rpms.packages["pkg"])
        except Exception as e:
            print("impl raised %s: %s" % (type(e).__name__, e))
            bad = True
    print("property violated on this input" if bad else "property holds on this input")
    return 1 if bad else 0
